"""C14 generators: valid definitions (abstract structure -> dict -> YAML text in several syntactic
forms), a corpus reader for the repository's bundled YAML, and the structure-aware mutators."""
import copy
import datetime
import glob
import os
import re

import yaml

ENGINE_CMDS = ['noop', 'fail', 'succeed', 'pause']
CLAUSES = ['on-success', 'on-error', 'on-complete', 'on-skip']

GOOD_EXPR = ['<% $.x %>', '<% $.x != null %>', '<% 1 + 1 %>', '{{ _.x }}', '<% task(t0).result %>',
             '{{ 1 + 1 }}', '<% $.get(a, 1) %>', '<% true %>', '<% $.x in [1, 2] %>']
BAD_EXPR = ['<% $. %>', '<% 1 + %>', '<% %>', '<% ( %>', '<% $.x %> {{ _.y }}', '{{ 1 + }}', '{% for %}',
            '{{ }}', '<% "unterminated %>', '{{ _.x | nofilter( }}', '<% $.a.b( %>', '<%', '%>', '{{', '<% <% 1 %> %>',
            '{% if x %}', '<% 1 %> <% ) %>', '<% $.x.where($ %>', "<% '\\' %>", '{{ "a" ~ }}', '<% \u00e9 + %>']
TASK_NAMES = ['t0', 't1', 't2', 't3', 'task_a', 'Task_B', 'a1', 'b2', 'c3', 'd4', 'e5', 'x', 'y', 'z9']
ODD_NAMES = ['noop', 'fail', 'succeed', 'pause', 'version', 'name', 'type', 'tasks', 'true', 'null', '1', '007',
             '1e3', 'a.b', 'a-b', 'a b', ' a', 'a ', 'a:b', 'a#b', '#a', '-', '_', '\u00fcn\u00efc\u00f6d\u00e9',
             '\u4efb\u52a1', '\u0661\u0662', 'a\tb', 'a\nb', '', 'x' * 255, 'x' * 256, 'x' * 208, 'x' * 209,
             'x' * 5000, '<% $.x %>', '{{ _.x }}', 'workflows', 'actions', '__class__', 'a/b', 'a,b', '[a]',
             '{a}', 'a=b', 'fail msg=1', 'yes', 'on', '~', '0x10', '1_000', '2001-01-01', '!a', '&a', '*a', '@a', '%a',
             '12345678-1234-1234-1234-123456789abc']


# ------------------------------------------------------------------ abstract workflows
def pick_names(rng, n, pool=TASK_NAMES):
    return rng.sample(pool, n)


def gen_entry(rng, targets):
    tgt = rng.choice(targets)
    params = None
    pform = rng.choice(['sp', 'fn'])
    if tgt in ('fail', 'succeed') and rng.random() < 0.4:
        # NB (unchanged by the repo fixes) `fail(msg=123)` (function form without any blank) is NOT generated: _parse_cmd_and_input only parses
        # strings that contain a blank, so the whole text becomes the task name, and the on-clause schema's oneOf
        # rejects it as a bare string ("valid under each of"); both are rejections (HTTP 400), see docs/C14.md
        params = rng.choice(['msg="boom"', 'msg=<% $.x %>', 'msg=123']) if pform == 'sp' else \
            rng.choice(['msg="boom boom"', 'msg=<% $.x %>'])
    guard = rng.choice(GOOD_EXPR) if rng.random() < 0.3 else None
    return {'target': tgt, 'params': params, 'pform': pform, 'guard': guard}


def gen_clause(rng, targets, maxn=3):
    n = rng.choice([1, 1, 1, 2, 2, 3][:maxn * 2])
    ents = []
    seen = set()
    for _ in range(n):
        e = gen_entry(rng, targets)
        k = (e['target'], e['params'], e['guard'])
        if k in seen:
            continue
        seen.add(k)
        ents.append(e)
    forms = ['list', 'adv-list']
    if len(ents) == 1:
        forms += ['single', 'single', 'adv-single']
    publish = None
    form = rng.choice(forms)
    if form.startswith('adv') and rng.random() < 0.7:
        publish = {}
        for sec in rng.sample(['branch', 'global', 'atomic'], rng.randint(1, 2)):
            publish[sec] = {'p_' + sec: rng.choice(GOOD_EXPR + ['v', 1])}
    return {'entries': ents, 'form': form, 'publish': publish}


def gen_policies(rng):
    p = {}
    if rng.random() < 0.3:
        if rng.random() < 0.3:
            p['retry'] = rng.choice(['count=3 delay=1', 'count=2 delay=0 break-on=<% $.x %>',
                                     'count=<% $.c %> delay=1 continue-on={{ _.y }}'])
        else:
            r = {'count': rng.choice([0, 1, 3, '<% $.c %>']), 'delay': rng.choice([0, 1, '{{ _.d }}'])}
            if rng.random() < 0.4:
                r['break-on'] = '<% $.x = 1 %>'
            if rng.random() < 0.3:
                r['continue-on'] = '{{ _.y }}'
            p['retry'] = r
    for k, vals in (('wait-before', [0, 1, '<% $.w %>']), ('wait-after', [2, '{{ _.w }}']),
                    ('timeout', [5, '<% $.t %>']), ('pause-before', [True, False, '<% $.p %>']),
                    ('concurrency', [1, 3, '<% $.c %>']), ('fail-on', [False, '<% $.x = 1 %>'])):
        if rng.random() < 0.15:
            p[k] = rng.choice(vals)
    return p


def gen_wf(rng, name, typ=None, size=None, wild=False):
    """Abstract workflow.  `wild` also produces graphs the validator must reject."""
    typ = typ or rng.choice(['direct', 'direct', 'direct', 'reverse'])
    n = size or rng.randint(1, 6)
    names = pick_names(rng, n)
    if rng.random() < 0.08:
        names[rng.randrange(n)] = rng.choice(['noop', 'fail', 'pause', 'succeed', '1', 'true', 'x' * 40])
    wf = {'name': name, 'type': typ, 'explicit_type': typ == 'reverse' or rng.random() < 0.3,
          'tasks': [], 'defaults': None, 'extras': {}}
    ex = wf['extras']
    if rng.random() < 0.4:
        ex['input'] = rng.choice([['a'], ['a', {'b': 1}], [{'c': None}, 'd'], [{'e': [1, 2]}]])
    if rng.random() < 0.3:
        ex['output'] = {'o': rng.choice(GOOD_EXPR + ['lit', 1])}
    if rng.random() < 0.15:
        ex['output-on-error'] = {'e': '<% $.err %>'}
    if rng.random() < 0.2:
        ex['vars'] = {'v': rng.choice(GOOD_EXPR + [1, 'lit'])}
    if rng.random() < 0.2:
        ex['tags'] = rng.choice([['a'], ['a', 'b']])
    if rng.random() < 0.2:
        ex['description'] = 'some workflow'
    for i, tn in enumerate(names):
        t = {'name': tn, 'clauses': {}, 'join': None, 'requires': None, 'body': {}}
        b = t['body']
        r = rng.random()
        if r < 0.25:
            pass
        elif r < 0.45:
            b['action'] = 'std.noop'
        elif r < 0.6:
            b['action'] = rng.choice(['std.echo output="x"', 'std.echo output=<% $.x %>',
                                      'std.echo output={{ _.x }}', 'std.http url="http://a" method=GET',
                                      "std.echo output='q'", 'std.echo output=[1, 2]', 'std.echo output=true'])
        elif r < 0.75:
            b['action'] = 'std.echo'
            b['input'] = {'output': rng.choice(GOOD_EXPR + ['s', 1, None, [1, '<% $.x %>'], {'k': 'v'}])}
        elif r < 0.85:
            b['workflow'] = rng.choice(['sub_wf', 'wb.sub_wf', 'sub_wf p=1', '<% $.wf_name %>'])
        elif r < 0.92:
            b['action'] = 'std.echo'
            b['input'] = '<% $.action_input %>'
        else:
            b['action'] = '<% $.action_name %>'
        if rng.random() < 0.2:
            b['publish'] = {'r_' + str(i): rng.choice(GOOD_EXPR + ['v'])}
        if rng.random() < 0.1:
            b['publish-on-error'] = {'e_' + str(i): '<% task().result %>'}
        if rng.random() < 0.05:
            b['publish-on-skip'] = {'s_' + str(i): 1}
        if rng.random() < 0.12:
            b['with-items'] = rng.choice(['i in <% $.items %>', 'i in [1, 2, 3]', ['i in <% $.a %>', 'j in <% $.b %>'],
                                          'i in {{ _.items }}', 'i in ["a", "b"]'])
        if rng.random() < 0.1:
            b['keep-result'] = rng.choice([True, False, '<% $.k %>'])
        if rng.random() < 0.08:
            b['safe-rerun'] = rng.choice([True, '<% $.s %>'])
        if rng.random() < 0.08:
            b['target'] = rng.choice(['exec1', '<% $.tgt %>'])
        if rng.random() < 0.1:
            b['description'] = 'a task'
        b.update(gen_policies(rng))
        wf['tasks'].append(t)
    if typ == 'direct':
        for i, t in enumerate(wf['tasks']):
            if wild:
                targets = names + ENGINE_CMDS + (['ghost'] if rng.random() < 0.25 else [])
            else:
                targets = names[i + 1:] + ENGINE_CMDS[:2] if i + 1 < n else ENGINE_CMDS[:3]
                if rng.random() < 0.15 and i > 0:
                    targets = targets + names[1:]        # cycles not through the start task
            for c in CLAUSES:
                if rng.random() < (0.35 if c != 'on-skip' else 0.08):
                    t['clauses'][c] = gen_clause(rng, targets)
        # joins
        for i, t in enumerate(wf['tasks']):
            if rng.random() < (0.3 if wild else 0.2):
                inbound = inbound_count(wf, t['name'])
                if wild:
                    t['join'] = rng.choice(['all', 'one', 0, 1, 2, 3, 5])
                elif inbound > 0:
                    t['join'] = rng.choice(['all', 'one', 1, inbound])
        if rng.random() < (0.3 if wild else 0.15):
            d = {'clauses': {}, 'body': gen_policies(rng)}
            c = rng.choice(CLAUSES)
            targets = (names + ENGINE_CMDS) if wild else (names[-1:] + ENGINE_CMDS[:2])
            d['clauses'][c] = gen_clause(rng, targets)
            wf['defaults'] = d
    else:
        for i, t in enumerate(wf['tasks']):
            pool = names if wild else names[:i]
            if wild and rng.random() < 0.2:
                pool = pool + ['ghost', 'noop']
            if pool and rng.random() < 0.6:
                k = rng.randint(1, min(3, len(pool)))
                req = rng.sample(pool, k)
                t['requires'] = req[0] if (k == 1 and rng.random() < 0.5) else req
        if rng.random() < 0.2:
            d = {'clauses': {}, 'body': gen_policies(rng)}
            if rng.random() < 0.6:
                d['requires'] = rng.choice([names[0], [names[0]], names[:2]]) if not wild \
                    else rng.choice([names[0], ['ghost'], names[:2]])
            wf['defaults'] = d
    return wf


def clause_targets(cl):
    return [e['target'] for e in cl['entries']] if cl else []


def outbound(wf, tname):
    """Ground truth of DirectWorkflowSpec.find_outbound_task_names from the abstract structure."""
    t = [x for x in wf['tasks'] if x['name'] == tname][0]
    res = set()
    for c in CLAUSES:
        own = clause_targets(t['clauses'].get(c))
        if own:
            res |= set(own)
        elif wf['defaults'] and wf['defaults']['clauses'].get(c):
            res |= {x for x in clause_targets(wf['defaults']['clauses'][c]) if x != tname}
    return res


def inbound_count(wf, tname):
    return sum(1 for t in wf['tasks'] if tname in outbound(wf, t['name']))


def render_entry(e):
    s = e['target']
    if e['params']:
        s = '%s %s' % (s, e['params']) if e['pform'] == 'sp' else '%s(%s)' % (s, e['params'])
    return {s: e['guard']} if e['guard'] else s


def render_clause(cl):
    ents = [render_entry(e) for e in cl['entries']]
    f = cl['form']
    if f in ('single', 'adv-single'):
        nxt = ents[0]
    else:
        nxt = ents
    if f.startswith('adv'):
        d = {}
        if cl['publish']:
            d['publish'] = copy.deepcopy(cl['publish'])
        d['next'] = nxt
        return d
    return nxt


def render_wf(wf):
    d = {}
    if 'description' in wf['extras']:
        d['description'] = wf['extras']['description']
    if wf['explicit_type']:
        d['type'] = wf['type']
    for k in ('tags', 'input', 'vars', 'output', 'output-on-error'):
        if k in wf['extras']:
            d[k] = copy.deepcopy(wf['extras'][k])
    if wf['defaults']:
        td = copy.deepcopy(wf['defaults']['body'])
        for c, cl in wf['defaults']['clauses'].items():
            td[c] = render_clause(cl)
        if wf['defaults'].get('requires'):
            td['requires'] = copy.deepcopy(wf['defaults']['requires'])
        if td:
            d['task-defaults'] = td
    tasks = {}
    for t in wf['tasks']:
        b = copy.deepcopy(t['body'])
        if t['join'] is not None:
            b['join'] = t['join']
        if t['requires'] is not None:
            b['requires'] = copy.deepcopy(t['requires'])
        for c, cl in t['clauses'].items():
            b[c] = render_clause(cl)
        if not b:
            b['action'] = 'std.noop'
        tasks[t['name']] = b
    d['tasks'] = tasks
    return d


def clause_form(cl):
    """The syntactic form as the model's OnClause: form + entries (target, guarded)."""
    if cl is None:
        return None
    return {'form': cl['form'], 'entries': [{'t': e['target'], 'g': bool(e['guard'])} for e in cl['entries']]}


def graph_args(wf):
    """Model input for lang.graph (from the abstract structure, not from the parsed spec)."""
    def cl(owner):
        return {c: clause_form(owner['clauses'].get(c)) for c in CLAUSES}
    defaults = None
    if wf['defaults']:
        defaults = cl(wf['defaults'])
        r = wf['defaults'].get('requires')
        defaults['requires'] = [r] if isinstance(r, str) else (r or [])
    tasks = []
    for t in wf['tasks']:
        a = cl(t)
        a['name'] = t['name']
        j = t['join']
        a['join'] = {'kind': 'none'} if j is None or j == 0 else \
            {'kind': 'all'} if j == 'all' else {'kind': 'count', 'n': 1 if j == 'one' else j}
        r = t['requires']
        a['requires'] = [r] if isinstance(r, str) else (r or [])
        tasks.append(a)
    return {'reverse': wf['type'] == 'reverse', 'tasks': tasks, 'defaults': defaults}


def gen_action(rng):
    a = {'base': rng.choice(['std.echo', 'std.echo output="a"', 'std.http', 'std.echo output=<% $.x %>', 'std.noop'])}
    if rng.random() < 0.4:
        a['base-input'] = {'output': rng.choice(GOOD_EXPR + ['lit', 1, {'a': '<% $.b %>'}])}
    if rng.random() < 0.5:
        a['input'] = rng.choice([['a'], ['a', {'b': 1}], [{'c': 'x'}], ['x', 'y', {'z': None}]])
    if rng.random() < 0.4:
        a['output'] = rng.choice(GOOD_EXPR + ['lit', 1, None, {'k': '<% $ %>'}, [1, 2]])
    if rng.random() < 0.2:
        a['description'] = 'an action'
    if rng.random() < 0.2:
        a['tags'] = ['t1', 't2']
    return a


WF_NAMES = ['wf', 'wf1', 'wf2', 'main', 'sub_wf', 'flow_a', 'Flow_B', 'w3', 'proc', 'wf_x']
ACT_NAMES = ['act', 'act1', 'a2', 'concat', 'my_action', 'greet']


def gen_wf_list(rng, k=None):
    k = k or rng.choice([1, 1, 2, 3])
    names = rng.sample(WF_NAMES, k)
    wfs = [gen_wf(rng, n) for n in names]
    d = {'version': rng.choice(['2.0', '2.0', 2.0, 2])}
    for w in wfs:
        d[w['name']] = render_wf(w)
    return {'kind': 'wf', 'dict': d, 'abstract': wfs}


def gen_action_list(rng):
    k = rng.choice([1, 2, 3])
    d = {'version': '2.0'}
    for n in rng.sample(ACT_NAMES, k):
        d[n] = gen_action(rng)
    return {'kind': 'act', 'dict': d}


def gen_workbook(rng, clash=False):
    d = {'version': rng.choice(['2.0', 2.0]), 'name': rng.choice(['wb', 'my_wb', 'book1'])}
    if rng.random() < 0.3:
        d['description'] = 'a workbook'
    if rng.random() < 0.3:
        d['tags'] = ['x', 'y']
    secs = rng.choice([('workflows',), ('workflows', 'actions'), ('actions', 'workflows'), ('actions',),
                       ('workflows', 'actions')])
    abstract = []
    for s in secs:
        if s == 'workflows':
            k = rng.choice([1, 2, 3])
            names = rng.sample(WF_NAMES, k)
            wfs = [gen_wf(rng, n) for n in names]
            if clash and len(wfs) > 1:
                # candidate defect I: a task of an earlier workflow named like a later workflow
                wfs[0]['tasks'][0]['name'] = names[-1]
                for t in wfs[0]['tasks'][1:]:
                    if t['name'] == names[-1]:
                        t['name'] = names[-1] + '_'
            abstract = wfs
            d['workflows'] = {w['name']: render_wf(w) for w in wfs}
            if rng.random() < 0.15:
                d['workflows']['version'] = '2.0'
        else:
            k = rng.choice([1, 2])
            d['actions'] = {n: gen_action(rng) for n in rng.sample(ACT_NAMES, k)}
    return {'kind': 'wb', 'dict': d, 'abstract': abstract}


# ------------------------------------------------------------------ text rendering
class _Dumper(yaml.SafeDumper):
    def ignore_aliases(self, data):
        return True


def dump(d, rng=None, style=None):
    style = style or (rng.choice(['block', 'block', 'block', 'indent4', 'header', 'flowish']) if rng else 'block')
    kw = dict(sort_keys=False, allow_unicode=True, Dumper=_Dumper, width=1000)
    if style == 'indent4':
        return yaml.dump(d, default_flow_style=False, indent=4, **kw)
    if style == 'header':
        return '---\n' + yaml.dump(d, default_flow_style=False, **kw)
    if style == 'flowish':
        return yaml.dump(d, default_flow_style=None, **kw)
    if style == 'flow':
        return yaml.dump(d, default_flow_style=True, **kw)
    return yaml.dump(d, default_flow_style=False, **kw)


def decorate(text, rng):
    """Comments / blank lines sprinkled into block YAML (layout only: same document)."""
    out = []
    for line in text.split('\n'):
        r = rng.random()
        if line.strip() and not line.lstrip().startswith('- ') and r < 0.08:
            ind = len(line) - len(line.lstrip())
            out.append(' ' * rng.choice([0, ind, ind + 2]) + '# a comment: with colon')
        elif r < 0.12:
            out.append('')
        out.append(line)
    return '\n'.join(out)


# ------------------------------------------------------------------ bundled corpus
def bundled(repo):
    """(relpath, text) of every definition-looking YAML document shipped in the repository."""
    res = []
    pats = ['mistral/tests/resources/**/*.yaml', 'mistral/resources/**/*.yaml', 'rally-jobs/extra/**/*.yaml',
            'doc/**/*.yaml', 'api-ref/**/*.yaml']
    for p in pats:
        for f in sorted(glob.glob(os.path.join(repo, p), recursive=True)):
            try:
                with open(f) as fh:
                    res.append((os.path.relpath(f, repo), fh.read()))
            except (OSError, UnicodeDecodeError):
                pass
    # literal YAML blocks of the documentation
    for f in sorted(glob.glob(os.path.join(repo, 'doc/source/**/*.rst'), recursive=True)):
        try:
            with open(f) as fh:
                lines = fh.read().split('\n')
        except (OSError, UnicodeDecodeError):
            continue
        i = 0
        n = 0
        while i < len(lines):
            if re.match(r'^(\s*)---\s*$', lines[i]):
                ind = len(lines[i]) - len(lines[i].lstrip())
                j = i + 1
                blk = []
                while j < len(lines) and (not lines[j].strip() or len(lines[j]) - len(lines[j].lstrip()) >= ind) \
                        and (ind > 0 or lines[j].strip()):
                    blk.append(lines[j][ind:])
                    j += 1
                text = '\n'.join(blk).rstrip() + '\n'
                if re.search(r"^version:\s*['\"]?2", text, re.M):
                    res.append(('%s#%d' % (os.path.relpath(f, repo), n), '---\n' + text))
                    n += 1
                i = j
            else:
                i += 1
    return res


# ------------------------------------------------------------------ mutation
WRONG = [None, True, False, 0, 1, -1, 2 ** 70, -2 ** 70, 1.5, float('inf'), float('nan'), '', ' ', 'str', 'a b',
         [], [1], ['a', 'a'], [None], [[]], [{}], {}, {'a': None}, {'a': {}}, {1: 2}, {None: 1}, {True: 'x'},
         {'a-b': 1}, {'a b': 'c'}, {'': 1}, datetime.date(2001, 1, 1), datetime.datetime(2001, 1, 1, 1, 1, 1),
         b'bytes', 'x' * 70000, ['a'] * 3, {'next': 't1'}, {'next': None}, {'next': [], 'publish': {}},
         {'publish': {'branch': None}}, {'count': 1}, {'delay': 1}, {'count': -1, 'delay': 'x'}, 'count=x',
         'i in', 'i in []', 'i in [', 'in <% $ %>', 'x in [1,', 'all', 'one', -5, 'std.echo output=', 'a b=1 c',
         'std.echo output="<% $. %>"', 'fail msg=<% $. %>', 't1 t2', 'fail(msg=)', '<% $ %>x', 2.0, '2.0', '3.0',
         'reverse', 'direct', 'other']

EXTRA_KEYS = ['extra', 'foo-bar', 'requires', 'join', 'workflow', 'action', 'on-success', 'type', 'name', 'version',
              'tasks', 'task-defaults', 'input', 'output', 'base', 'base-input', 'publish', 'retry', 'with-items',
              'concurrency', 'next', 'global', 'branch', 'atomic', 'count', 'delay', 'break-on', 'workflows',
              'actions', 'description', 'tags', 'vars', 'keep-result', 'safe-rerun', 'target', 'timeout',
              'pause-before', 'wait-before', 'wait-after', 'fail-on', 'on-skip', 'publish-on-skip', 1, None, True,
              1.5, '\u00e9', 'a.b', '']


def paths(d, pre=()):
    """All paths (tuples of keys / indices) into a nested dict/list structure."""
    out = [pre]
    if isinstance(d, dict):
        for k, v in d.items():
            out += paths(v, pre + (k,))
    elif isinstance(d, list):
        for i, v in enumerate(d):
            out += paths(v, pre + (i,))
    return out


def get_at(d, p):
    for k in p:
        d = d[k]
    return d


def set_at(d, p, v):
    if not p:
        return v
    get_at(d, p[:-1])[p[-1]] = v
    return d


def del_at(d, p):
    parent = get_at(d, p[:-1])
    if isinstance(parent, dict):
        del parent[p[-1]]
    else:
        parent.pop(p[-1])


def rename_at(d, p, new):
    parent = get_at(d, p[:-1])
    if not isinstance(parent, dict):
        return False
    items = list(parent.items())
    parent.clear()
    for k, v in items:
        parent[new if k == p[-1] else k] = v
    return True


def kind_of_path(p):
    """Coarse class of a path for the distribution: last string key."""
    for k in reversed(p):
        if isinstance(k, str):
            return k if len(k) < 24 else 'long'
    return 'root'


def vclass(v):
    if isinstance(v, str):
        if any(m in v for m in ('<%', '%>', '{{', '{%')):
            return 'expr'
        return 'str'
    return type(v).__name__


STRUCT_OPS = ['wrong', 'wrong', 'wrong', 'wrong', 'delete', 'extra', 'extra', 'rename-odd', 'rename-key',
              'badexpr', 'badexpr', 'wrap', 'swap', 'oddname', 'dup-subtree', 'embed-expr']


def mutate_struct(d, rng, op=None):
    """One structure-aware mutation of a copy of `d`.  -> (mutant, description dict)."""
    d = copy.deepcopy(d)
    op = op or rng.choice(STRUCT_OPS)
    ps = paths(d)
    nonroot = [p for p in ps if p]
    if not nonroot:
        return rng.choice(WRONG), {'op': 'wrong', 'at': 'root', 'v': 'root'}
    p = rng.choice(nonroot)
    desc = {'op': op, 'at': kind_of_path(p), 'depth': len(p)}
    if op == 'wrong':
        v = copy.deepcopy(rng.choice(WRONG))
        desc['v'] = vclass(v)
        d = set_at(d, p, v)
    elif op == 'delete':
        del_at(d, p)
    elif op == 'extra':
        dicts = [q for q in ps if isinstance(get_at(d, q), dict)]
        q = rng.choice(dicts)
        k = rng.choice(EXTRA_KEYS)
        v = copy.deepcopy(rng.choice(WRONG + GOOD_EXPR + ['std.noop', 't1']))
        desc.update(at=kind_of_path(q), key=str(k)[:12], v=vclass(v))
        get_at(d, q)[k] = v
    elif op in ('rename-odd', 'oddname'):
        keyp = [q for q in nonroot if isinstance(get_at(d, q[:-1]), dict)]
        if op == 'oddname':      # prefer names (children of tasks/workflows/actions/top level)
            pref = [q for q in keyp if len(q) == 1 or q[-2] in ('tasks', 'workflows', 'actions')]
            keyp = pref or keyp
        q = rng.choice(keyp)
        new = rng.choice(ODD_NAMES + [1, None, True, 2.5])
        desc.update(at=kind_of_path(q[:-1]) if len(q) > 1 else 'root', key=str(new)[:12])
        rename_at(d, q, new)
    elif op == 'rename-key':
        keyp = [q for q in nonroot if isinstance(get_at(d, q[:-1]), dict)]
        q = rng.choice(keyp)
        new = rng.choice([k for k in EXTRA_KEYS if isinstance(k, str)])
        desc.update(key=new)
        rename_at(d, q, new)
    elif op == 'badexpr':
        strs = [q for q in nonroot if isinstance(get_at(d, q), str)]
        q = rng.choice(strs) if strs and rng.random() < 0.8 else p
        e = rng.choice(BAD_EXPR)
        old = get_at(d, q)
        if isinstance(old, str) and rng.random() < 0.3 and ('=' in old or ' in ' in old):
            # keep the command / with-items prefix, break the expression part
            head = old.split('=')[0] + '=' if '=' in old else old.split(' in ')[0] + ' in '
            e = head + e
        desc.update(at=kind_of_path(q))
        d = set_at(d, q, e)
    elif op == 'embed-expr':
        q = rng.choice(nonroot)
        d = set_at(d, q, rng.choice(['pre ', '']) + rng.choice(GOOD_EXPR + BAD_EXPR) + rng.choice(['', ' post', ' ' + rng.choice(GOOD_EXPR)]))
        desc.update(at=kind_of_path(q))
    elif op == 'wrap':
        v = get_at(d, p)
        w = rng.choice(['list', 'dict', 'str', 'listlist', 'unwrap'])
        desc['v'] = w
        if w == 'list':
            nv = [v]
        elif w == 'dict':
            nv = {'k': v}
        elif w == 'str':
            nv = str(v)
        elif w == 'listlist':
            nv = [[v]]
        else:
            nv = (list(v.values())[0] if isinstance(v, dict) and v else v[0] if isinstance(v, list) and v else v)
        d = set_at(d, p, nv)
    elif op == 'swap':
        q = rng.choice(nonroot)
        a, b = copy.deepcopy(get_at(d, p)), copy.deepcopy(get_at(d, q))
        try:
            d = set_at(d, p, b)
            d = set_at(d, q, a)
        except (KeyError, IndexError, TypeError):
            pass
    elif op == 'dup-subtree':
        q = rng.choice(nonroot)
        try:
            d = set_at(d, q, copy.deepcopy(get_at(d, p)))
        except (KeyError, IndexError, TypeError):
            pass
    return d, desc


def _deep(n, open_, close_):
    return open_ * n + close_ * n


TEXT_DOCS = [
    ('empty', ''), ('blank', '\n\n'), ('comment-only', '# nothing\n'), ('null', '~\n'), ('null2', 'null'),
    ('scalar-version', 'version'), ('scalar-num', '2.0'), ('scalar-str', 'just a string with version inside'),
    ('list-top', "- version: '2.0'\n- wf: {}\n"), ('list-empty', '[]'), ('dict-empty', '{}'), ('int-top', '42'),
    ('bool-top', 'true'), ('only-version', "version: '2.0'\n"), ('version-list', 'version: [2.0]\nwf: {tasks: {t: {}}}\n'),
    ('version-dict', 'version: {a: 1}\nwf:\n  tasks:\n    t1: {action: std.noop}\n'),
    ('version-null', 'version: ~\nwf:\n  tasks:\n    t1: {action: std.noop}\n'),
    ('version-zero', 'version: 0\nwf:\n  tasks:\n    t1: {action: std.noop}\n'),
    ('version-neg', 'version: -2.0\nwf:\n  tasks:\n    t1: {action: std.noop}\n'),
    ('version-nan', 'version: .nan\nwf:\n  tasks:\n    t1: {action: std.noop}\n'),
    ('version-inf', 'version: .inf\nwf:\n  tasks:\n    t1: {action: std.noop}\n'),
    ('version-bool', 'version: true\nwf:\n  tasks:\n    t1: {action: std.noop}\n'),
    ('version-huge', 'version: ' + '9' * 400 + '\nwf:\n  tasks:\n    t1: {action: std.noop}\n'),
    ('version-2', "version: '2'\nwf:\n  tasks:\n    t1: {action: std.noop}\n"),
    ('version-2.00', "version: '2.00'\nwf:\n  tasks:\n    t1: {action: std.noop}\n"),
    ('version-sp', "version: ' 2.0 '\nwf:\n  tasks:\n    t1: {action: std.noop}\n"),
    ('version-1e', "version: '20e-1'\nwf:\n  tasks:\n    t1: {action: std.noop}\n"),
    ('multi-doc', "---\nversion: '2.0'\nwf:\n  tasks:\n    t1: {action: std.noop}\n---\nversion: '2.0'\n"),
    ('doc-end', "version: '2.0'\n...\nwf: 1\n"),
    ('tab-indent', "version: '2.0'\nwf:\n\ttasks:\n\t\tt1: {action: std.noop}\n"),
    ('anchor-alias', "version: '2.0'\nwf:\n  tasks:\n    t1: &a {action: std.noop}\n    t2: *a\n"),
    ('anchor-key', "version: '2.0'\n&k wf:\n  tasks:\n    t1: {action: std.noop}\n"),
    ('alias-value', "version: '2.0'\nwf:\n  input: [*x]\n  tasks:\n    t1: {action: std.noop}\n"),
    ('merge-key', "version: '2.0'\nwf:\n  tasks:\n    t1:\n      <<: {action: std.noop}\n"),
    ('merge-key-list', "version: '2.0'\nwf:\n  tasks:\n    t1:\n      <<: [{action: std.noop}, {timeout: 1}]\n"),
    ('merge-key-bad', "version: '2.0'\nwf:\n  tasks:\n    t1:\n      <<: 5\n"),
    ('billion-laughs', "a: &a [x,x,x,x,x,x,x,x,x]\nb: &b [*a,*a,*a,*a,*a,*a,*a,*a,*a]\nc: &c [*b,*b,*b,*b,*b,*b,*b,*b,*b]\n"
                       "d: &d [*c,*c,*c,*c,*c,*c,*c,*c,*c]\ne: &e [*d,*d,*d,*d,*d,*d,*d,*d,*d]\nversion: '2.0'\n"),
    ('dup-keys', "version: '2.0'\nwf:\n  tasks:\n    t1: {action: std.noop}\n    t1: {action: std.fail}\nwf:\n  tasks: {}\n"),
    ('dup-version', "version: '1.0'\nversion: '2.0'\nwf:\n  tasks:\n    t1: {action: std.noop}\n"),
    ('py-tag', "version: '2.0'\nwf: !!python/object/apply:os.system ['true']\n"),
    ('py-name', "version: !!python/name:os.system ''\n"),
    ('binary-tag', "version: '2.0'\nwf:\n  tasks:\n    t1:\n      action: !!binary aGVsbG8=\n"),
    ('set-tag', "version: '2.0'\nwf:\n  tasks: !!set {t1, t2}\n"),
    ('omap-tag', "version: '2.0'\nwf:\n  tasks: !!omap [t1: {action: std.noop}]\n"),
    ('pairs-tag', "version: '2.0'\nwf: !!pairs [tasks: 1]\n"),
    ('complex-key', "version: '2.0'\n? [a, b]\n: {tasks: {t1: {action: std.noop}}}\n"),
    ('dict-key', "version: '2.0'\n? {a: b}\n: 1\n"),
    ('int-wf-name', "version: '2.0'\n1:\n  tasks:\n    t1: {action: std.noop}\n"),
    ('bool-wf-name', "version: '2.0'\nyes:\n  tasks:\n    t1: {action: std.noop}\n"),
    ('null-wf-name', "version: '2.0'\n~:\n  tasks:\n    t1: {action: std.noop}\n"),
    ('date-wf-name', "version: '2.0'\n2001-01-01:\n  tasks:\n    t1: {action: std.noop}\n"),
    ('float-wf-name', "version: '2.0'\n1.5:\n  tasks:\n    t1: {action: std.noop}\n"),
    ('int-task-name', "version: '2.0'\nwf:\n  tasks:\n    1: {action: std.noop}\n"),
    ('bool-task-name', "version: '2.0'\nwf:\n  tasks:\n    on: {action: std.noop}\n    t2: {action: std.noop, on-success: [true]}\n"),
    ('null-task-name', "version: '2.0'\nwf:\n  tasks:\n    ~: {action: std.noop}\n"),
    ('int-input-key', "version: '2.0'\nwf:\n  input:\n    - 1: 2\n  tasks:\n    t1: {action: std.noop}\n"),
    ('int-publish-key', "version: '2.0'\nwf:\n  tasks:\n    t1:\n      action: std.noop\n      publish: {1: <% $ %>}\n"),
    ('int-task-key', "version: '2.0'\nwf:\n  tasks:\n    t1: {action: std.noop, 1: 2}\n"),
    ('dash-task-str', "version: '2.0'\nwf:\n  tasks:\n    my-task: foo\n"),
    ('dash-task-list', "version: '2.0'\nwf:\n  tasks:\n    t1: {action: std.noop}\n    my.task: [1]\n"),
    ('dash-task-null', "version: '2.0'\nwf:\n  tasks:\n    t1: {action: std.noop}\n    'a b': ~\n"),
    ('dash-wf', "version: '2.0'\nmy-wf: 5\n"),
    ('dash-wf-dict', "version: '2.0'\nmy-wf:\n  tasks:\n    t1: {action: std.noop}\n"),
    ('expr-input-inline', "version: '2.0'\nwf:\n  tasks:\n    t1:\n      action: std.echo output=1\n      input: <% $.x %>\n"),
    ('expr-input-wf-inline', "version: '2.0'\nwf:\n  tasks:\n    t1:\n      workflow: sub a=1\n      input: <% $.x %>\n"),
    ('action-space-only', "version: '2.0'\nwf:\n  tasks:\n    t1:\n      action: ' '\n"),
    ('action-space-cmd', "version: '2.0'\nwf:\n  tasks:\n    t1:\n      action: '= ='\n"),
    ('action-quote', "version: '2.0'\nwf:\n  tasks:\n    t1:\n      action: '\" a=1'\n"),
    ('retry-oneline-empty', "version: '2.0'\nwf:\n  tasks:\n    t1:\n      action: std.noop\n      retry: nothing here\n"),
    ('retry-oneline-nodelay', "version: '2.0'\nwf:\n  tasks:\n    t1:\n      action: std.noop\n      retry: count=3\n"),
    ('retry-oneline-word', "version: '2.0'\nwf:\n  tasks:\n    t1:\n      action: std.noop\n      retry: word\n"),
    ('retry-defaults-oneline', "version: '2.0'\nwf:\n  task-defaults:\n    retry: count=3\n  tasks:\n    t1: {action: std.noop}\n"),
    ('retry-list', "version: '2.0'\nwf:\n  tasks:\n    t1:\n      action: std.noop\n      retry: [1]\n"),
    ('join-str-num', "version: '2.0'\nwf:\n  tasks:\n    t0: {on-success: [t1]}\n    t1:\n      join: '2'\n"),
    ('join-float', "version: '2.0'\nwf:\n  tasks:\n    t0: {on-success: [t1]}\n    t1:\n      join: 1.0\n"),
    ('join-true', "version: '2.0'\nwf:\n  tasks:\n    t0: {on-success: [t1]}\n    t1:\n      join: true\n"),
    ('join-huge', "version: '2.0'\nwf:\n  tasks:\n    t0: {on-success: [t1]}\n    t1:\n      join: 99999999999999999999999\n"),
    ('with-items-nest', "version: '2.0'\nwf:\n  tasks:\n    t1:\n      with-items: i in [[[[[[[[[[[[[[[[[[[[1]]]]]]]]]]]]]]]]]]]]\n      action: std.noop\n"),
    ('with-items-redos', "version: '2.0'\nwf:\n  tasks:\n    t1:\n      with-items: '" + ' ' * 300 + "i" + ' ' * 300 + "x'\n      action: std.noop\n"),
    ('action-redos', "version: '2.0'\nwf:\n  tasks:\n    t1:\n      action: 'std.echo " + 'a=' * 300 + "'\n"),
    ('action-redos2', "version: '2.0'\nwf:\n  tasks:\n    t1:\n      action: 'std.echo output=" + '"' + 'a' * 1500 + "'\n"),
    ('action-redos3', "version: '2.0'\nwf:\n  tasks:\n    t1:\n      action: 'std.echo output=" + '[' * 300 + "'\n"),
    ('action-redos4', "version: '2.0'\nwf:\n  tasks:\n    t1:\n      action: 'std.echo x=<% " + '<% ' * 200 + "'\n"),
    ('next-redos', "version: '2.0'\nwf:\n  tasks:\n    t1:\n      on-success: 'fail msg=" + '<% ' * 200 + "'\n"),
    ('expr-many', "version: '2.0'\nwf:\n  tasks:\n    t1:\n      action: std.noop\n      publish:\n        a: '" + '<% 1 %>' * 400 + "'\n"),
    ('expr-deep-paren', "version: '2.0'\nwf:\n  tasks:\n    t1:\n      action: std.noop\n      publish:\n        a: '<% " + '(' * 400 + '1' + ')' * 400 + " %>'\n"),
    ('expr-deep-paren-big', "version: '2.0'\nwf:\n  tasks:\n    t1:\n      action: std.noop\n      publish:\n        a: '<% " + '(' * 5000 + '1' + ')' * 5000 + " %>'\n"),
    ('jinja-deep', "version: '2.0'\nwf:\n  tasks:\n    t1:\n      action: std.noop\n      publish:\n        a: '{{ " + '(' * 600 + '1' + ')' * 600 + " }}'\n"),
    ('jinja-long-or', "version: '2.0'\nwf:\n  tasks:\n    t1:\n      action: std.noop\n      publish:\n        a: '{{ " + ' or '.join(['_.a'] * 3000) + " }}'\n"),
    ('yaql-long-or', "version: '2.0'\nwf:\n  tasks:\n    t1:\n      action: std.noop\n      publish:\n        a: '<% " + ' or '.join(['$.a'] * 3000) + " %>'\n"),
    ('deep-flow-list', 'version: ' + _deep(400, '[', ']') + '\n'),
    ('deep-flow-list-big', "version: '2.0'\nwf: " + _deep(3000, '[', ']') + '\n'),
    ('deep-flow-map', "version: '2.0'\nwf: " + '{a: ' * 500 + '1' + '}' * 500 + '\n'),
    ('deep-block', "version: '2.0'\nwf:\n" + ''.join(' ' * (i + 1) + 'a:\n' for i in range(600)) + ' ' * 602 + 'b: 1\n'),
    ('deep-input', "version: '2.0'\nwf:\n  tasks:\n    t1:\n      action: std.echo\n      input:\n        output: " + _deep(200, '[', ']') + '\n'),
    ('deep-input-big', "version: '2.0'\nwf:\n  tasks:\n    t1:\n      action: std.echo\n      input:\n        output: " + '{a: ' * 300 + '1' + '}' * 300 + '\n'),
    ('huge-int', "version: '2.0'\nwf:\n  tasks:\n    t1:\n      action: std.noop\n      timeout: " + '9' * 5000 + '\n'),
    ('huge-int-wait', "version: '2.0'\nwf:\n  tasks:\n    t1:\n      action: std.noop\n      wait-before: " + '9' * 30 + '\n'),
    ('huge-int-join', "version: '2.0'\nwf:\n  tasks:\n    t0: {on-success: t1}\n    t1:\n      join: " + '9' * 4400 + '\n'),
    ('huge-int-input', "version: '2.0'\nwf:\n  tasks:\n    t1:\n      action: std.echo\n      input: {output: " + '9' * 4400 + '}\n'),
    ('float-timeout', "version: '2.0'\nwf:\n  tasks:\n    t1:\n      action: std.noop\n      timeout: 1.0\n"),
    ('inf-input', "version: '2.0'\nwf:\n  tasks:\n    t1:\n      action: std.echo\n      input: {output: .inf}\n"),
    ('nan-vars', "version: '2.0'\nwf:\n  vars: {v: .nan}\n  tasks:\n    t1: {action: std.noop}\n"),
    ('date-input', "version: '2.0'\nwf:\n  tasks:\n    t1:\n      action: std.echo\n      input: {output: 2001-12-14}\n"),
    ('datetime-vars', "version: '2.0'\nwf:\n  vars: {v: 2001-12-14t21:59:43.10-05:00}\n  tasks:\n    t1: {action: std.noop}\n"),
    ('date-output', "version: '2.0'\nwf:\n  output: {v: 2001-12-14}\n  tasks:\n    t1: {action: std.noop}\n"),
    ('date-tag', "version: '2.0'\nwf:\n  tags: [2001-12-14]\n  tasks:\n    t1: {action: std.noop}\n"),
    ('date-action-output', "version: '2.0'\nact:\n  base: std.echo\n  output: 2001-12-14\n"),
    ('date-action-input-default', "version: '2.0'\nact:\n  base: std.echo\n  input:\n    - a: 2001-12-14\n"),
    ('binary-input', "version: '2.0'\nwf:\n  tasks:\n    t1:\n      action: std.echo\n      input: {output: !!binary aGVsbG8=}\n"),
    ('set-input', "version: '2.0'\nwf:\n  tasks:\n    t1:\n      action: std.echo\n      input: {output: !!set {a, b}}\n"),
    ('nul-char', "version: '2.0'\nwf:\n  tasks:\n    t1: {action: \"std.noop\\0\"}\n"),
    ('raw-nul', "version: '2.0'\n\x00wf: 1\n"),
    ('bom', "\ufeffversion: '2.0'\nwf:\n  tasks:\n    t1: {action: std.noop}\n"),
    ('ctrl-char', "version: '2.0'\nwf:\n  description: \"a\\x07b\"\n  tasks:\n    t1: {action: std.noop}\n"),
    ('surrogate-esc', "version: '2.0'\nwf:\n  description: \"\\ud800\"\n  tasks:\n    t1: {action: std.noop}\n"),
    ('emoji', "version: '2.0'\nwf:\n  description: \"\U0001F600\"\n  tags: [\"\U0001F600\"]\n  tasks:\n    t1: {action: std.noop}\n"),
    ('crlf', "version: '2.0'\r\nwf:\r\n  tasks:\r\n    t1: {action: std.noop}\r\n"),
    ('unclosed', "version: '2.0'\nwf:\n  tasks: {t1: {action: std.noop}\n"),
    ('bad-indent', "version: '2.0'\nwf:\n  tasks:\n    t1:\n   action: std.noop\n"),
    ('uuid-name', "version: '2.0'\n12345678-1234-1234-1234-123456789abc:\n  tasks:\n    t1: {action: std.noop}\n"),
    ('uuid-name-nodash', "version: '2.0'\n'12345678123412341234123456789abc':\n  tasks:\n    t1: {action: std.noop}\n"),
    ('wb-str-wf', "version: '2.0'\nname: wb\nworkflows:\n  wf1: just a string\n"),
    ('wb-list-wf', "version: '2.0'\nname: wb\nworkflows:\n  wf1: [1, 2]\n"),
    ('wb-int-wf', "version: '2.0'\nname: wb\nworkflows:\n  wf1: 5\n"),
    ('wb-bool-act', "version: '2.0'\nname: wb\nactions:\n  a1: true\n"),
    ('wb-list-act', "version: '2.0'\nname: wb\nactions:\n  a1: [base, std.echo]\n"),
    ('wb-str-act', "version: '2.0'\nname: wb\nactions:\n  a1: std.echo\n"),
    ('wb-no-name', "version: '2.0'\nworkflows:\n  wf1:\n    tasks:\n      t1: {action: std.noop}\n"),
    ('wb-int-name', "version: '2.0'\nname: 5\nworkflows:\n  wf1:\n    tasks:\n      t1: {action: std.noop}\n"),
    ('wb-version-member', "version: '2.0'\nname: wb\nworkflows:\n  version: '2.0'\n"),
    ('wb-version-member-bad', "version: '2.0'\nname: wb\nworkflows:\n  version: '2.0'\n  wf1:\n    version: '3.0'\n    tasks:\n      t1: {action: std.noop}\n"),
    ('wb-wf-name-inner', "version: '2.0'\nname: wb\nworkflows:\n  wf1:\n    name: other\n    tasks:\n      t1: {action: std.noop}\n"),
    ('wb-flow-wf', "version: '2.0'\nname: wb\nworkflows:\n  wf1: {tasks: {t1: {action: std.noop}}}\n"),
    ('wb-flow-section', "version: '2.0'\nname: wb\nworkflows: {wf1: {tasks: {t1: {action: std.noop}}}}\n"),
    ('wb-quoted-wf', "version: '2.0'\nname: wb\nworkflows:\n  'wf1':\n    tasks:\n      t1: {action: std.noop}\n"),
    ('wb-comment-wf', "version: '2.0'\nname: wb\nworkflows:\n  wf1: # main flow\n    tasks:\n      t1: {action: std.noop}\n"),
    ('wb-space-colon', "version: '2.0'\nname: wb\nworkflows:\n  wf1 :\n    tasks:\n      t1: {action: std.noop}\n"),
    ('wb-section-space-colon', "version: '2.0'\nname: wb\nworkflows :\n  wf1:\n    tasks:\n      t1: {action: std.noop}\n"),
    ('wb-section-quoted', "version: '2.0'\nname: wb\n'actions':\n  a1:\n    base: std.noop\n"),
    ('wb-explicit-key', "version: '2.0'\nname: wb\nworkflows:\n  ? wf1\n  : tasks:\n      t1: {action: std.noop}\n"),
    ('nonstr-key-in-output', "version: '2.0'\nwf:\n  output:\n    o: {1: x, true: y}\n  tasks:\n    t1: {action: std.noop}\n"),
    ('nonstr-key-in-action-output', "version: '2.0'\nact:\n  base: std.echo\n  output: {1: 2}\n"),
    ('wb-desc-workflows', "version: '2.0'\nname: wb\ndescription: 'all my workflows: here'\nworkflows:\n  wf1:\n    tasks:\n      t1: {action: std.noop}\n"),
    ('wb-tag-workflows', "version: '2.0'\nname: wb\ntags: ['workflows:']\nworkflows:\n  wf1:\n    tasks:\n      t1: {action: std.noop}\n"),
    ('wb-name-workflows', "version: '2.0'\nname: my_workflows\ndescription: 'x'\nworkflows:\n  wf1:\n    tasks:\n      t1: {action: std.noop}\n"),
    ('wb-actions-in-wf', "version: '2.0'\nname: wb\nworkflows:\n  wf1:\n    tasks:\n      actions: {action: std.noop}\n      a1: {action: std.noop}\nactions:\n  a1:\n    base: std.echo\n"),
    ('wb-task-like-wf', "version: '2.0'\nname: wb\nworkflows:\n  wf1:\n    tasks:\n      wf2:\n        action: std.echo output=1\n  wf2:\n    tasks:\n      t1:\n        action: std.noop\n"),
    ('wb-task-like-action', "version: '2.0'\nname: wb\nactions:\n  a1:\n    base: std.echo\n    base-input:\n      a2: x\n      output: y\n  a2:\n    base: std.noop\n"),
    ('wb-block-scalar', "version: '2.0'\nname: wb\nworkflows:\n  wf1:\n    description: |\n      first line\n\n      # not a comment\n    tasks:\n      t1: {action: std.noop}\n  wf2:\n    tasks:\n      t1: {action: std.noop}\n"),
    ('wb-block-scalar-dedent', "version: '2.0'\nname: wb\nworkflows:\n  wf1:\n    tasks:\n      t1:\n        action: std.echo\n        input:\n          output: |\n            line1\n    # deep comment\n            line2\n  wf2:\n    tasks:\n      t1: {action: std.noop}\n"),
    ('wb-comment-low', "version: '2.0'\nname: wb\nworkflows:\n  wf1:\n    tasks:\n# zero-indent comment\n      t1: {action: std.noop}\n  wf2:\n    tasks:\n      t1: {action: std.noop}\n"),
    ('act-base-expr-bad', "version: '2.0'\nact:\n  base: std.echo output=<% $. %>\n"),
    ('act-output-bad', "version: '2.0'\nact:\n  base: std.echo\n  output: '{{ 1 + }}'\n"),
    ('act-base-input-str', "version: '2.0'\nact:\n  base: std.echo\n  base-input: <% $ %>\n"),
    ('act-input-dict', "version: '2.0'\nact:\n  base: std.echo\n  input: {a: 1}\n"),
    ('act-input-2key', "version: '2.0'\nact:\n  base: std.echo\n  input: [{a: 1, b: 2}]\n"),
    ('act-input-int', "version: '2.0'\nact:\n  base: std.echo\n  input: [1]\n"),
    ('act-base-space', "version: '2.0'\nact:\n  base: ' x'\n"),
    ('act-version', "version: '2.0'\nact:\n  version: '1.0'\n  base: std.echo\n"),
    ('act-name-inner', "version: '2.0'\nact:\n  name: zzz\n  base: std.echo\n"),
    ('wf-name-inner', "version: '2.0'\nwf:\n  name: zzz\n  version: 7\n  tasks:\n    t1: {action: std.noop, name: qqq, version: '9', type: reverse}\n"),
    ('wf-type-bad', "version: '2.0'\nwf:\n  type: parallel\n  tasks:\n    t1: {action: std.noop}\n"),
    ('wf-type-int', "version: '2.0'\nwf:\n  type: 1\n  tasks:\n    t1: {action: std.noop}\n"),
    ('wf-type-list', "version: '2.0'\nwf:\n  type: [direct]\n  tasks:\n    t1: {action: std.noop}\n"),
    ('wf-type-dict', "version: '2.0'\nwf:\n  type: {a: b}\n  tasks:\n    t1: {action: std.noop}\n"),
    ('task-type-mismatch', "version: '2.0'\nwf:\n  type: direct\n  tasks:\n    t1: {action: std.noop, type: reverse, requires: [t1]}\n"),
    ('tasks-list', "version: '2.0'\nwf:\n  tasks:\n    - t1: {action: std.noop}\n"),
    ('tasks-str', "version: '2.0'\nwf:\n  tasks: t1\n"),
    ('tasks-null', "version: '2.0'\nwf:\n  tasks: ~\n"),
    ('tasks-only-version', "version: '2.0'\nwf:\n  tasks:\n    version: {action: std.noop}\n"),
    ('task-version-target', "version: '2.0'\nwf:\n  tasks:\n    t1: {action: std.noop, on-success: [version]}\n    version: {action: std.noop}\n"),
    ('wf-version-name', "version: '2.0'\nwf:\n  tasks:\n    t1: {action: std.noop}\nVersion:\n  tasks:\n    t1: {action: std.noop}\n"),
    ('next-none', "version: '2.0'\nwf:\n  tasks:\n    t1:\n      action: std.noop\n      on-success:\n        next: ~\n        publish: {branch: {a: 1}}\n"),
    ('next-empty-str', "version: '2.0'\nwf:\n  tasks:\n    t1:\n      action: std.noop\n      on-success: ''\n"),
    ('next-space', "version: '2.0'\nwf:\n  tasks:\n    t1:\n      action: std.noop\n      on-success: 'fail msg=<% $. %>'\n"),
    ('next-int', "version: '2.0'\nwf:\n  tasks:\n    t1:\n      action: std.noop\n      on-success: [1]\n"),
    ('next-dict2', "version: '2.0'\nwf:\n  tasks:\n    t1:\n      action: std.noop\n      on-success: [{a: <% 1 %>, b: <% 2 %>}]\n    a: {}\n"),
    ('next-dict-int-key', "version: '2.0'\nwf:\n  tasks:\n    t1:\n      action: std.noop\n      on-success: [{1: <% 1 %>}]\n"),
    ('next-dict-null', "version: '2.0'\nwf:\n  tasks:\n    t1:\n      action: std.noop\n      on-success: [{t1: ~}]\n"),
    ('adv-empty-publish', "version: '2.0'\nwf:\n  tasks:\n    t1:\n      action: std.noop\n      on-success:\n        publish: {}\n"),
    ('adv-publish-nokeys', "version: '2.0'\nwf:\n  tasks:\n    t1:\n      action: std.noop\n      on-success:\n        publish: {branch: {}}\n"),
    ('adv-publish-badexpr', "version: '2.0'\nwf:\n  tasks:\n    t1:\n      action: std.noop\n      on-complete:\n        publish: {global: {a: '<% $. %>'}}\n"),
    ('adv-publish-str', "version: '2.0'\nwf:\n  tasks:\n    t1:\n      action: std.noop\n      on-success:\n        publish: hello\n        next: t1\n"),
    ('defaults-next-bad', "version: '2.0'\nwf:\n  task-defaults:\n    on-error: [{fail: '<% $. %>'}]\n  tasks:\n    t1: {action: std.noop}\n"),
    ('defaults-str', "version: '2.0'\nwf:\n  task-defaults: retry\n  tasks:\n    t1: {action: std.noop}\n"),
    ('defaults-dash-key', "version: '2.0'\nwf:\n  task-defaults: {a-b: 1}\n  tasks:\n    t1: {action: std.noop}\n"),
    ('defaults-requires-direct', "version: '2.0'\nwf:\n  task-defaults: {requires: [ghost]}\n  tasks:\n    t1: {action: std.noop}\n"),
    ('reverse-requires-int', "version: '2.0'\nwf:\n  type: reverse\n  tasks:\n    t1: {action: std.noop, requires: [1]}\n"),
    ('reverse-requires-self', "version: '2.0'\nwf:\n  type: reverse\n  tasks:\n    t1: {action: std.noop, requires: [t1]}\n"),
    ('reverse-on-success', "version: '2.0'\nwf:\n  type: reverse\n  tasks:\n    t1: {action: std.noop, on-success: [t1]}\n"),
    ('reverse-join', "version: '2.0'\nwf:\n  type: reverse\n  tasks:\n    t1: {action: std.noop, join: all}\n"),
    ('input-dup', "version: '2.0'\nwf:\n  input: [a, a]\n  tasks:\n    t1: {action: std.noop}\n"),
    ('input-dict-list', "version: '2.0'\nwf:\n  input: [{a: 1}, {a: 2}]\n  tasks:\n    t1: {action: std.noop}\n"),
    ('input-list-in-list', "version: '2.0'\nwf:\n  input: [[a]]\n  tasks:\n    t1: {action: std.noop}\n"),
    ('input-unhashable', "version: '2.0'\nwf:\n  input: [a, {b: {c: [1, {d: 2}]}}, {b: {c: [1, {d: 2}]}}]\n  tasks:\n    t1: {action: std.noop}\n"),
    ('tags-mixed', "version: '2.0'\nwf:\n  tags: [a, 1]\n  tasks:\n    t1: {action: std.noop}\n"),
    ('tags-true-1', "version: '2.0'\nwf:\n  input: [true, 1, 1.0, false, 0]\n  tasks:\n    t1: {action: std.noop}\n"),
]


def mutate_text(text, rng):
    """Text-level damage of a rendered document."""
    op = rng.choice(['truncate', 'dup-line', 'del-line', 'tabify', 'anchor', 'alias', 'merge', 'indent-shift',
                     'insert-junk', 'quote-break', 'dup-key', 'crlf', 'swap-lines', 'colon'])
    lines = text.split('\n')
    i = rng.randrange(len(lines)) if lines else 0
    if op == 'truncate':
        return text[:rng.randrange(len(text) + 1)], op
    if op == 'dup-line' or op == 'dup-key':
        lines.insert(i, lines[i])
    elif op == 'del-line':
        del lines[i]
    elif op == 'tabify':
        lines[i] = lines[i].replace('  ', '\t', 1)
    elif op == 'anchor':
        lines[i] = re.sub(r': ', ': &anc ', lines[i], count=1) if ': ' in lines[i] else lines[i] + ' &anc'
    elif op == 'alias':
        lines[i] = re.sub(r': .*', ': *anc', lines[i], count=1) if ': ' in lines[i] else lines[i] + ' *anc'
    elif op == 'merge':
        ind = len(lines[i]) - len(lines[i].lstrip())
        lines.insert(i, ' ' * ind + rng.choice(['<<: {extra: 1}', '<<: *x', '<<: [1]', '<<: {action: std.fail}']))
    elif op == 'indent-shift':
        lines[i] = rng.choice([' ', '  ', '']) + lines[i].lstrip() if rng.random() < 0.5 else ' ' + lines[i]
    elif op == 'insert-junk':
        junk = rng.choice(['\x00', '\x07', '\ufeff', '\u2028', '\x85', '%YAML 1.1', '--- !!map', '...', '? ', '- ',
                           '!!python/object:os.system {}', '@at', '`tick`', '%percent', '|', '>', '"', "'", '{', '[',
                           ']', '}', ',', '\t', '#', '!!', '!', '&', '*', ': ', '- - -'])
        pos = rng.randrange(len(lines[i]) + 1)
        lines[i] = lines[i][:pos] + junk + lines[i][pos:]
    elif op == 'quote-break':
        lines[i] = lines[i] + rng.choice(['"', "'", ' "unterminated', " 'x"])
    elif op == 'crlf':
        return '\r\n'.join(lines), op
    elif op == 'swap-lines' and len(lines) > 1:
        j = rng.randrange(len(lines))
        lines[i], lines[j] = lines[j], lines[i]
    elif op == 'colon':
        lines[i] = lines[i].replace(':', rng.choice([' :', '::', ':', '']), 1)
    return '\n'.join(lines), op


# ------------------------------------------------------------------ scaling probes
def _task_doc(field_line):
    return "version: '2.0'\nwf:\n  tasks:\n    t1:\n" + field_line


PROBE_FAMILIES = [
    # name, n -> text whose size grows linearly with n
    ('action-unterminated-quote', lambda n: _task_doc("      action: 'std.echo output=\"" + 'a' * n + "'\n")),
    ('action-many-params', lambda n: _task_doc("      action: 'std.echo " + 'a=1 ' * (n // 4) + "'\n")),
    ('action-open-brackets', lambda n: _task_doc("      action: 'std.echo output=" + '[' * n + "'\n")),
    ('action-open-yaql', lambda n: _task_doc("      action: 'std.echo x=" + '<% ' * (n // 3) + "'\n")),
    ('action-long-word', lambda n: _task_doc("      action: 'std." + 'e' * n + " x=1'\n")),
    ('next-open-yaql', lambda n: _task_doc("      action: std.noop\n      on-success: 'fail msg=" + '<% ' * (n // 3) + "'\n")),
    ('with-items-blanks', lambda n: _task_doc("      action: std.noop\n      with-items: '" + ' ' * (n // 2) + 'i' + ' ' * (n // 2) + "x'\n")),
    ('with-items-long-list', lambda n: _task_doc("      action: std.noop\n      with-items: 'i in [" + '1,' * (n // 2) + "1]'\n")),
    ('publish-many-expressions', lambda n: _task_doc("      action: std.noop\n      publish:\n        a: '" + '<% 1 %>' * (n // 7) + "'\n")),
    ('publish-long-literal', lambda n: _task_doc("      action: std.noop\n      publish:\n        a: '" + 'x' * n + "'\n")),
    ('publish-long-yaql-string', lambda n: _task_doc("      action: std.noop\n      publish:\n        a: '<% \"" + 'x' * n + "\" %>'\n")),
    ('publish-long-jinja-string', lambda n: _task_doc("      action: std.noop\n      publish:\n        a: '{{ \"" + 'x' * n + "\" }}'\n")),
    ('description-long', lambda n: "version: '2.0'\nwf:\n  description: '" + 'd' * n + "'\n  tasks:\n    t1: {action: std.noop}\n"),
    ('many-tasks', lambda n: "version: '2.0'\nwf:\n  tasks:\n" + ''.join('    t%d: {action: std.noop}\n' % i for i in range(max(1, n // 28)))),
    ('many-inputs', lambda n: "version: '2.0'\nwf:\n  input: [" + ', '.join('p%d' % i for i in range(max(1, n // 6))) + "]\n  tasks:\n    t1: {action: std.noop}\n"),
    ('yaml-long-comment', lambda n: "version: '2.0'\n#" + 'c' * n + "\nwf:\n  tasks:\n    t1: {action: std.noop}\n"),
    ('yaml-many-blank-lines', lambda n: "version: '2.0'\n" + '\n' * n + "wf:\n  tasks:\n    t1: {action: std.noop}\n"),
]
