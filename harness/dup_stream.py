"""C06 engine-side streams (shared engine harness, REAL engine).

Stream `dedup`      : one two-task workflow, random sequences of deliveries (first-run start request,
                      results of every kind, duplicates, heartbeat-checker passes, rerun start requests,
                      duplicated sub-workflow results) vs Mistral.Dedup.step (Lean driver `dedup.trace`);
                      sequences of start_workflow requests carrying ids vs `dedup.startAll`.
                      Mode `resume` of the same stream: the workflow is PAUSED while t1 is still IDLE with its
                      start_task(first_run=True) in flight and RESUMED (Workflow.resume re-queues
                      start_task(first_run=False, rerun=False) for the IDLE task); then the original request,
                      the re-queued request(s) and copies of them are delivered in random orders, between
                      results / checker passes / rerun_workflow requests, also after the task has failed
                      (repo fix 17f326b9).  Model vs real after every delivery; monitor = the statement: a
                      repeated start request (and the second of the two requests to start the IDLE task)
                      changes no row and sends nothing.
Stream `engine-dup` : generated programs; a duplicate-free run and a run of the same program/oracle/
                      schedule in which engine messages (on_action_complete, sub-workflow results,
                      start_task, start_workflow with an id, run_action requests redelivered to the executor)
                      are delivered again once or twice at later points, or a heartbeat-checker pass races
                      the genuine results.  Monitor (the statement read directly): every repeated delivery
                      leaves all committed rows unchanged and sends nothing; final rows equal the
                      duplicate-free run's.

Scheduling: post-commit operations and due scheduler jobs (join refresh) are run eagerly after every
delivery (as the post-commit thread and the scheduler would); the order of the MESSAGES (rpc messages,
run_action requests) is the random part.  With that, duplicate-free and duplicated runs follow the same
message schedule as long as every repeated delivery is a no-op, so their final rows can be compared
exactly.
"""
import copy
import json
import random
import re

from harness import engine_run as er
from harness import wfgen

ROOT_ID = 'c06c06c0-0000-4000-8000-00000000root'
HB_TEXT = "Heartbeat wasn't received."
COMPLETED = ('SUCCESS', 'ERROR', 'CANCELLED', 'SKIPPED')
ID_RE = re.compile(r'[0-9a-f]{8}-0000-4000-8000-[0-9a-f]{12}')


# ================================================================================ world helpers
_FAST = False


def fast_schema_check():
    """jsonschema.validate re-checks the (constant) DSL meta-schemas on every call, which dominates the
    run time of small workflows; check each distinct schema once per process.  Definition validation is
    not code under study for C06."""
    global _FAST
    if _FAST:
        return
    import jsonschema
    orig = jsonschema.validate
    seen = set()

    def validate(instance, schema, cls=None, *args, **kwargs):
        try:
            key = json.dumps(schema, sort_keys=True)
        except (TypeError, ValueError):
            return orig(instance, schema, cls, *args, **kwargs)
        if key not in seen:
            orig(instance, schema, cls, *args, **kwargs)
            seen.add(key)
            return
        c = cls or jsonschema.validators.validator_for(schema)
        err = jsonschema.exceptions.best_match(c(schema, *args, **kwargs).iter_errors(instance))
        if err is not None:
            raise err

    jsonschema.validate = validate
    _FAST = True


def is_internal(item):
    kind, x = item
    if kind == 'job':
        return not x.func_name.endswith('_check_and_fix_integrity')
    return x.kind == 'posttx'


_TASK_NAMES = {}      # task execution id -> (workflow execution id, task name), refreshed on demand


def _job_key(w, j):
    """Orders due scheduler jobs by WHAT they are about (function, workflow, task name) instead of by creation
    order: the engine registers the refresh jobs of several joins in the iteration order of a set of ORM
    objects, and that order decides real outcomes (a join whose refresh comes after the one that fails the
    workflow never starts) - the two runs of a pair must take the same order."""
    args = getattr(j, 'func_args', None) or {}
    tid = args.get('task_ex_id')
    fn = j.func_name.split('.')[-1]
    if tid is None:
        return (fn, '', str(j.key))
    if tid not in _TASK_NAMES:
        from mistral.db.v2 import api as db_api
        with db_api.transaction(read_only=True):
            for t in db_api.get_task_executions():
                _TASK_NAMES[t.id] = (w.id_ord.get(t.workflow_execution_id, 0), t.name)
    wf, name = _TASK_NAMES.get(tid, (0, '~' + str(tid)))
    return (fn, '%09d' % wf, name)


def drain_internal(w, limit=300):
    """run post-commit operations (first, in the order they were registered) and due jobs (by _job_key) until
    none is left"""
    n = 0
    while n < limit:
        items = [it for it in w.enabled() if is_internal(it)]
        if not items:
            return n
        post = [it for it in items if it[0] == 'p']
        if post:
            w.deliver(post[0])
        else:
            w.deliver(min(items, key=lambda it: _job_key(w, it[1])))
        n += 1
    raise RuntimeError('drain_internal: no fixpoint after %d internal deliveries' % limit)


def clear_named_locks():
    """EngineWorld._reset does not empty named_locks.  A 'continue-task-<id>' lock row leaks (is committed)
    whenever task.run() raises inside task_handler.continue_task; with sequential ids the next world in this
    process would reuse the name and its refresh job would fail on the unique key."""
    from mistral.db.v2 import api as db_api
    from mistral.db.sqlalchemy import base as b
    from mistral.db.v2.sqlalchemy import models
    with db_api.transaction():
        b.model_query(models.NamedLock).delete(synchronize_session=False)


def new_world(seed):
    from harness.engine_driver import EngineWorld
    fast_schema_check()
    _TASK_NAMES.clear()
    w = EngineWorld(seed=seed, id_mode='seq')
    clear_named_locks()
    return w


def drain_posttx(w, limit=300):
    """run post-commit operations only (no scheduler jobs)"""
    n = 0
    while n < limit:
        items = [it for it in w.enabled() if it[0] == 'p' and it[1].kind == 'posttx']
        if not items:
            return n
        w.deliver(items[0])
        n += 1
    raise RuntimeError('drain_posttx: no fixpoint')


def clause_check(before, after):
    """the statement's clauses on a row change made by re-evaluation jobs: no result replaced / accepted
    again, no second action execution for a (non with-items) task that already has one"""
    bad = []
    b = {a['id']: a for a in before['actions']}
    for a in after['actions']:
        o = b.get(a['id'])
        if o is not None and o['state'] in COMPLETED and (o['state'], o['output']) != (a['state'], a['output']):
            bad.append('second result accepted')
    per_b, per_a = {}, {}
    for a in before['actions']:
        per_b[a['task']] = per_b.get(a['task'], 0) + 1
    for a in after['actions']:
        per_a[a['task']] = per_a.get(a['task'], 0) + 1
    for t, n in per_a.items():
        if per_b.get(t, 0) >= 1 and n > per_b[t]:
            bad.append('action dispatched twice')
    return sorted(set(bad))


def messages(w):
    return [p for p in w.pending if p.kind in ('rpc', 'action')]


JOIN_MSG_RE = re.compile(r"(Failed|Blocked) by tasks: \[[^\]]*\]")


def _join_msg(v):
    if isinstance(v, str):
        return JOIN_MSG_RE.sub(lambda m: m.group(1) + ' by tasks: [..]', v)
    if isinstance(v, dict):
        return {k: _join_msg(x) for k, x in v.items()}
    return v


def rows(snap):
    """committed rows only (no jobs / pending).  Two things are left out because they differ between two
    duplicate-free runs of the same schedule: how many refresh jobs run, and which of them is the first to
    see a join failed, depends on the iteration order of a set of ORM objects
    (find_indirectly_affected_task_executions):
      * runtime_context.triggered_by of a JOIN task - a cache of the last _refresh_task_state evaluation
        ('Update triggered_by because it could have changed');
      * the task LIST inside 'Failed by tasks: [...]' / 'Blocked by tasks: [...]' (state_info of the join and
        of the workflow it fails, workflow output)."""
    tasks = []
    for t in snap['tasks']:
        if t.get('unique_key'):
            t = dict(t, state_info=_join_msg(t.get('state_info')))
            if isinstance(t.get('rt'), dict) and 'triggered_by' in t['rt']:
                t['rt'] = {k: v for k, v in t['rt'].items() if k != 'triggered_by'}
        tasks.append(t)
    wfs = [dict(w, state_info=_join_msg(w.get('state_info')), output=_join_msg(w.get('output'))) for w in snap['wfs']]
    return {'wfs': wfs, 'tasks': tasks, 'actions': snap['actions']}


def canon_ids(snap):
    """id -> canonical name built from the position in the run, not from creation order of unrelated rows
    (the engine iterates over sets of ORM objects, so e.g. two joins released by the same event start in an
    address-dependent order): W | W(<parent task>)#k, T(<wf>)/<name>#k, A(<task>)#k"""
    merged = sorted([(x.get('ord') or 0, 0, 'wf', x) for x in snap['wfs']] +
                    [(x['ord'], 1, 'task', x) for x in snap['tasks']] +
                    [(x['ord'], 2, 'action', x) for x in snap['actions']], key=lambda t: (t[0], t[1]))
    by_ord, canon, cnt = {}, {}, {}
    for o, _, kind, x in merged:
        if kind == 'wf':
            pre = 'W' if x.get('parent_task') is None else 'W(%s)' % by_ord.get(x['parent_task'], '?')
        elif kind == 'task':
            pre = 'T(%s)/%s' % (by_ord.get(x['wf'], '?'), x['name'])
        else:
            pre = 'A(%s)' % by_ord.get(x['task'], '?')
        k = cnt.get(pre, 0)
        cnt[pre] = k + 1
        c = pre if (kind == 'wf' and pre == 'W' and k == 0) else '%s#%d' % (pre, k)
        by_ord[o] = c
        canon[x['id']] = c
    return canon, by_ord


def canon_rows(snap):
    """rows with ids replaced by canonical names and sorted by them: comparable between runs"""
    r = copy.deepcopy(rows(snap))
    canon, by_ord = canon_ids(snap)

    def fix(v):
        if isinstance(v, str):
            if v in canon:
                return canon[v]
            return ID_RE.sub(lambda m: canon.get(m.group(0), 'ID?'), v)
        if isinstance(v, list):
            return [fix(x) for x in v]
        if isinstance(v, dict):
            # 'openstack' = security context of the request (random request id), not run data
            return {k: fix(x) for k, x in v.items() if k != 'openstack'}
        return v

    for k in ('wfs', 'tasks', 'actions'):
        for x in r[k]:
            for f in ('ord', 'wf', 'task', 'parent_task', 'root'):
                if f in x and x[f] is not None:
                    x[f] = by_ord.get(x[f], x[f])
            x.pop('last_heartbeat', None)
    out = fix(r)
    for k in ('wfs', 'tasks', 'actions'):
        out[k].sort(key=lambda x: str(x['id']))
    return out


def diff_class(before, after):
    """what a repeated delivery changed, as a small set of classes (for the finding signature)"""
    cls = set()
    if len(after['wfs']) != len(before['wfs']):
        cls.add('workflow-execution-added')
    if len(after['tasks']) != len(before['tasks']):
        cls.add('task-added')
    if len(after['actions']) != len(before['actions']):
        cls.add('action-added')
    b = {a['id']: a for a in before['actions']}
    for a in after['actions']:
        o = b.get(a['id'])
        if o is not None and o != a:
            if (o['state'], o['output']) != (a['state'], a['output']) or (a['accepted'] and not o['accepted']):
                cls.add('action-result-changed')
            else:
                cls.add('action-row-changed')
    b = {t['id']: t for t in before['tasks']}
    for t in after['tasks']:
        o = b.get(t['id'])
        if o is not None and o != t:
            cls.add('task-state-changed' if o['state'] != t['state'] else 'task-row-changed')
    b = {x['id']: x for x in before['wfs']}
    for x in after['wfs']:
        o = b.get(x['id'])
        if o is not None and o != x:
            cls.add('workflow-state-changed' if o['state'] != x['state'] else 'workflow-row-changed')
    return sorted(cls)


def copy_pending(p):
    from harness.engine_driver import Pending
    return Pending(p.kind, p.data, p.ctx, -1, p.origin)


def describe_msg(w, p):
    if p.kind == 'action':
        return {'kind': 'run_action', 'action': w.id_ord.get(p.data['action_ex_id'])}
    kw = p.data['kwargs']
    d = {'kind': p.data['method']}
    for k in ('first_run', 'rerun', 'reset', 'wf_action'):
        if k in kw:
            d[k] = kw[k]
    for k in ('task_ex_id', 'action_ex_id'):
        if k in kw:
            d[k] = w.id_ord.get(kw[k], kw[k])
    return d


def expected_rejection(e):
    """the documented mechanisms by which a repeated delivery is refused"""
    if e['type'] == 'ValueError' and 'already completed' in e['msg']:
        return 'ValueError-already-completed'
    if e['type'] == 'MistralError' and 'Rerunning succeeded tasks' in e['msg']:
        return 'MistralError-rerun-succeeded'
    return None


def run_checker(w):
    from mistral.services import action_heartbeat_checker
    w.log.append(['heartbeat-checker'])
    w.current_origin = ('hb', None)
    w._call('hb-checker', action_heartbeat_checker.handle_expired_actions)


def deliver_with_stale_read(w, p):
    """The repeated first_run start request is handled by a second engine process that READ the task row before
    the first one committed: the row it holds says IDLE while the database says otherwise.  This is the
    interleaving the compare-and-swap in Task.set_state exists for (update_on_match on the state read)."""
    from mistral.db.v2 import api as db_api
    from sqlalchemy.orm import attributes
    tid = p.data['kwargs']['task_ex_id']
    orig = db_api.get_task_execution
    done = []

    def stale(id, *a, **kw):
        t = orig(id, *a, **kw)
        if id == tid and not done:
            done.append(1)
            attributes.set_committed_value(t, 'state', 'IDLE')
        return t

    db_api.get_task_execution = stale
    try:
        w._deliver_rpc(p)
    finally:
        db_api.get_task_execution = orig


def signature(msg, cls, new_msgs, before=None):
    """finding signature of a repeated delivery that was not a no-op"""
    if msg['kind'] == 'start_task' and msg.get('first_run') is False and (
            'action-added' in cls or 'run_action' in new_msgs or 'workflow-execution-added' in cls):
        st = None
        for t in (before or {}).get('tasks', []):
            if t['ord'] == msg.get('task_ex_id'):
                st = t['state']
        # known for a task that is RUNNING (restarted, action in flight; fixed by 258aaaae) or ERROR (failed
        # again) when the request is an EXPLICIT rerun (rerun=True, rerun_workflow).  A request that is not
        # an explicit rerun (rerun=False: re-queued on resume) must never do that (17f326b9): other signature.
        sig = {'kind': 'dup-start-task-existing-reschedules', 'task_state': st}
        if msg.get('rerun') is False:
            sig['rerun'] = False
        return sig
    if msg['kind'] == 'on_action_complete' and 'task-state-changed' in cls and before:
        # the repeated result belongs to a task that completed on the first delivery and was RE-OPENED since (a join
        # put back to WAITING by Task.defer because an upstream task was rerun): the stale result completes the
        # WAITING task without running it
        tid = None
        for w in before.get('wfs', []):
            if msg.get('wf_action') and w['ord'] == msg.get('action_ex_id'):
                tid = w.get('parent_task')
        for a in before.get('actions', []):
            if not msg.get('wf_action') and a['ord'] == msg.get('action_ex_id'):
                tid = a.get('task')
        st = [t['state'] for t in before.get('tasks', []) if t['ord'] == tid]
        if st and st[0] == 'WAITING':
            return {'kind': 'stale-result-completes-reopened-join', 'wf_action': bool(msg.get('wf_action'))}
    return {'kind': 'dup-not-noop', 'message': msg['kind'], 'stale_read': bool(msg.get('stale_read')),
            'first_run': msg.get('first_run'), 'wf_action': msg.get('wf_action'),
            'changed': cls, 'sent': sorted(set(new_msgs))}


# ================================================================================ stream engine-dup
def sanitize(prog):
    """joins 'all' only (partial joins are a recorded defect of C03/C04)"""
    for t in prog['tasks']:
        if t.get('join') is not None:
            t['join'] = 'all'
    return prog


def gen_case(rng):
    prog = sanitize(wfgen.gen_program(rng, n_tasks=rng.randint(2, 7), p_cmd=0.03))
    defs = [prog]
    mode = rng.choice(['dup', 'dup', 'dup', 'dup', 'hb', 'rerun', 'rerun', 'redeliver'])
    if rng.random() < 0.3:
        sub = sanitize(wfgen.gen_program(rng, n_tasks=rng.randint(1, 3), p_cmd=0.0, p_defaults=0.0))
        sub['name'] = 'sub'
        ren = {t['name']: 's' + t['name'][1:] for t in sub['tasks']}
        for t in sub['tasks']:
            t['name'] = ren[t['name']]
            for cl in ('on_success', 'on_error', 'on_complete'):
                for r in t[cl]:
                    r['to'] = ren.get(r['to'], r['to'])
        for t in rng.sample(prog['tasks'], min(len(prog['tasks']), rng.randint(1, 2))):
            t['action'] = ['wf', 'sub']
        defs = [sub, prog]
    if mode == 'redeliver':
        for t in prog['tasks']:
            if t['action'][0] != 'wf' and rng.random() < 0.4:
                t['safe_rerun'] = True
    table = {}
    for p in defs:
        table.update(wfgen.gen_oracle_table(rng, p, p_err=0.25 if mode == 'rerun' else 0.1))
    return {'defs': defs, 'yaml': [wfgen.render_yaml(p) for p in defs], 'oracle': table, 'mode': mode,
            'policy': rng.choice(['random', 'random', 'fifo', 'lifo']), 'seed': rng.getrandbits(32),
            'dup_seed': rng.getrandbits(32)}


class Run(object):
    """one run of a case on a fresh EngineWorld; base=None -> duplicate-free run that records its
    message schedule; base=<Run> -> the same schedule with repeated deliveries injected"""

    DUP_METHODS = ('on_action_complete', 'start_task')

    def __init__(self, case, base=None, dup_rate=0.35):
        self.case = case
        self.base = base
        self.w = new_world(case['seed'])
        self.w.id_ord[ROOT_ID] = 0
        self.rng = random.Random(case['seed'])
        self.drng = random.Random(case['dup_seed'])
        self.oracle = er.Oracle(case['oracle'])
        self.ord = {}            # pending.seq -> semantic key of the message
        self.key_count = {}
        self.schedule = []       # base: ['m', ordinal] | ['op', ...]
        self.hits = []           # (what, signature, detail)
        self.stats = {}
        self.held = []           # [due step, kind, payload]
        self.dup_rate = dup_rate
        self.free = False        # no longer aligned with the base run (legitimately)
        self.reran = False
        self.delivered_actions = []
        self.dups_done = 0
        self.rejected = 0

    def cnt(self, k, n=1):
        self.stats[k] = self.stats.get(k, 0) + n

    # ---------------------------------------------------------------- base items
    def number_new(self):
        """gives every new message a key that says WHAT it is (so that the two runs can be matched
        message by message whatever the creation order inside one event was)"""
        new = [p for p in messages(self.w) if p.seq not in self.ord]
        if not new:
            return
        canon, _ = canon_ids(self.w.snapshot())
        keyed = []
        for p in new:
            if p.kind == 'action':
                b = ['run_action', canon.get(p.data['action_ex_id'], '?')]
            else:
                kw = p.data['kwargs']
                m = p.data['method']
                if m == 'start_task':
                    b = [m, canon.get(kw['task_ex_id'], '?'), bool(kw['first_run'])]
                elif m == 'on_action_complete':
                    b = [m, canon.get(kw['action_ex_id'], '?'), bool(kw.get('wf_action'))]
                else:
                    b = [m]
            keyed.append((json.dumps(b), p))
        for b, p in sorted(keyed, key=lambda t: t[0]):
            k = self.key_count.get(b, 0)
            self.key_count[b] = k + 1
            self.ord[p.seq] = '%s@%d' % (b, k)

    def start(self):
        w = self.w
        for y in self.case['yaml']:
            w.create_workflows(y)
        self.root = w.start_workflow('wf', {}, wf_ex_id=ROOT_ID)
        drain_internal(w)
        self.number_new()

    def rerun_op(self):
        """at quiescence in mode rerun: rerun the first ERROR task of the root workflow (once)"""
        if self.case['mode'] != 'rerun' or self.reran:
            return False
        snap = self.w.snapshot()
        if not snap['wfs'] or snap['wfs'][0]['state'] != 'ERROR':
            return False
        cands = [t for t in snap['tasks'] if t['wf'] == snap['wfs'][0]['ord'] and t['state'] == 'ERROR'
                 and t['type'] == 'ACTION']
        if not cands:
            return False
        self.reran = True
        reset = (self.case['seed'] % 2) == 0
        self.w.op('rerun_workflow', cands[0]['id'], reset=reset)
        drain_internal(self.w)
        self.number_new()
        self.cnt('op:rerun')
        return True

    # ---------------------------------------------------------------- one message delivery
    def deliver_message(self, p):
        w = self.w
        if p.kind == 'action':
            self.delivered_actions.append(p)
        w.deliver(('p', p), oracle=self.oracle)
        drain_internal(w)
        self.number_new()

    def second_result_check(self, p, before):
        """statement: 'no second result is accepted' - a result for an action execution that is already
        completed must leave every row as it is (used when the run is not aligned with a base run)"""
        if p.kind != 'rpc' or p.data['method'] != 'on_action_complete' or p.data['kwargs'].get('wf_action'):
            return None
        aid = p.data['kwargs']['action_ex_id']
        for a in before['actions']:
            if a['id'] == aid and a['state'] in COMPLETED:
                return a
        return None

    # ---------------------------------------------------------------- repeated deliveries
    def repeated(self, msg, fn):
        """performs one repeated delivery and checks that it is a no-op.
        Phase 1 = the transaction of the repeated delivery + the post-commit operations it registered: strict -
        every committed row unchanged, no message sent.  Phase 2 = the scheduler jobs it made due (join refresh;
        'idempotent re-evaluations'): they may move a join or complete the workflow when the engine had left
        a re-evaluation undone (e.g. a join orphaned by force_fail + rerun); there the statement's clauses are
        read directly - no result replaced, no second action for a task that has one - and the run is no longer
        compared with the duplicate-free run."""
        w = self.w
        before = rows(w.snapshot())
        seq0 = w._seq
        nerr = len(w.errors)
        res = fn()
        drain_posttx(w)
        after = rows(w.snapshot())
        new = [p for p in w.pending if p.seq > seq0 and p.kind in ('rpc', 'action')]
        new_kinds = [('run_action' if p.kind == 'action' else p.data['method']) for p in new]
        errs = w.errors[nerr:]
        self.dups_done += 1
        self.cnt('repeated:' + msg['kind'] + (':first_run=%s' % msg['first_run'] if 'first_run' in msg else '')
                 + (':wf_action' if msg.get('wf_action') else '') + (':stale-read' if msg.get('stale_read') else ''))
        for e in errs:
            r = expected_rejection(e)
            if r:
                self.rejected += 1
                self.cnt('refused-by:' + r)
            else:
                self.cnt('other-error:' + e['type'])
        if before != after or new:
            cls = diff_class(before, after)
            sig = signature(msg, cls, new_kinds, before)
            self.hits.append(('repeated delivery of %s is not a no-op: changed=%s sent=%s' % (
                json.dumps(msg, sort_keys=True), cls, new_kinds), sig,
                {'message': msg, 'changed': cls, 'sent': new_kinds,
                 'errors': [[e['type'], e['msg'][:120]] for e in errs]}))
            return False, res
        # phase 2
        drain_internal(w)
        self.number_new()
        late = rows(w.snapshot())
        if late != after:
            self.cnt('refresh-after-repeat-changed-rows')
            self.free = True
            bad = clause_check(after, late)
            if bad:
                self.hits.append(('re-evaluation triggered by the repeated delivery of %s: %s' % (
                    json.dumps(msg, sort_keys=True), bad),
                    {'kind': 'dup-refresh-broke-clause', 'message': msg['kind'], 'what': bad[0]},
                    {'message': msg, 'what': bad}))
                return False, res
        return True, res

    def plan_dups(self, p, step):
        """decide (dup rng) whether the message just delivered is delivered again, and when"""
        if p.kind == 'rpc' and p.data['method'] in self.DUP_METHODS:
            rate = self.dup_rate
            if p.data['method'] == 'start_task' and p.data['kwargs'].get('first_run') is False:
                rate = 0.6
            if self.drng.random() < rate:
                for _ in range(self.drng.choice([1, 1, 2])):
                    due = step + 1 + self.drng.choice([0, 0, 1, 2, 3, 5, 8, 1000])
                    self.held.append([due, 'msg', copy_pending(p)])
        elif p.kind == 'action' and self.case['mode'] == 'redeliver' and self.drng.random() < 0.5:
            due = step + 1 + self.drng.choice([0, 1, 2, 4, 1000])
            self.held.append([due, 'redeliver', p])

    def fire_held(self, step, final=False):
        """deliver the held faults that are due; returns False when a hit ends the run"""
        w = self.w
        while True:
            due = [h for h in self.held if final or h[0] <= step]
            if not due or self.free:
                return True
            h = due[0]
            self.held.remove(h)
            if h[1] == 'msg':
                p = h[2]
                kw = p.data['kwargs']
                if p.data['method'] == 'start_task' and kw.get('first_run') and self.drng.random() < 0.3:
                    # only when the original was processed (the task left IDLE): a concurrent second reader
                    ok, _ = self.repeated(dict(describe_msg(w, p), stale_read=True),
                                          lambda: deliver_with_stale_read(w, p))
                else:
                    ok, _ = self.repeated(describe_msg(w, p), lambda: w._deliver_rpc(p))
                if not ok:
                    return False
            elif h[1] == 'extra':
                # a message that exists only in this run (error report of a redelivered request)
                if self.second_result_check(h[2], rows(w.snapshot())) is None:
                    self.free = True      # it arrives FIRST and legitimately decides the action
                    self.cnt('extra-result-first')
                else:
                    self.cnt('extra-result-second')
                if not self.checked_delivery(h[2]):
                    return False
            elif h[1] == 'start_workflow':
                ok, rid = self.repeated({'kind': 'start_workflow', 'with_id': True},
                                        lambda: w.start_workflow('wf', {}, wf_ex_id=ROOT_ID))
                if not ok:
                    return False
                if rid != ROOT_ID:
                    self.hits.append(('start_workflow with an existing id returned %r' % rid,
                                      {'kind': 'dup-start-workflow-other-execution'}, {'returned': rid}))
                    return False
            elif h[1] == 'redeliver':
                if not self.redeliver(h[2]):
                    return False
            elif h[1] == 'hb':
                if not self.heartbeat():
                    return False

    def redeliver(self, p):
        """the transport redelivers a run_action request: the REAL executor gets redelivered=True.  The
        result message it sends races the genuine one: whichever is second must be rejected."""
        w = self.w
        from mistral import context as auth_context
        d = p.data
        self.cnt('redelivered-run_action:safe_rerun=%s' % bool(d['safe_rerun']))
        seq0 = w._seq
        auth_context.set_ctx(p.ctx)
        action = d['action']
        ran = []
        orig_run = action.run

        def spy(*a, **kw):
            ran.append(1)
            return orig_run(*a, **kw)
        try:
            action.run = spy
        except Exception:
            pass
        w.log.append(['redelivered-run_action', w.id_ord.get(d['action_ex_id'])])
        w._call('executor', w.real_executor.run_action, action, d['action_ex_id'], d['safe_rerun'],
                d['exec_ctx'], True, d['target'], True, d['timeout'])
        try:
            del action.run
        except Exception:
            pass
        new = [x for x in w.pending if x.seq > seq0 and x.kind == 'rpc']
        if not d['safe_rerun']:
            kinds = [(x.data['method'], x.data['kwargs']['result'].is_error()) for x in new
                     if x.data['method'] == 'on_action_complete']
            if ran or kinds != [('on_action_complete', True)]:
                self.hits.append(('executor ran a redelivered unsafe action or did not answer with one error: '
                                  'ran=%s sent=%s' % (bool(ran), kinds),
                                  {'kind': 'executor-unsafe-redelivery-ran'}, {'ran': bool(ran), 'sent': kinds}))
                return False
        # the message(s) it produced are extra: they race the genuine result
        self.number_extra(new)
        return True

    def number_extra(self, new):
        """messages that exist only in the run with faults: delivered at random later points by
        the fault rng; they are 'second results' iff the action is completed when they arrive"""
        for x in new:
            self.w.pending.remove(x)
            self.held.append([self.drng.choice([0, 0, 1, 3, 6, 1000]) + self.step + 1, 'extra', x])

    def heartbeat(self):
        """clock past the heartbeat deadline + one checker pass"""
        w = self.w
        before = rows(w.snapshot())
        w.tick(3600 + 15 * 20 + 30)
        run_checker(w)
        drain_internal(w)
        self.number_new()
        after = rows(w.snapshot())
        running = [a for a in before['actions'] if a['state'] == 'RUNNING']
        self.cnt('hb-pass:running=%d' % min(len(running), 3))
        # statement: the checker's result must not replace a result that was already taken
        done_before = {a['id']: a for a in before['actions'] if a['state'] in COMPLETED}
        for a in after['actions']:
            o = done_before.get(a['id'])
            if o is not None and (o['state'], o['output'], o['accepted']) != (a['state'], a['output'], a['accepted']):
                self.hits.append(('heartbeat checker changed an action execution whose result was already taken',
                                  {'kind': 'heartbeat-overwrote-result'}, {'before': o, 'after': a}))
                return False
        if before != after:
            self.free = True          # expiry won the race: from here on only local checks
            self.cnt('hb-expired-some')
        return True

    # ---------------------------------------------------------------- main loops
    def run_base(self, max_steps=400):
        self.start()
        step = 0
        while step < max_steps:
            ms = messages(self.w)
            if not ms:
                if self.rerun_op():
                    self.schedule.append(['op', 'rerun'])
                    continue
                break
            # sorted by what the messages ARE: the pick does not depend on creation order inside an event
            ms.sort(key=lambda p: self.ord[p.seq])
            p = er.pick(self.rng, self.case['policy'], ms)
            self.schedule.append(["m", self.ord[p.seq]])
            self.deliver_message(p)
            step += 1
        self.exhausted = step >= max_steps
        self.final = self.w.snapshot()
        return self

    def run_faulty(self, max_steps=600):
        """replays the base schedule with repeated deliveries in between"""
        base = self.base
        self.start()
        mode = self.case['mode']
        n = len([s for s in base.schedule if s[0] == 'm'])
        if self.drng.random() < 0.7:
            for _ in range(self.drng.choice([1, 1, 2])):
                self.held.append([self.drng.randint(0, n + 1), 'start_workflow', None])
        if mode == 'hb':
            self.held.append([self.drng.randint(1, max(1, n)), 'hb', None])
        self.step = 0
        for entry in base.schedule:
            if self.free:
                break
            if entry[0] == 'op':
                if not self.rerun_op():
                    self.hits.append(('run with repeated deliveries cannot follow the duplicate-free run: no rerun possible',
                                      {'kind': 'dup-run-diverged', 'at': 'op'}, {}))
                    return self.finish()
                continue
            if not self.fire_held(self.step):
                return self.finish()
            if self.free:
                break
            by_ord = {self.ord[p.seq]: p for p in messages(self.w)}
            p = by_ord.get(entry[1])
            if p is None:
                self.hits.append(('run with repeated deliveries cannot follow the duplicate-free run: message %s '
                                  'of its schedule does not exist' % entry[1],
                                  {'kind': 'dup-run-diverged', 'at': 'message'}, {'step': self.step}))
                return self.finish()
            self.deliver_message(p)
            self.plan_dups(p, self.step)
            self.step += 1
        if self.free:
            return self.run_free(max_steps)
        if not self.fire_held(self.step, final=True):
            return self.finish()
        if self.free:
            return self.run_free(max_steps)
        if messages(self.w):
            self.hits.append(('run with repeated deliveries has messages the duplicate-free run never had: %s' % [
                describe_msg(self.w, p) for p in messages(self.w)][:4],
                {'kind': 'dup-run-diverged', 'at': 'end'}, {}))
        return self.finish()

    def run_free(self, max_steps):
        """after a fault that legitimately changes the course of the run (an expiry or a redelivery error that
        won the race): random schedule; copies must still be no-ops and every result for an already completed
        action must be a no-op"""
        w = self.w
        steps = 0
        while steps < max_steps:
            ms = sorted(messages(w), key=lambda p: self.ord.get(p.seq, ''))
            extras = [h for h in self.held if h[1] in ('extra', 'msg')]
            if not ms and not extras:
                break
            k = self.drng.randrange(len(ms) + len(extras))
            if k < len(ms):
                p = ms[k]
                w.pending.remove(p)
                ok = self.checked_delivery(p)
                if ok:
                    self.plan_dups(p, steps)
            else:
                h = extras[k - len(ms)]
                self.held.remove(h)
                p = h[2]
                if h[1] == 'msg':
                    ok, _ = self.repeated(describe_msg(w, p), lambda: w._deliver_rpc(p))
                else:
                    ok = self.checked_delivery(p)
            if not ok:
                break
            steps += 1
        self.cnt('free-steps', steps)
        return self.finish()

    def checked_delivery(self, p):
        """deliver p (already removed from the queues); if it is a result for a completed action it must be
        a no-op"""
        w = self.w
        before = rows(w.snapshot())
        done = self.second_result_check(p, before)
        if done is not None:
            ok, _ = self.repeated(dict(describe_msg(w, p), second_result=True), lambda: w._deliver_rpc(p))
            return ok
        if p.kind == 'rpc':
            w._deliver_rpc(p)
        else:
            self.delivered_actions.append(p)
            w._deliver_action(p, self.oracle)
        drain_internal(w)
        self.number_new()
        return True

    def finish(self):
        self.final = self.w.snapshot()
        return self


def run_pair(case):
    base = Run(case).run_base()
    faulty = Run(case, base=base)
    faulty.run_faulty()
    res = {'base': base, 'faulty': faulty, 'hits': list(faulty.hits)}
    if not faulty.hits and not faulty.free and not base.exhausted:
        a, b = canon_rows(base.final), canon_rows(faulty.final)
        if a != b:
            cls = diff_class_canon(a, b)
            res['hits'].append(('final rows differ from the duplicate-free run: %s' % cls,
                                {'kind': 'dup-final-differs', 'changed': cls}, {'changed': cls}))
    return res


def diff_class_canon(a, b):
    cls = []
    for k in ('wfs', 'tasks', 'actions'):
        if len(a[k]) != len(b[k]):
            cls.append('%s-count' % k)
        elif a[k] != b[k]:
            cls.append('%s-content' % k)
    return cls


def features(base, faulty):
    f = set()
    snap = base.final
    if len(snap['wfs']) > 1:
        f.add('subworkflow')
    if any(t['type'] == 'ACTION' and t['state'] == 'ERROR' for t in snap['tasks']):
        f.add('task-error')
    for k in faulty.stats:
        if k.startswith('repeated:') or k.startswith('hb-') or k.startswith('redelivered') or k.startswith('op:'):
            f.add(k.split('=')[0] if k.startswith('hb-') else k)
    return f


def replay_obj(case, res=None):
    o = {'stream': 'engine-dup', 'case': {k: case[k] for k in ('yaml', 'oracle', 'mode', 'policy', 'seed', 'dup_seed')}}
    if res is not None:
        o['schedule_log'] = res['faulty'].w.log[-120:]
    return o


def run_case_report(ctx, case):
    from mistral import exceptions as exc
    try:
        res = run_pair(case)
    except exc.MistralException as e:
        ctx.count('engine-dup', 'rejected:' + type(e).__name__)
        return None
    base, faulty = res['base'], res['faulty']
    f = features(base, faulty)
    for x in f:
        ctx.count('engine-dup', 'feat:' + x)
    for k, v in faulty.stats.items():
        ctx.count('engine-dup', k, v)
    ctx.count('engine-dup', 'mode:' + case['mode'])
    ctx.count('engine-dup', 'final:' + (base.final['wfs'][0]['state'] if base.final['wfs'] else 'none'))
    ctx.count('engine-dup', 'compared-final' if not faulty.free and not faulty.hits else 'not-compared-final')
    if base.exhausted:
        ctx.count('engine-dup', 'base-exhausted')
    ctx.evaluated('engine-dup', [case['yaml'], case['oracle'], case['policy'], case['seed'], case['dup_seed'], case['mode']],
                  nontrivial=faulty.dups_done > 0 or any(k.startswith('hb-expired') for k in faulty.stats))
    if ctx.rng.random() < 0.02:
        ctx.sample({'stream': 'engine-dup', 'yaml': case['yaml'][-1], 'mode': case['mode'],
                    'repeated': {k: v for k, v in faulty.stats.items() if k.startswith('repeated')},
                    'outcome': er.outcome(base.final) if base.final['wfs'] else None})
    for what, sig, detail in res['hits']:
        ctx.count('engine-dup', 'hit:' + sig['kind'])
        ctx.violation('engine-dup: ' + what, dict(replay_obj(case, res), hit=detail), sig)
    return res


def corpus_cases():
    import glob
    import os
    from vlib import core
    for f in sorted(glob.glob(os.path.join(core.VERIF, 'corpus', 'C06', '*.json'))):
        c = json.load(open(f))
        if c.get('stream') == 'engine-dup':
            yield c['case']


def run_chunk(ctx, n_cases, n_dedup):
    rng = ctx.rng
    if getattr(ctx, 'chunk', 0) == 0:
        for name in sorted(WITNESSES):
            replay_witness(ctx, name)
        for c in corpus_cases():
            ctx.count('engine-dup', 'corpus')
            c = dict(c)
            c['defs'] = []
            run_case_report(ctx, c)
    for _ in range(n_cases):
        run_case_report(ctx, gen_case(rng))
    run_dedup(ctx, n_dedup)


def run_chunk_search(ctx, n_cases, salt):
    """failing-input search: a wider population from another seed, monitors only"""
    rng = random.Random('C06-search-%s-%s' % (ctx.seed, salt))
    for _ in range(n_cases):
        run_case_report(ctx, gen_case(rng))


# ================================================================================ stream dedup
DEDUP_WF = """
version: '2.0'
wf:
  tasks:
    t1:
      action: std.noop
      on-success:
        - t2
    t2:
      action: std.noop
"""

DEDUP_WF_SUB = """
version: '2.0'
sub:
  tasks:
    s0:
      action: std.noop
wf:
  tasks:
    t1:
      workflow: sub
      on-success:
        - t2
    t2:
      action: std.noop
"""


def _result(kind, tag):
    from mistral_lib import actions as ml
    if kind == 'ok':
        return ml.Result(data={'tag': tag})
    if kind == 'error':
        return ml.Result(error='tag:%d' % tag)
    return ml.Result(error='tag:%d' % tag, cancel=True)


def _tag_of(output):
    r = (output or {}).get('result')
    if r is None:
        return 0
    if isinstance(r, dict):
        return r.get('tag', -1)
    if isinstance(r, str):
        if r == HB_TEXT:
            return 1
        m = re.match(r'tag:(\d+)$', r)
        if m:
            return int(m.group(1))
    return -1


class DedupImpl(object):
    """the real engine on the two-task workflow, observed as Mistral.Dedup.Task"""

    def __init__(self, seed, sub=False):
        self.w = new_world(seed)
        self.sub = sub
        self.w.create_workflows(DEDUP_WF_SUB if sub else DEDUP_WF)
        self.root = self.w.start_workflow('wf', {})
        drain_internal(self.w)
        self.start_msg = self.take(lambda p: p.kind == 'rpc' and p.data['method'] == 'start_task')[0]
        self.rerun_msgs = []      # [(message, reset, rerun, sender)]: every start_task(first_run=False) sent for t1
        self.sender = None        # the API call being settled: 'resume_workflow' | 'rerun_workflow'
        self.wf_msgs = []
        self.delivered = {}       # message key ('first' | j) -> number of deliveries
        self.hits = []            # monitor: (what, signature, detail)
        self.last_ev = None
        self.dispatched = 0
        self.completions = 0
        self.accepts = {}
        self.action_ids = []
        self.t1 = [t for t in self.w.snapshot()['tasks'] if t['name'] == 't1'][0]['id']

    def take(self, pred):
        got = [p for p in self.w.pending if pred(p)]
        for p in got:
            self.w.pending.remove(p)
        return got

    def t1_row(self, snap):
        return [t for t in snap['tasks'] if t['id'] == self.t1][0]

    def t1_actions(self, snap):
        return [a for a in snap['actions'] if a['task'] == self.t1_row(snap)['ord']]

    def settle(self):
        """post-commit work; collect what was sent for t1; sub-workflow runs to its end"""
        w = self.w
        drain_internal(w)
        for _ in range(50):
            snap = w.snapshot()
            mine = {a['id'] for a in self.t1_actions(snap)}
            got = self.take(lambda p: p.kind == 'action' and p.data['action_ex_id'] in mine)
            self.dispatched += len(got)
            self.rerun_msgs += [(p, bool(p.data['kwargs']['reset']), bool(p.data['kwargs']['rerun']), self.sender)
                                for p in self.take(
                lambda p: p.kind == 'rpc' and p.data['method'] == 'start_task'
                and p.data['kwargs']['task_ex_id'] == self.t1 and p.data['kwargs']['first_run'] is False)]
            self.wf_msgs += self.take(lambda p: p.kind == 'rpc' and p.data['method'] == 'on_action_complete'
                                      and p.data['kwargs'].get('wf_action'))
            # everything else that belongs to the sub-workflow is delivered at once
            rest = [p for p in messages(w) if self.sub and self.belongs_to_sub(p, snap)]
            if not rest:
                break
            w.deliver(('p', rest[0]), oracle=self.sub_oracle)
            drain_internal(w)

    sub_oracle = None

    def belongs_to_sub(self, p, snap):
        sub_tasks = {t['id'] for t in snap['tasks'] if t['name'].startswith('s')}
        sub_actions = {a['id'] for a in snap['actions'] if a['task'] in {t['ord'] for t in snap['tasks'] if t['name'].startswith('s')}}
        if p.kind == 'action':
            return p.data['action_ex_id'] in sub_actions
        kw = p.data['kwargs']
        return kw.get('task_ex_id') in sub_tasks or (kw.get('action_ex_id') in sub_actions)

    def observe(self, before, after, errs):
        tb, ta = self.t1_row(before), self.t1_row(after)
        if tb['state'] not in COMPLETED and ta['state'] in COMPLETED:
            self.completions += 1
        elif tb['state'] in COMPLETED and ta['state'] in COMPLETED and tb['state'] != ta['state']:
            self.completions += 1
        ab = {a['id']: a for a in self.t1_actions(before)}
        acts = []
        for a in self.t1_actions(after):
            o = ab.get(a['id'])
            if o is not None and (o['state'], o['output']) != (a['state'], a['output']):
                self.accepts[a['id']] = self.accepts.get(a['id'], 0) + 1
            acts.append({'state': a['state'], 'accepted': a['accepted'], 'out': _tag_of(a['output']),
                         'acceptCount': self.accepts.get(a['id'], 0)})
        v = 'ok'
        for e in errs:
            r = expected_rejection(e)
            if r == 'ValueError-already-completed':
                v = 'rejected'
            elif r == 'MistralError-rerun-succeeded':
                v = 'refused'
            else:
                v = 'error:' + e['type']
        return {'verdict': v, 'task': {'state': ta['state'], 'actions': acts, 'dispatched': self.dispatched,
                                       'completions': self.completions}}

    def wf_state(self):
        return self.w.snapshot()['wfs'][0]['state']

    def pause(self):
        """API call pause_workflow (not a delivery of the model: the task row is not touched)"""
        self.w.op('pause_workflow', self.root)
        self.settle()

    def resume(self):
        """API call resume_workflow: Workflow.resume re-queues start_task(first_run=False, rerun=False) for
        every task that is still IDLE; returns how many such requests were sent for t1"""
        n = len(self.rerun_msgs)
        self.sender = 'resume_workflow'
        self.w.op('resume_workflow', self.root)
        self.settle()
        self.sender = None
        return len(self.rerun_msgs) - n

    def rerun_op(self, reset):
        """API call rerun_workflow for t1 (sends start_task(first_run=False, rerun=True))"""
        self.sender = 'rerun_workflow'
        self.w.op('rerun_workflow', self.t1, reset=reset)
        self.settle()
        self.sender = None

    def sig_of(self, sig, ev):
        """a request that is not an explicit rerun - by its flag, or by its sender (re-queued by
        resume_workflow) - is never covered by the known finding about explicit reruns"""
        if not ev['firstRun'] and sig.get('kind') == 'dup-start-task-existing-reschedules':
            if not ev['rerun']:
                sig['rerun'] = False
            if self.rerun_msgs[ev['j']][3] == 'resume_workflow':
                sig['sender'] = 'resume_workflow'
        return sig

    def start_message(self, ev):
        """the recorded message an event stands for + its key"""
        if ev['firstRun']:
            return self.start_msg, 'first'
        return self.rerun_msgs[ev['j']][0], ev['j']

    def apply(self, ev):
        """returns the observation after the event; self.last_ev = the event as handed to the MODEL (for a start
        request the flags first_run / rerun / reset are those of the recorded message kwargs)"""
        w = self.w
        before = w.snapshot()
        nerr = len(w.errors)
        k = ev['op']
        sent0 = (w._seq, self.dispatched, len(self.rerun_msgs), len(self.wf_msgs))
        p = key = None
        missing = False
        if k == 'startTask':
            p, key = self.start_message(ev)
            kw = p.data['kwargs']
            ev = dict(ev, firstRun=bool(kw['first_run']), rerun=bool(kw['rerun']), reset=bool(kw['reset']))
            w._deliver_rpc(copy_pending(p))
        elif k == 'result':
            acts = self.t1_actions(before)
            w.log.append(['result', ev['a'], ev['kind'], ev['tag']])
            if ev['a'] >= len(acts):
                # (fixed witnesses only: the action execution the event is about was never created - the real
                # engine has nothing to deliver to; the model answers notFound)
                missing = True
            else:
                w._call('rpc:on_action_complete', w.engine.on_action_complete, acts[ev['a']]['id'],
                        _result(ev['kind'], ev['tag']))
        elif k == 'wfResult':
            w._deliver_rpc(copy_pending(self.wf_msgs[0]))
        elif k == 'expiry':
            w.tick(3600 + 330)
            run_checker(w)
        self.last_ev = ev
        self.settle()
        after = w.snapshot()
        if p is not None:
            self.monitor_start(ev, p, key, before, after, sent0)
        o = self.observe(before, after, w.errors[nerr:])
        if missing:
            o['verdict'] = 'notFound'
        return o

    def monitor_start(self, ev, p, key, before, after, sent0):
        """The statement, read on the real rows: the same start-task request delivered again leaves every
        committed row unchanged and sends nothing.  Also read for the SECOND of the two requests to start the
        IDLE task (the original first_run=True request and the one re-queued on resume, whichever arrives
        later): the task was started by the other one."""
        w = self.w
        n_before = self.delivered.get(key, 0)
        self.delivered[key] = n_before + 1
        # the requests to start the IDLE task: the original one and those re-queued by resume_workflow
        def starter(k):
            return k == 'first' or self.rerun_msgs[k][3] == 'resume_workflow'
        other_started = starter(key) and any(n > 0 and starter(k) for k, n in self.delivered.items() if k != key)
        if n_before == 0 and not other_started:
            return
        b, a = rows(before), rows(after)
        new_kinds = (['run_action'] * (self.dispatched - sent0[1]) +
                     ['start_task'] * (len(self.rerun_msgs) - sent0[2]) +
                     ['on_action_complete'] * (len(self.wf_msgs) - sent0[3]) +
                     [('run_action' if x.kind == 'action' else x.data['method']) for x in messages(w)
                      if x.seq > sent0[0]])
        if b == a and not new_kinds:
            return
        cls = diff_class(b, a)
        msg = describe_msg(w, p)
        if n_before > 0:
            sig = self.sig_of(signature(msg, cls, new_kinds, b), ev)
            what = 'repeated delivery of %s is not a no-op' % json.dumps(msg, sort_keys=True)
        else:
            st = self.t1_row(before)['state']
            sig = {'kind': 'second-start-request-not-noop', 'first_run': msg.get('first_run'),
                   'rerun': msg.get('rerun'), 'task_state': st}
            if key != 'first':
                sig['sender'] = 'resume_workflow'
            what = ('request %s to start a task that the other start request has already started (task %s) is '
                    'not a no-op' % (json.dumps(msg, sort_keys=True), st))
        self.hits.append(('%s: changed=%s sent=%s' % (what, cls, new_kinds), sig,
                          {'message': msg, 'changed': cls, 'sent': new_kinds}))


def gen_dedup_events(rng, impl, n, mode='classic'):
    """generates and applies events one at a time (what is possible depends on the real state).
    mode 'resume': first the workflow is paused and resumed while t1 is IDLE (once or twice), which re-queues
    start_task(first_run=False, rerun=False) for t1; later pause / resume again at random points."""
    evs, obs = [], []
    tag = 2
    ops = []
    if mode == 'resume':
        for _ in range(rng.choice([1, 1, 2])):
            impl.pause()
            got = impl.resume()
            ops.append(['pause+resume', got])
    for _ in range(n):
        snap = impl.w.snapshot()
        t1 = impl.t1_row(snap)
        nact = len(impl.t1_actions(snap))
        wf_state = snap['wfs'][0]['state']
        choices = ['start1', 'start1']
        if nact:
            choices += ['result'] * 5 + ['expiry']
        if t1['state'] == 'ERROR' and wf_state == 'ERROR' and len([m for m in impl.rerun_msgs if m[2]]) < 2:
            choices += ['rerun'] * 3
        if impl.rerun_msgs:
            choices += ['startRerun'] * (5 if mode == 'resume' else 3)
        if mode == 'resume' and wf_state in ('RUNNING', 'PAUSED'):
            choices += ['toggle']
        c = rng.choice(choices)
        if c == 'rerun':
            impl.rerun_op(rng.random() < 0.5)
            ops.append(['rerun', len(evs)])
            continue
        if c == 'toggle':
            if wf_state == 'RUNNING':
                impl.pause()
                ops.append(['pause', len(evs)])
            else:
                ops.append(['resume', len(evs), impl.resume()])
            continue
        if c == 'start1':
            ev = {'op': 'startTask', 'firstRun': True}
        elif c == 'startRerun':
            ev = {'op': 'startTask', 'firstRun': False, 'j': rng.randrange(len(impl.rerun_msgs))}
        elif c == 'expiry':
            ev = {'op': 'expiry'}
        else:
            tag += 1
            ev = {'op': 'result', 'a': rng.randrange(nact), 'kind': rng.choice(['ok', 'ok', 'error', 'error', 'cancel']),
                  'tag': tag}
        o = impl.apply(ev)
        evs.append(impl.last_ev)
        obs.append(o)
    impl.ops = ops
    return evs, obs


def ev_kind(e):
    if e['op'] != 'startTask':
        return e['op']
    if e['firstRun']:
        return 'startTask'
    return 'startTask:rerun' if e['rerun'] else 'startTask:resume'


def report_hits(ctx, impl, replay):
    for what, sig, detail in impl.hits:
        ctx.count('dedup', 'hit:' + sig['kind'])
        ctx.violation('dedup: ' + what, dict(replay, hit=detail), sig)


def run_dedup(ctx, n):
    drv = ctx.driver()
    rng = ctx.rng
    for i in range(n):
        seed = rng.getrandbits(32)
        if rng.random() < 0.2:
            run_dedup_sub(ctx, drv, rng, seed)
            continue
        mode = 'resume' if rng.random() < RESUME_SHARE else 'classic'
        n_ev = rng.randint(3, 12)
        ev_seed = rng.getrandbits(32)
        run_dedup_case(ctx, drv, seed, mode, n_ev, ev_seed, sample=rng.random() < 0.02)
    run_start_ids(ctx, drv, rng, max(2, n // 4))


RESUME_SHARE = 0.45


def run_dedup_case(ctx, drv, seed, mode, n_ev, ev_seed, sample=False):
    """one random delivery sequence on the two-task workflow, model vs real + monitor; reproducible from
    (seed, mode, n_ev, ev_seed)"""
    impl = DedupImpl(seed)
    evs, obs = gen_dedup_events(random.Random(ev_seed), impl, n_ev, mode)
    replay = {'stream': 'dedup', 'case': {'seed': seed, 'mode': mode, 'n_ev': n_ev, 'ev_seed': ev_seed},
              'events': evs, 'ops': impl.ops}
    ctx.count('dedup', 'mode:' + mode)
    if mode == 'resume':
        requeued = [m for m in impl.rerun_msgs if m[3] == 'resume_workflow']
        ctx.count('dedup', 'resume:requeued-requests', len(requeued))
        if not requeued or any((m[1], m[2]) != (True, False) for m in requeued):
            # Workflow.resume must re-queue RunExistingTask(reset=True, rerun=False) for the IDLE task
            ctx.disagree('dedup', replay['case'], 'resume re-queues start_task(first_run=False, rerun=False, '
                         'reset=True) for the IDLE task', [list(m[1:]) for m in impl.rerun_msgs])
    mo = drv.call('dedup.trace', {'deliveries': evs})
    mo = [{'verdict': {'accepted': 'ok', 'noop': 'ok'}.get(x['verdict'], x['verdict']), 'task': x['task']}
          for x in mo] if isinstance(mo, list) else mo
    kinds = [ev_kind(e) for e in evs]
    for k in kinds:
        ctx.count('dedup', 'ev:' + k)
    for o in obs:
        ctx.count('dedup', 'verdict:' + o['verdict'])
    # a start request delivered when the task had already been started / had completed
    for e, o, prev in zip(evs, obs, [None] + obs[:-1]):
        if e['op'] == 'startTask' and not e['firstRun'] and prev is not None:
            ctx.count('dedup', 'run-existing[%s]@%s' % ('rerun' if e['rerun'] else 'resume',
                                                         prev['task']['state']))
    starts = [k for k in kinds if k.startswith('startTask')]
    ctx.evaluated('dedup', [mode, evs], nontrivial=any(o['verdict'] in ('rejected', 'refused') for o in obs)
                  or len(starts) > 1 or 'startTask:rerun' in kinds or 'startTask:resume' in kinds)
    report_hits(ctx, impl, replay)
    if mo != obs:
        ctx.disagree('dedup', dict(replay['case'], events=evs), mo, obs)
    elif sample:
        ctx.sample({'stream': 'dedup', 'mode': mode, 'events': evs, 'last': obs[-1] if obs else None})


def run_dedup_sub(ctx, drv, rng, seed):
    """duplicated sub-workflow result messages vs the model's wfResult"""
    impl = DedupImpl(seed, sub=True)
    kind = rng.choice(['ok', 'ok', 'error'])
    impl.sub_oracle = er.Oracle({'s0:0': ['error']} if kind == 'error' else {})
    impl.apply({'op': 'startTask', 'firstRun': True})
    if not impl.wf_msgs:
        ctx.disagree('dedup', {'sub': True, 'seed': seed}, 'sub-workflow result message expected', 'none sent')
        return
    n = rng.randint(2, 4)
    obs = []
    for _ in range(n):
        o = impl.apply({'op': 'wfResult'})
        obs.append({'verdict': o['verdict'], 'state': o['task']['state'], 'completions': o['task']['completions']})
    mo = drv.call('dedup.trace', {'deliveries': [{'op': 'wfResult', 'kind': kind}] * n})
    mo = [{'verdict': {'accepted': 'ok', 'noop': 'ok'}.get(x['verdict'], x['verdict']), 'state': x['task']['state'],
           'completions': x['task']['completions']} for x in mo]
    # the model starts from a fresh (IDLE) task, the real task is RUNNING: same completion logic
    ctx.count('dedup', 'ev:wfResult', n)
    ctx.evaluated('dedup', ['sub', kind, n], nontrivial=True)
    if mo != obs:
        ctx.disagree('dedup', {'sub': True, 'kind': kind, 'n': n, 'seed': seed}, mo, obs)
    snap = impl.w.snapshot()
    if len([t for t in snap['tasks'] if t['name'] == 't2']) > 1:
        ctx.violation('dedup: downstream task created twice by a duplicated sub-workflow result',
                      {'stream': 'dedup', 'sub': True, 'kind': kind, 'n': n, 'seed': seed},
                      {'kind': 'dup-not-noop', 'message': 'on_action_complete', 'wf_action': True})


def run_start_ids(ctx, drv, rng, n):
    """start_workflow requests carrying execution ids, on the real engine vs Dedup.startWorkflow"""
    for _ in range(n):
        ids = [rng.randint(1, 3) for _ in range(rng.randint(2, 7))]
        run_start_ids_fixed(ctx, ids, rng.getrandbits(32), [rng.random() < 0.5 for _ in ids])


def _given_id(wid):
    """the number in an execution id of the form this stream hands out; -1 for any other id"""
    if wid and wid.startswith('c06c06c0-0000-4000-8000-') and wid[-12:].isdigit():
        return int(wid[-12:])
    return None if wid is None else -1


def run_start_ids_fixed(ctx, ids, seed=0, drains=None):
    w = new_world(seed)
    w.create_workflows(DEDUP_WF)
    answers = []
    for k, i in enumerate(ids):
        wid = 'c06c06c0-0000-4000-8000-%012d' % i
        n0 = len(w.snapshot()['wfs'])
        r = w.start_workflow('wf', {}, wf_ex_id=wid)
        if drains is None or drains[k]:
            drain_internal(w)
        n1 = len(w.snapshot()['wfs'])
        answers.append([_given_id(r), n1 > n0])
    table = sorted(_given_id(x['id']) for x in w.snapshot()['wfs'])
    mo = ctx.driver().call('dedup.startAll', {'ids': ids})
    io = {'answers': answers, 'table': table}
    mo['table'] = sorted(mo['table'])
    ctx.count('dedup', 'start-ids', len(ids))
    ctx.evaluated('dedup', ['ids', ids], nontrivial=len(set(ids)) < len(ids))
    if mo != io:
        ctx.disagree('dedup', {'ids': ids}, mo, io)
    # monitor: one execution per id, the id asked for is the id returned, no error escapes
    if len(table) != len(set(ids)) or w.errors or [a[0] for a in answers] != ids:
        ctx.violation('start_workflow with a repeated id: executions=%s answers=%s errors=%s' % (
            table, answers, [e['type'] for e in w.errors]),
            {'stream': 'dedup', 'ids': ids}, {'kind': 'dup-not-noop', 'message': 'start_workflow'})


# ================================================================================ witnesses about first_run=False start requests
# (the flags rerun / reset of a start event are taken from the recorded message kwargs by DedupImpl.apply)
_FIRST = {'op': 'startTask', 'firstRun': True}
_EXISTING = {'op': 'startTask', 'firstRun': False, 'j': 0}
# (1) the FORMER counter-witness (before repo fix 258aaaae): the duplicate arrives while the action of the
#     first delivery is running.  Now a regression that must PASS (Props.C06.dup_start_task_rerun_noop).
WITNESS_P = [_FIRST,
             {'op': 'result', 'a': 0, 'kind': 'error', 'tag': 3},
             'rerun',
             _EXISTING,
             _EXISTING]
# (2) the counter-witness of Props.C06.dup_start_task_rerun_full_fails (explicit rerun, rerun=True): the
#     restarted task fails again, then the same request arrives once more.
WITNESS_P2 = [_FIRST,
              {'op': 'result', 'a': 0, 'kind': 'error', 'tag': 3},
              'rerun',
              _EXISTING,
              {'op': 'result', 'a': 1, 'kind': 'error', 'tag': 4},
              _EXISTING]
# (3) repo fix 17f326b9, regressions that must PASS (Props.C06.dup_run_existing_noop,
#     first_run_and_resume_any_order): the workflow is paused and resumed while t1 is IDLE, so that the
#     original request and the re-queued one (first_run=False, rerun=False) are both in flight.
#     R1: the re-queued request starts the task, the task fails, a copy of the re-queued request arrives.
#     R2: the original request starts the task, the task fails, the re-queued request arrives (the scenario
#         of the fix).   R3: the other order.   R4: as R2 with the action CANCELLED instead of failed.
WITNESS_R1 = ['pause', 'resume', _EXISTING, {'op': 'result', 'a': 0, 'kind': 'error', 'tag': 3}, _EXISTING]
WITNESS_R2 = ['pause', 'resume', _FIRST, {'op': 'result', 'a': 0, 'kind': 'error', 'tag': 3}, _EXISTING]
WITNESS_R3 = ['pause', 'resume', _EXISTING, {'op': 'result', 'a': 0, 'kind': 'cancel', 'tag': 3}, _FIRST]
WITNESS_R4 = ['pause', 'resume', _FIRST, {'op': 'result', 'a': 0, 'kind': 'cancel', 'tag': 3}, _EXISTING]
WITNESSES = {'P': WITNESS_P, 'P2': WITNESS_P2, 'R1': WITNESS_R1, 'R2': WITNESS_R2, 'R3': WITNESS_R3,
             'R4': WITNESS_R4}


def replay_witness(ctx, name):
    """A witness about a repeated start_task(first_run=False) request on the real engine, compared with the
    model; the monitor reads the statement on the LAST event (a repeated delivery): it must not dispatch."""
    impl = DedupImpl(seed=0)
    evs, obs = [], []
    for ev in WITNESSES[name]:
        if ev == 'rerun':
            impl.rerun_op(False)
            continue
        if ev == 'pause':
            impl.pause()
            continue
        if ev == 'resume':
            if impl.resume() != 1:
                ctx.disagree('dedup', {'witness': name}, 'resume re-queues one start_task(first_run=False) for '
                             'the IDLE task', len(impl.rerun_msgs))
                return False
            continue
        obs.append(impl.apply(ev))
        evs.append(impl.last_ev)
    mo = ctx.driver().call('dedup.trace', {'deliveries': evs})
    mo = [{'verdict': {'accepted': 'ok', 'noop': 'ok'}.get(x['verdict'], x['verdict']), 'task': x['task']} for x in mo]
    ctx.evaluated('dedup', ['witness-' + name], nontrivial=True)
    ctx.count('dedup', 'witness-' + name)
    if mo != obs:
        ctx.disagree('dedup', {'events': evs, 'witness': name}, mo, obs)
    last, prev = obs[-1]['task'], obs[-2]['task']
    if last['dispatched'] > prev['dispatched'] or len(last['actions']) > len(prev['actions']):
        e = evs[-1]
        sig = impl.sig_of({'kind': 'dup-start-task-existing-reschedules', 'task_state': prev['state']}, e)
        if e['firstRun']:
            sig = {'kind': 'second-start-request-not-noop', 'first_run': True, 'rerun': e['rerun'],
                   'task_state': prev['state']}
        ctx.violation('a start_task(first_run=%s, rerun=%s) request delivered again / after the other start request '
                      '(task %s) dispatches the action again (dispatched %d -> %d, action executions %d -> %d)' % (
                          e['firstRun'], e['rerun'], prev['state'], prev['dispatched'], last['dispatched'],
                          len(prev['actions']), len(last['actions'])),
                      {'stream': 'dedup', 'witness': name, 'events': evs, 'observed': obs}, sig)
        return True
    return False


def replay_witness_p(ctx):
    return replay_witness(ctx, 'P')
