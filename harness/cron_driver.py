"""C17 harness: drives the REAL mistral.services.periodic.process_cron_triggers_v2 for several
processors, stepped at database-call granularity.

Each processor is a thread that repeatedly runs the real `process_cron_triggers_v2`; it parks on
a baton (i) before every pass (label `read`: the next thing it does is the real
`get_next_cron_triggers` query), (ii) on entry of the real `advance_cron_trigger(t)` (label
`advance`: local decrement + clock read + the one UPDATE/DELETE transaction), (iii) when it asks
for the engine client (label `start`: it has won and is about to send `start_workflow`).
Exactly one thread runs at a time.  A crash is a parked thread that is never resumed (it is
unwound with a BaseException at clean-up).

Seams replaced (monkeypatching only): `oslo_utils.timeutils.utcnow` (virtual clock, whole
seconds), `mistral.rpc.clients.get_engine_client` (recorder), `security.create_trust` and
`keystone.client_for_trusts` (no keystone), `periodic.advance_cron_trigger` (park, then the real
function), `triggers.get_next_execution_time` (records the croniter values used; real croniter).
"""
import datetime
import json
import threading
import types

EPOCH = datetime.datetime(2030, 1, 1, 0, 0, 0)
PROJECTS = ['projA', 'projB']
WF_NAME = 'wf_c17'
WF_TEXT = """
version: '2.0'
%s:
  type: direct
  input:
    - a: 0
  tasks:
    t1:
      action: std.noop
""" % WF_NAME
NEVER = '0 0 30 2 0'      # models.CronTrigger.pattern default


class HarnessError(Exception):
    pass


class _Killed(BaseException):
    """Unwinds a parked processor thread through the code's `except Exception`."""


def to_dt(t):
    return EPOCH + datetime.timedelta(seconds=t)


def to_t(dt):
    d = dt - EPOCH
    if d.microseconds:
        raise HarnessError('sub-second time %r' % dt)
    return d.days * 86400 + d.seconds


class World(object):
    """Process-wide patched environment (one per check process)."""

    def __init__(self):
        from harness import boot
        boot.boot()
        from oslo_config import cfg
        from oslo_utils import timeutils
        from mistral import context as auth_ctx
        from mistral.db.v2 import api as db_api
        from mistral.db.v2.sqlalchemy import models
        from mistral.rpc import clients as rpc
        from mistral.services import periodic, security, triggers, workflows
        from mistral.utils.openstack import keystone
        self.cfg = cfg
        self.auth_ctx = auth_ctx
        self.db_api = db_api
        self.models = models
        self.periodic = periodic
        self.triggers = triggers
        self.security = security
        cfg.CONF.set_default('connection', 'sqlite://', group='database')
        cfg.CONF.set_override('auth_enable', True, group='pecan')
        db_api.setup_db()
        self.now = 0
        timeutils.utcnow = lambda with_timezone=False: to_dt(self.now)
        self.trust_n = 0
        security.create_trust = self._create_trust
        keystone.client_for_trusts = lambda trust_id: types.SimpleNamespace(
            session=None, auth_token='tok:%s' % trust_id, user_id='user:%s' % trust_id)
        self.procs = {}          # thread -> Proc
        self.starts = []         # recorded start_workflow calls
        self.nxt = []            # (pattern, base t, value t) croniter values used by processors
        self.nxt_bad = []
        self.real_advance = periodic.advance_cron_trigger
        periodic.advance_cron_trigger = self._advance
        rpc.get_engine_client = self._engine_client
        self.real_next = triggers.get_next_execution_time
        triggers.get_next_execution_time = self._next_time
        self.admin = auth_ctx.MistralContext(user_id=None, project_id=None, auth_token=None,
                                             is_admin=True)
        self.wf_ids = {}
        for p in PROJECTS:
            auth_ctx.set_ctx(self.user_ctx(p))
            wf = workflows.create_workflows(WF_TEXT)[0]
            self.wf_ids[p] = wf.id
        auth_ctx.set_ctx(self.admin)

    # ----------------------------------------------------------------- seams
    def user_ctx(self, project):
        return self.auth_ctx.MistralContext(user_id='user-' + project, project_id=project,
                                            auth_token='tok', is_admin=False, roles=['member'])

    def _create_trust(self):
        self.trust_n += 1
        return types.SimpleNamespace(id='trust-%d' % self.trust_n)

    def _me(self):
        return self.procs.get(threading.current_thread())

    def _advance(self, t):
        me = self._me()
        if me is None:
            return self.real_advance(t)
        me.park(['advance', t.name])
        me.cur = {'name': t.name, 'occ': to_t(t.next_execution_time), 'id': t.id}
        r = self.real_advance(t)
        me.cur['won'] = bool(r)
        me.advances.append(dict(me.cur))
        return r

    def _engine_client(self):
        me = self._me()
        if me is None:
            raise HarnessError('engine client requested outside a processor')
        me.park(['start', me.cur['name'] if me.cur else None])
        return _Recorder(self, me)

    def _next_time(self, pattern, start_time):
        v = self.real_next(pattern, start_time)
        if self._me() is not None:
            b, vv = to_t(start_time), to_t(v)
            self.nxt.append((pattern, b, vv))
            if not vv > b:
                self.nxt_bad.append((pattern, b, vv))
        return v

    # ----------------------------------------------------------------- database
    def rows(self):
        """Committed trigger rows, canonical (sorted by name)."""
        self.auth_ctx.set_ctx(self.admin)
        res = []
        for r in self.db_api.get_cron_triggers(insecure=True):
            res.append({'name': r.name, 'next': to_t(r.next_execution_time),
                        'rem': r.remaining_executions, 'pattern': r.pattern, 'id': r.id,
                        'first': None if r.first_execution_time is None else to_t(r.first_execution_time),
                        'project': r.project_id, 'input': r.workflow_input,
                        'params': r.workflow_params, 'wf': r.workflow_name,
                        'trust': r.trust_id})
        res.sort(key=lambda r: r['name'])
        return res

    def clean(self):
        self.auth_ctx.set_ctx(self.admin)
        from mistral.db.sqlalchemy import base as b
        with self.db_api.transaction():
            ses = b._get_thread_local_session()
            ses.execute(self.models.CronTrigger.__table__.delete())
        self.starts = []
        self.nxt = []
        self.nxt_bad = []

    def create(self, spec):
        """Real create_cron_trigger under the project's context.  Returns (row|None, error kind)."""
        from mistral import exceptions as exc
        self.auth_ctx.set_ctx(self.user_ctx(spec['project']))
        try:
            self.triggers.create_cron_trigger(
                spec['name'], WF_NAME, spec['input'], spec['params'], spec['pattern'],
                None if spec['first'] is None else to_dt(spec['first']), spec['count'])
            err = None
        except exc.InvalidModelException as e:
            m = str(e)
            err = ('nothingGiven' if 'must be specified' in m else
                   'tooSoon' if 'at least 1 minute' in m else
                   'needPattern' if 'superior to 1' in m else
                   'badPattern' if 'not valid' in m else 'invalid:' + m[:60])
        except Exception as e:
            err = 'exception:' + type(e).__name__
        finally:
            self.auth_ctx.set_ctx(self.admin)
        return err


class _Recorder(object):
    def __init__(self, world, proc):
        self.w = world
        self.p = proc

    def start_workflow(self, wf_identifier, wf_namespace='', wf_ex_id=None, wf_input=None,
                       description='', async_=False, **params):
        c = self.w.auth_ctx.ctx()
        try:
            trig_id = json.loads(description)['triggered_by']['id']
            trig_type = json.loads(description)['triggered_by']['type']
        except Exception:
            trig_id = trig_type = None
        cur = self.p.cur or {}
        self.w.starts.append({
            'proc': self.p.idx, 'wf': wf_identifier, 'namespace': wf_namespace, 'ex_id': wf_ex_id,
            'input': wf_input, 'params': params, 'trigger_id': trig_id, 'trigger_type': trig_type,
            'name': cur.get('name'), 'occ': cur.get('occ'), 'cur_id': cur.get('id'),
            'ctx': {'project': c.project_id, 'trust': getattr(c, 'trust_id', None),
                    'trust_scoped': bool(getattr(c, 'is_trust_scoped', False)),
                    'admin': bool(c.is_admin), 'token': c.auth_token, 'user': c.user_id}})
        return None


class Proc(object):
    TIMEOUT = 30

    def __init__(self, world, idx):
        self.w = world
        self.idx = idx
        self.go = threading.Semaphore(0)
        self.parked = threading.Semaphore(0)
        self.label = None
        self.kill = False
        self.cur = None
        self.advances = []
        self.error = None
        self.thread = threading.Thread(target=self._main, daemon=True)
        world.procs[self.thread] = self
        self.thread.start()
        if not self.parked.acquire(timeout=self.TIMEOUT):
            raise HarnessError('processor %d did not park' % idx)

    def _main(self):
        try:
            while True:
                self.cur = None
                self.park(['read'])
                self.w.periodic.process_cron_triggers_v2(None, None)
        except _Killed:
            pass
        except BaseException as e:   # a harness bug or an escape from the code under test
            self.error = e
        finally:
            self.label = ['dead']
            self.parked.release()

    def park(self, label):
        self.label = label
        self.parked.release()
        self.go.acquire()
        if self.kill:
            raise _Killed()

    def resume(self):
        if self.label == ['dead']:
            raise HarnessError('resume of a dead processor')
        self.go.release()
        if not self.parked.acquire(timeout=self.TIMEOUT):
            raise HarnessError('processor %d hung' % self.idx)
        if self.error is not None:
            raise HarnessError('processor %d died: %r' % (self.idx, self.error))

    def crash(self):
        """Never resumed again; the thread is unwound now so nothing leaks."""
        at = self.label
        self.kill = True
        self.go.release()
        self.parked.acquire(timeout=self.TIMEOUT)
        self.thread.join(self.TIMEOUT)
        self.w.procs.pop(self.thread, None)
        self.label = ['dead']
        return at


_WORLD = None


def world():
    global _WORLD
    if _WORLD is None:
        _WORLD = World()
    return _WORLD


def run_history(w, now0, specs, nprocs, chooser, max_steps):
    """Create the triggers (real create_cron_trigger) at virtual time now0, then let `chooser`
    pick steps.  chooser(view) -> step | None where step is ['proc', i] (resume processor i at
    whatever it is parked at), ['crash', i], ['tick', d]; view = {'labels','rows','now','k'}.
    Returns a record with everything observed after each step."""
    w.clean()
    w.now = now0
    created = []
    for s in specs:
        err = w.create(s)
        created.append(err)
    rows0 = w.rows()
    procs = [Proc(w, i) for i in range(nprocs)]
    rec = {'now0': now0, 'specs': specs, 'create_errors': created, 'rows0': rows0,
           'nprocs': nprocs, 'steps': [], 'obs': [], 'crash_at': []}
    try:
        k = 0
        while k < max_steps:
            labels = [list(p.label) for p in procs]
            st = chooser({'labels': labels, 'rows': rec['obs'][-1]['rows'] if rec['obs'] else rows0,
                          'now': w.now, 'k': k})
            if st is None:
                break
            kind, arg = st
            if kind == 'proc':
                lab = labels[arg]
                if lab == ['dead']:
                    raise HarnessError('chooser picked a dead processor')
                procs[arg].resume()
                mstep = [lab[0], arg]
            elif kind == 'crash':
                at = procs[arg].crash()
                cur = procs[arg].cur
                rec['crash_at'].append({'proc': arg, 'label': at,
                                        'cur': dict(cur) if cur else None})
                mstep = ['crash', arg]
            elif kind == 'tick':
                w.now += arg
                mstep = ['tick', arg]
            else:
                raise HarnessError('bad step %r' % (st,))
            rec['steps'].append(mstep)
            rec['obs'].append({'rows': w.rows(), 'nstarts': len(w.starts), 'now': w.now,
                               'labels': [list(p.label) for p in procs]})
            k += 1
    finally:
        for p in procs:
            if p.label != ['dead']:
                p.crash()
    rec['starts'] = list(w.starts)
    rec['nxt'] = list(w.nxt)
    rec['nxt_bad'] = list(w.nxt_bad)
    rec['advances'] = [a for p in procs for a in p.advances]
    return rec
