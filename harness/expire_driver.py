"""Drives the REAL execution expiration policy on in-memory sqlite (C18).

A population is a list of dicts
  {'id': int, 'kind': 'wf'|'task'|'action', 'parent': int|None, 'state': str,
   'updatedAt': int (seconds relative to T0), 'project': int}
listed parents-first.  Rows are created through the real db-api
(`create_workflow_execution` / `create_task_execution` / `create_action_execution`)
under a per-project, non-admin security context; `updated_at` is passed at
creation (the column only has an `onupdate` default, so the value sticks).
The clock the policy reads (`oslo_utils.timeutils.utcnow`) is overridden.
"""
import datetime
import signal
import traceback

T0 = datetime.datetime(2030, 1, 1, 12, 0, 0)
GROUP = 'execution_expiration_policy'
_state = {}


class EvaluationTimeout(BaseException):
    pass


def setup():
    if _state:
        return _state
    from harness import boot
    boot.boot()
    from oslo_config import cfg
    from mistral.db.v2 import api as db_api
    from mistral.db.sqlalchemy import base as b
    from mistral.db.v2.sqlalchemy import models
    from mistral import context as auth_ctx
    from mistral.services import expiration_policy
    CONF = cfg.CONF
    if CONF.database.connection.startswith('sqlite'):
        CONF.set_default('connection', 'sqlite://', group='database')
    CONF.set_default('max_overflow', -1, group='database')
    CONF.set_default('max_pool_size', 1000, group='database')
    db_api.setup_db()
    _state.update(CONF=CONF, db_api=db_api, b=b, models=models, auth_ctx=auth_ctx,
                  ep=expiration_policy)
    # foreign keys must be enforced, otherwise nothing cascades and every comparison is moot
    import sqlalchemy as sa
    with db_api.transaction():
        fk = b._get_thread_local_session().execute(sa.text('PRAGMA foreign_keys')).fetchall()
    _state['fk_on'] = bool(fk and fk[0][0] == 1)
    return _state


def dbid(n):
    return '%s%05d' % (n['kind'][0], n['id'])


def _ctx(project, admin=False):
    st = _state
    return st['auth_ctx'].MistralContext(user_id=None, project_id='proj-%s' % project,
                                         auth_token=None, is_admin=admin)


def clear_db():
    st = setup()
    import sqlalchemy as sa
    st['auth_ctx'].set_ctx(None)
    with st['db_api'].transaction():
        s = st['b']._get_thread_local_session()
        for t in ('action_executions_v2', 'workflow_executions_v2', 'task_executions_v2'):
            s.execute(sa.text('DELETE FROM %s' % t))


def insert(pop):
    st = setup()
    db_api, auth_ctx = st['db_api'], st['auth_ctx']
    by_id = {n['id']: n for n in pop}
    try:
        with db_api.transaction():
            for n in pop:
                auth_ctx.set_ctx(_ctx(n['project']))
                ts = T0 + datetime.timedelta(seconds=n['updatedAt'])
                vals = {'id': dbid(n), 'name': dbid(n), 'workflow_name': 'wf', 'state': n['state'],
                        # created_at deliberately unrelated to updated_at (a query that used the
                        # wrong column must not go unnoticed)
                        'created_at': T0 - datetime.timedelta(seconds=20000 + (n['id'] * 7919) % 9973),
                        'updated_at': ts}
                par = dbid(by_id[n['parent']]) if n['parent'] is not None else None
                if n['kind'] == 'wf':
                    vals['task_execution_id'] = par
                    db_api.create_workflow_execution(vals)
                elif n['kind'] == 'task':
                    vals['workflow_execution_id'] = par
                    db_api.create_task_execution(vals)
                else:
                    vals['task_execution_id'] = par
                    db_api.create_action_execution(vals)
    finally:
        auth_ctx.set_ctx(None)


def dump():
    """-> {dbid: (state, updated_at seconds rel. T0, project, parent dbid)} over the three tables."""
    st = setup()
    b, models = st['b'], st['models']
    out = {}
    st['auth_ctx'].set_ctx(None)
    with st['db_api'].transaction():
        for m, pcol in ((models.WorkflowExecution, 'task_execution_id'),
                        (models.TaskExecution, 'workflow_execution_id'),
                        (models.ActionExecution, 'task_execution_id')):
            for r in b.model_query(m).all():
                out[r.id] = (r.state, int((r.updated_at - T0).total_seconds()), r.project_id,
                             getattr(r, pcol))
    return out


def set_config(cfg):
    CONF = setup()['CONF']
    CONF.set_override('evaluation_interval', cfg.get('evaluationInterval'), group=GROUP)
    CONF.set_override('older_than', cfg['olderThan'], group=GROUP)
    CONF.set_override('max_finished_executions', cfg['maxFinished'], group=GROUP)
    CONF.set_override('batch_size', cfg['batchSize'], group=GROUP)
    CONF.set_override('ignored_states', list(cfg['ignoredStates']), group=GROUP)


def clear_config():
    CONF = setup()['CONF']
    for k in ('evaluation_interval', 'older_than', 'max_finished_executions', 'batch_size',
              'ignored_states'):
        CONF.clear_override(k, group=GROUP)


def _fresh_policy():
    """oslo.service keeps the registered tasks on the *class*; a process creates the policy
    object once, so start every instantiation from the pristine class state."""
    st = setup()
    cls = st['ep'].ExecutionExpirationPolicy
    cls._periodic_tasks = []
    cls._periodic_spacing = {}
    return cls(st['CONF'])


def _alarm(signum, frame):
    raise EvaluationTimeout()


def run_policy(cfg, now=0, inject=None, time_limit=20, via_periodic=False):
    """One real evaluation.  inject = {'fetch': 'expired'|'superfluous', 'call': k}: on the k-th
    call of that fetch function the first fetched row is deleted behind the policy's back (what a
    concurrent evaluator in another engine process does), so the policy's own delete raises.
    Returns {'outcome', 'exception', 'site', 'victim', 'fetches'}."""
    st = setup()
    from oslo_utils import timeutils
    from unittest import mock
    db_api, ep, auth_ctx = st['db_api'], st['ep'], st['auth_ctx']
    set_config(cfg)
    timeutils.set_time_override(T0 + datetime.timedelta(seconds=now))
    info = {'outcome': 'ok', 'exception': None, 'site': None, 'victim': None,
            'fetches': {'expired': 0, 'superfluous': 0}}
    orig = {'expired': db_api.get_expired_executions,
            'superfluous': db_api.get_superfluous_executions}

    def wrap(kind):
        def f(*a, **kw):
            res = orig[kind](*a, **kw)
            info['fetches'][kind] += 1
            if inject and inject['fetch'] == kind and info['fetches'][kind] == inject['call'] \
                    and res and info['victim'] is None:
                v = res[0]
                info['victim'] = v.id
                auth_ctx.set_ctx(auth_ctx.MistralContext(user_id=None, project_id=v.project_id,
                                                         auth_token=None, is_admin=True))
                try:
                    db_api.delete_workflow_execution(v.id)
                finally:
                    auth_ctx.set_ctx(None)
            return res
        return f

    old = signal.signal(signal.SIGALRM, _alarm)
    signal.alarm(time_limit)
    try:
        with mock.patch.object(db_api, 'get_expired_executions', wrap('expired')), \
                mock.patch.object(db_api, 'get_superfluous_executions', wrap('superfluous')):
            if via_periodic:
                pt = _fresh_policy()
                info['registered'] = len(pt._periodic_tasks)
                ctx = auth_ctx.MistralContext(user_id=None, project_id=None, auth_token=None,
                                              is_admin=True)
                pt.run_periodic_tasks(ctx)
            else:
                ep.run_execution_expiration_policy(None, None)
    except EvaluationTimeout:
        info['outcome'] = 'timeout'
    except Exception as e:
        tb = traceback.extract_tb(e.__traceback__)
        site = None
        for fr in tb:
            if fr.filename.endswith('services/expiration_policy.py'):
                site = fr.name
        info['exception'] = type(e).__name__
        info['site'] = site
        info['message'] = str(e)[:200]
        if isinstance(e, TypeError) and site == 'run_execution_expiration_policy' \
                and cfg['olderThan'] is None:
            info['outcome'] = 'crashed:olderThanUnset'
        elif isinstance(e, TypeError) and site == '_delete':
            info['outcome'] = 'crashed:deleteFailed'
        else:
            info['outcome'] = 'exception:%s@%s' % (type(e).__name__, site)
    finally:
        signal.alarm(0)
        signal.signal(signal.SIGALRM, old)
        timeutils.clear_time_override()
        auth_ctx.set_ctx(None)
        clear_config()
    return info


def policy_registered(cfg):
    """Does ExecutionExpirationPolicy.__init__ register the periodic task for this config."""
    st = setup()
    set_config(cfg)
    try:
        pt = _fresh_policy()
        return len(pt._periodic_tasks) > 0
    finally:
        clear_config()
