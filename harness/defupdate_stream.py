"""Stream `defupdate` (C14): "An accepted definition re-read from its stored form is the same definition (tasks,
transitions, policies, inputs), so a run behaves identically after an engine restart or cache eviction".

A run is started from definition v1; at a random point the workflow DEFINITION is replaced by an unrelated
accepted definition v2 of the same name (the real `update_workflows` service) and the engine is restarted (all
in-memory caches dropped).  The execution carries its own stored specification (wf_ex.spec), so
  (1) the specification the engine re-reads for the execution (`get_workflow_spec_by_execution_id`, cache miss)
      must be the stored one, and
  (2) for a deterministic program the run must finish with the same outcome as the undisturbed reference run.
Monitors only (direct reading of the statement on the real code); every choice comes from the case seed."""
import json
import random

from harness import engine_run as er
from harness import wfgen


def _spec_dict_by_execution(world, wf_ex_id):
    from mistral import context as auth_context
    from mistral.db.v2 import api as db_api
    from mistral.lang import parser as spec_parser
    auth_context.set_ctx(world.ctx)
    with db_api.transaction():
        wf_ex = db_api.get_workflow_execution(wf_ex_id)
        stored = spec_parser.get_workflow_spec(wf_ex.spec).to_dict()
        spec_parser.clear_caches()
        reread = spec_parser.get_workflow_spec_by_execution_id(wf_ex_id).to_dict()
    return stored, reread


def run_case(ctx, case):
    from harness.engine_driver import EngineWorld
    from harness import engine_stream
    prog, y1, y2, table, policy, seed, at = (case['prog'], case['yaml'], case['yaml2'], case['oracle'], case['policy'],
                                             case['seed'], case['at'])
    w0 = EngineWorld(seed=seed)
    ref = er.run_case(w0, [y1], 'wf', {}, er.Oracle(table), random.Random(seed), policy=policy)
    ops = [{'at': at, 'op': 'update_def', 'yaml': y2}, {'at': at, 'op': 'restart'}]
    w = EngineWorld(seed=seed)
    tr = er.run_case(w, [y1], 'wf', {}, er.Oracle(table), random.Random(seed), policy=policy,
                     ops=[dict(o) for o in ops])
    applied = any(d[0] == 'op' and d[1] == 'update_def' for d, _ in tr.events)
    ctx.count('defupdate', 'update-applied' if applied else 'update-after-the-end')
    ctx.evaluated('defupdate', [y1, y2, table, policy, seed, at], nontrivial=applied and ref.steps > at)
    rep = {'stream': 'defupdate', 'case': case}
    if applied and tr.final['wfs']:
        root = tr.final['wfs'][0]['id']
        try:
            stored, reread = _spec_dict_by_execution(w, root)
        except Exception as e:                      # an undeclared error here is C14's "internal error" clause
            ctx.violation('re-reading the specification of an execution raised %s: %s' % (type(e).__name__, str(e)[:200]),
                          rep, {'kind': 'exec-spec-reread-raises', 'exc': type(e).__name__})
            stored = reread = None
        if stored != reread:
            ctx.violation('the specification re-read for a running execution after its definition was updated and the '
                          'caches were dropped is not the one stored with the execution: tasks %s vs %s'
                          % (sorted((stored or {}).get('tasks', {})), sorted((reread or {}).get('tasks', {}))),
                          rep, {'kind': 'exec-spec-reread-differs-after-definition-update'})
    if applied and engine_stream.deterministic_class(prog) and not ref.exhausted and not tr.exhausted:
        a, b = er.outcome(ref.final), er.outcome(tr.final)
        if a != b:
            ctx.violation('a run whose definition was updated meanwhile finishes differently after an engine restart: '
                          '%s vs %s' % (json.dumps(a, default=str)[:200], json.dumps(b, default=str)[:200]),
                          rep, {'kind': 'run-follows-updated-definition-after-restart'})


def gen_case(rng):
    prog = wfgen.gen_program(rng)
    prog2 = wfgen.gen_program(rng)
    # v2: other task names, so that following v2 cannot go unnoticed
    y2 = wfgen.render_yaml(prog2)
    for i in range(12, -1, -1):
        y2 = y2.replace('t%d' % i, 'u%d' % i)
    return {'prog': prog, 'yaml': wfgen.render_yaml(prog), 'yaml2': y2,
            'oracle': wfgen.gen_oracle_table(rng, prog, p_err=0.08),
            'policy': rng.choice(['random', 'fifo', 'lifo']), 'seed': rng.getrandbits(32), 'at': rng.randint(1, 14)}


def run_chunk(ctx, n_cases):
    from mistral import exceptions as exc
    for _ in range(n_cases):
        case = gen_case(ctx.rng)
        try:
            run_case(ctx, case)
        except exc.MistralException as e:
            ctx.count('defupdate', 'rejected:' + type(e).__name__)


def replay(ctx, rep):
    run_case(ctx, (rep.get('replay') or rep)['case'])
