"""C14 Tie B: Lean model (Model/Lang.lean through the compiled driver) vs the real functions.

streams
  cut    cutDef                      vs  mistral.lang.parser._parse_def_from_wb
  norm   normWfList                  vs  WorkflowListSpec construction (to_dict() afterwards)
  graph  validateGraph / outbound /  vs  Direct/ReverseWorkflowSpec semantic validation and
         inbound / startTasks            find_outbound_task_names / find_inbound_task_specs / find_start_tasks
  witness  the counter-witnesses of cutDef_correct_full_fails replayed on create_workbook_v2
"""
import copy
import json

from harness import lang_env as E
from harness import lang_gen as G


# ------------------------------------------------------------------ cut
SOUP = ['  ', ' ', '    ', '\t', 'wf1:', 'wf2:', 'workflows:', 'actions:', '#', '# c', 'tasks:', 'a: b', '\n', '\n', '\n',
        '\r', '\x0b', ' ', '\xa0', 'x', ':', '- ', 'wf1', ' wf1: ', 'wf1:#', '\x0c', '　', '\x1f', '\x85',
        'workflows', 'workflows: ', 'my_workflows:', '"', "'"]


def cut_cases(ctx, st, pool):
    rng = ctx.rng
    cases = []      # (text, section, item, origin)
    for name, text in G.TEXT_DOCS:
        if name.startswith('wb-'):
            for sec in ('workflows:', 'actions:'):
                for item in ('wf1', 'wf2', 'a1', 'a2', 't1', 'tasks', 'nope'):
                    cases.append((text, sec, item, 'corner:' + name))
    wbs = [d for o, d in pool if isinstance(d, dict) and ('workflows' in d or 'actions' in d)]
    n_wb = ctx.n(300, 3000)
    for i in range(n_wb):
        if wbs and rng.random() < 0.4:
            d = rng.choice(wbs)
        else:
            d = G.gen_workbook(rng, clash=rng.random() < 0.3)['dict']
        style = rng.choice(['block', 'block', 'indent4', 'header', 'flowish'])
        text = G.dump(d, style=style)
        if rng.random() < 0.4 and style != 'flowish':
            text = G.decorate(text, rng)
        if rng.random() < 0.1:
            text = G.mutate_text(text, rng)[0]
        if '\x00' in text:
            continue
        for sec in ('workflows', 'actions'):
            names = list((d.get(sec) or {}).keys()) if isinstance(d.get(sec), dict) else []
            extra = []
            for w in (d.get('workflows') or {}).values() if isinstance(d.get('workflows'), dict) else []:
                if isinstance(w, dict) and isinstance(w.get('tasks'), dict):
                    extra += list(w['tasks'].keys())[:2]
            for item in [n for n in names if isinstance(n, str)] + extra[:3] + ['tasks', 'absent_item']:
                if isinstance(item, str):
                    cases.append((text, sec + ':', item, 'wb:' + style))
    for i in range(ctx.n(2500, 30000)):
        k = rng.randint(1, 30)
        text = ''.join(rng.choice(SOUP) for _ in range(k))
        cases.append((text, rng.choice(['workflows:', 'actions:', 'wf1:']), rng.choice(['wf1', 'wf2', 'tasks', 'x', '#', '']),
                      'soup'))
    return cases


def run_cut(ctx, st, pool):
    sp = st['sp']
    drv = ctx.driver()
    cases = cut_cases(ctx, st, pool)
    impl = []
    for text, sec, item, origin in cases:
        try:
            r = sp._parse_def_from_wb(text, sec, item + ':')
        except ValueError:
            r = None
        impl.append(r)
    outs = drv.batch('lang.cutDef', [{'wb': t, 'sec': s, 'item': i + ':'} for t, s, i, _ in cases])
    for (text, sec, item, origin), io, mo in zip(cases, impl, outs):
        found = io is not None and io != '\n'
        ctx.evaluated('cut', [text, sec, item], nontrivial=found)
        ctx.count('cut', 'origin:' + origin.split(':')[0])
        ctx.count('cut', 'found' if found else ('no-section' if io is None else 'item-not-found'))
        if mo != io:
            ctx.disagree('cut', {'wb': text, 'sec': sec, 'item': item + ':', 'origin': origin}, mo, io)
    if cases:
        t, s, i, _ = cases[0]
        ctx.sample({'stream': 'cut', 'wb': t[:200], 'sec': s, 'item': i, 'impl': impl[0], 'model': outs[0]})


# ------------------------------------------------------------------ verified cut (repo patch 31)
def run_memberdef(ctx, st, pool):
    """Model `memberDefinition` / `cutVerified` vs parser.get_workflow_definition / get_action_definition, with the
    YAML oracle answered by the real parse_yaml / safe_yaml.dump; stream `yamlrt` ties the one assumption of
    `cut_is_the_member`: a dumped member parses back to itself."""
    sp = st['sp']
    exc = st['exc']
    from mistral.utils import safe_yaml
    drv = ctx.driver()
    cases = [c for c in cut_cases(ctx, st, pool) if c[1] in ('workflows:', 'actions:')]
    cases = cases[:ctx.n(1500, 6000)]
    cuts = drv.batch('lang.cutDef', [{'wb': t, 'sec': s, 'item': i + ':'} for t, s, i, _ in cases])
    args = []
    impl = []
    members = []
    parsed_cache = {}
    for (text, sec, item, origin), mcut in zip(cases, cuts):
        secname = sec[:-1]
        if text not in parsed_cache:
            try:
                parsed_cache[text] = sp.parse_yaml(text)
            except exc.DSLParsingException:
                parsed_cache[text] = None
            except Exception:
                parsed_cache[text] = None
        d = parsed_cache[text]
        section = d.get(secname) if isinstance(d, dict) else None
        known = isinstance(section, dict) and item in section
        member = {item: section[item]} if known else None
        cut_parses = False
        dump = ''
        if known:
            if mcut is not None:
                try:
                    cut_parses = sp.parse_yaml(mcut) == member
                except exc.DSLParsingException:
                    cut_parses = False
            dump = safe_yaml.dump(member, default_flow_style=False, sort_keys=False)
        fn = sp.get_workflow_definition if secname == 'workflows' else sp.get_action_definition
        kind, det, r = E.guarded(lambda: fn(text, item), 1.0)
        if kind == 'ok':
            impl.append(r)
        elif kind == 'undeclared' and det['exc'] == 'ValueError':
            impl.append(None)
        else:
            impl.append({'error': det})
        members.append((known, member, cut_parses))
        args.append({'wb': text, 'sec': secname, 'name': item, 'known': known, 'cutParses': cut_parses, 'dump': dump})
    outs = drv.batch('lang.cutVerified', args)
    seen_rt = set()
    for (text, sec, item, origin), a, io, mo, (known, member, cut_parses) in zip(cases, args, impl, outs, members):
        ctx.evaluated('memberdef', [text, sec, item], nontrivial=known)
        ctx.count('memberdef', 'origin:' + origin.split(':')[0])
        if known:
            ctx.count('memberdef', 'cut-kept' if cut_parses else 'cut-replaced-by-dump')
        else:
            ctx.count('memberdef', 'member-unknown:' + ('no-section' if io is None else 'plain-cut'))
        if mo != io:
            ctx.disagree('memberdef', {'wb': text, 'sec': sec, 'item': item, 'origin': origin, 'known': known,
                                       'cutParses': cut_parses}, mo, io)
        if known:
            # monitor (the statement itself): the text returned for a member of the parsed workbook is that member
            ok = False
            if isinstance(io, str):
                try:
                    ok = sp.parse_yaml(io) == member
                except exc.DSLParsingException:
                    ok = False
            if not ok:
                ctx.violation('the definition text of %s member %r of a workbook is not that member: %r' % (
                    sec[:-1], item, io if not isinstance(io, str) else io[:80]),
                    {'kind': 'memberdef', 'text': text, 'section': sec[:-1], 'member': item},
                    {'kind': 'member-definition-wrong', 'how': 'raises' if not isinstance(io, str) else 'other-text'})
            # the assumption of cut_is_the_member
            key = a['dump']
            if key not in seen_rt:
                seen_rt.add(key)
                try:
                    rt = sp.parse_yaml(a['dump']) == member
                except exc.DSLParsingException:
                    rt = False
                ctx.evaluated('yamlrt', key, nontrivial=True)
                if not rt:
                    ctx.disagree('yamlrt', {'member': repr(member)[:300], 'dump': a['dump'][:300]}, 'parse(dump m) = m', 'differs')


# ------------------------------------------------------------------ norm
class NotEncodable(Exception):
    pass


def enc(v):
    """JSON transport of a definition dict that keeps the key order (Lean's Json objects are sorted):
    dict -> {"o": [[k, v], ...]}, list -> {"a": [...]}."""
    if v is None or isinstance(v, (bool, str)):
        return v
    if isinstance(v, int):
        if abs(v) > 2 ** 62:
            return '<bigint>%d' % v
        return v
    if isinstance(v, float):
        return '<float>%r' % v
    if isinstance(v, dict):
        out = []
        for k, x in v.items():
            if not isinstance(k, str):
                raise NotEncodable()
            out.append([k, enc(x)])
        return {'o': out}
    if isinstance(v, (list, tuple)):
        return {'a': [enc(x) for x in v]}
    return '<%s>%s' % (type(v).__name__, v)


def canon_enc(x):
    """order-insensitive canonical form of an enc() value (Python dict equality ignores order)."""
    def dec(v):
        if isinstance(v, dict) and 'o' in v and len(v) == 1:
            return {'__o__': sorted(([k, dec(x)] for k, x in v['o']), key=lambda p: p[0])}
        if isinstance(v, dict) and 'a' in v and len(v) == 1:
            return [dec(x) for x in v['a']]
        if isinstance(v, dict):
            return {k: dec(x) for k, x in v.items()}
        return v
    return json.dumps(dec(x), sort_keys=True)


def inline_oracle(st, d):
    """{wf: {task: [{k, v}]}}: inline key=value parameters, parsed by the real regular expressions."""
    lb = st['lang_base']
    out = {}
    for wn, w in d.items():
        if wn == 'version' or not isinstance(w, dict) or not isinstance(w.get('tasks'), dict):
            continue
        for tn, t in w['tasks'].items():
            if not isinstance(t, dict):
                continue
            s = t.get('action') or t.get('workflow')
            if isinstance(s, str):
                try:
                    params = lb.BaseSpec._parse_cmd_and_input(s)[1]
                except Exception:
                    continue
                if params:
                    out.setdefault(wn, {})[tn] = [{'k': k, 'v': enc(v)} for k, v in params.items()]
    return out


def inline_on_non_dict_input(d, inl):
    for wn, ts in inl.items():
        for tn in ts:
            t = d[wn]['tasks'][tn]
            if 'input' in t and t['input'] is not None and not isinstance(t['input'], dict):
                return True
    return False


def run_norm(ctx, st, pool):
    sp = st['sp']
    drv = ctx.driver()
    rng = ctx.rng
    docs = []
    for origin, d in pool:
        if isinstance(d, dict) and kind_wf(d):
            docs.append((origin, d))
    for i in range(ctx.n(700, 8000)):
        g = G.gen_wf_list(rng)
        docs.append(('gen', g['dict']))
        if rng.random() < 0.5 and docs:
            m, desc = G.mutate_struct(rng.choice(docs)[1], rng)
            if isinstance(m, dict):
                docs.append(('mut:' + desc['op'], m))
    hand = [
        ('hand', {'version': '2.0', 'wf': 'str'}), ('hand', {'version': '2.0', 'wf': {'type': 'reverse'}}),
        ('hand', {'version': '2.0', 'wf': {'tasks': {'t': 'x'}}}), ('hand', {'version': '2.0', 'wf': {'tasks': ['t']}}),
        ('hand', {'version': '2.0', 'wf': {'tasks': {'version': {'action': 'a'}, 't': {'action': 'std.echo output=1', 'input': {'output': 2, 'x': 1}}}}}),
        ('hand', {'version': '2.0', 'version2': {'tasks': {'t': {'name': 'zz', 'version': 1, 'type': 'q'}}, 'name': 'n', 'version': 3, 'type': 'reverse'}}),
        ('hand', {'wf': {'tasks': {'t': {}}}}),
    ]
    docs += hand
    args, meta = [], []
    for origin, d in docs:
        try:
            e = enc(copy.deepcopy(d))
            inl = inline_oracle(st, d)
        except NotEncodable:
            ctx.count('norm', 'skipped-non-string-key')
            continue
        if inline_on_non_dict_input(d, inl):
            # TypeError of merge_dicts(<str/list/number>, params): known finding, outside normTask's domain
            ctx.count('norm', 'skipped-inline-params-with-non-dict-input')
            continue
        dd = copy.deepcopy(d)
        try:
            spec = sp.get_workflow_list_spec(dd, False)
            impl = {'ok': enc(spec.to_dict())}
        except TypeError as ex:
            impl = {'err': 'notADict'} if 'item assignment' in str(ex) else {'err': 'TypeError:' + str(ex)[:60]}
        except AttributeError as ex:
            impl = {'err': 'noTasks'} if "'values'" in str(ex) else {'err': 'AttributeError:' + str(ex)[:60]}
        except NotEncodable:
            continue
        except Exception as ex:
            # construction without validation failed later for a reason outside normalisation
            ctx.count('norm', 'skipped-other-error:' + type(ex).__name__)
            continue
        if 'err' in impl and impl['err'] not in ('notADict', 'noTasks'):
            ctx.count('norm', 'skipped-other-error')
            continue
        args.append({'d': e, 'inline': inl})
        meta.append((origin, d, impl, bool(inl), spec if 'ok' in impl else None))
    outs = drv.batch('lang.normWfList', args)
    for (origin, d, impl, has_inl, spec), a, mo in zip(meta, args, outs):
        nontriv = 'ok' in impl
        ctx.evaluated('norm', json.dumps(a, sort_keys=True), nontrivial=nontriv)
        ctx.count('norm', 'origin:' + origin.split(':')[0].split('<')[0])
        ctx.count('norm', 'impl:' + ('ok' if 'ok' in impl else impl['err']))
        if has_inl:
            ctx.count('norm', 'with-inline-params')
        if canon_enc(mo) != canon_enc(impl):
            ctx.disagree('norm', {'d': a['d'], 'inline': a['inline'], 'origin': origin}, mo, impl)
        elif 'ok' in impl:
            # idempotence on the real code as well: constructing again from to_dict() changes nothing
            again = sp.get_workflow_list_spec(copy.deepcopy(spec.to_dict()), False).to_dict()
            if enc(again) != impl['ok']:
                ctx.violation('constructing a workflow list from its own to_dict() changes the dict',
                              {'kind': 'norm', 'd': a['d']}, {'kind': 'norm-not-idempotent'})


def kind_wf(d):
    if 'workflows' in d or 'actions' in d or 'name' in d:
        return False
    for k, v in d.items():
        if k != 'version' and isinstance(v, dict) and 'base' in v:
            return False
    return True


# ------------------------------------------------------------------ graph
def classify_graph_error(e):
    m = str(e)
    if 'Failed to find start tasks' in m:
        return 'noStartTasks'
    if 'not found.' in m and m.startswith("Task '"):
        return 'taskNotFound'
    if "No inbound tasks for task with 'join: all'" in m or "Not enough inbound tasks for task with 'join'" in m:
        return 'joinInbound'
    if "cyclic 'requires'" in m:
        return 'requiresCycle'
    return 'other:' + m[:80]


def graph_case(st, wf):
    sp, exc = st['sp'], st['exc']
    d = {'version': '2.0', wf['name']: G.render_wf(wf)}
    try:
        sp.get_workflow_list_spec(copy.deepcopy(d), True)
        verdict = 'ok'
    except exc.DSLParsingException as e:
        verdict = classify_graph_error(e)
    spec = sp.get_workflow_list_spec(copy.deepcopy(d), False).get_workflows()[0]
    obs = {'verdict': verdict}
    obs_next = {}
    if wf['type'] == 'direct':
        for t in spec.get_tasks():
            for c, g in (('on-success', t.get_on_success), ('on-error', t.get_on_error),
                         ('on-complete', t.get_on_complete), ('on-skip', t.get_on_skip)):
                oc = g()
                if oc is not None:
                    obs_next[(t.get_name(), c)] = [x[0] for x in oc.get_next()]
        td = spec.get_task_defaults()
        if td is not None:
            for c, g in (('on-success', td.get_on_success), ('on-error', td.get_on_error),
                         ('on-complete', td.get_on_complete), ('on-skip', td.get_on_skip)):
                oc = g()
                if oc is not None:
                    obs_next[('<task-defaults>', c)] = [x[0] for x in oc.get_next()]
    obs['_next'] = obs_next
    if wf['type'] == 'direct':
        obs['start'] = sorted(t.get_name() for t in spec.find_start_tasks())
        obs['out'] = {t.get_name(): sorted(spec.find_outbound_task_names(t.get_name())) for t in spec.get_tasks()}
        obs['in'] = {t.get_name(): sorted(s.get_name() for s in spec.find_inbound_task_specs(t)) for t in spec.get_tasks()}
    else:
        obs['requires'] = {t.get_name(): sorted(spec.get_task_requires(t)) for t in spec.get_tasks()}
    return d, obs


def canon_model_graph(mo, reverse):
    if not isinstance(mo, dict):
        return mo
    out = {'verdict': mo['verdict']}
    if not reverse:
        out['start'] = sorted(mo['start'])
        out['out'] = {k: sorted(set(v)) for k, v in mo['out'].items()}
        out['in'] = {k: sorted(set(v)) for k, v in mo['in'].items()}
    else:
        out['requires'] = {k: sorted(set(v)) for k, v in mo['requires'].items()}
    return out


def inject_requires_cycle(rng, wf):
    """cyclic-requires case classes of a reverse workflow: two tasks requiring each other, a longer cycle,
    a cycle through task-defaults requires, a task that only names itself (accepted).  Returns the class."""
    ts = wf['tasks']

    def lst(t):
        r = t['requires']
        return [r] if isinstance(r, str) else list(r or [])
    kind = rng.choice(['mutual', 'long', 'defaults', 'self'])
    if kind in ('mutual', 'long') and len(ts) >= 2:
        k = 2 if kind == 'mutual' else rng.randint(2, len(ts))
        ring = rng.sample(ts, k)
        for a, b in zip(ring, ring[1:] + ring[:1]):
            a['requires'] = sorted(set(lst(a)) | {b['name']})
        return 'cycle-%d' % k
    if kind == 'defaults' and len(ts) >= 2:
        a, b = rng.sample(ts, 2)
        wf['defaults'] = wf['defaults'] or {'clauses': {}, 'body': {}}
        wf['defaults']['requires'] = [a['name']]
        a['requires'] = sorted(set(lst(a)) | {b['name']})
        return 'cycle-defaults'
    t = rng.choice(ts)
    t['requires'] = sorted(set(lst(t)) | {t['name']})
    return 'self'


def requires_cycle(wf):
    """independent reading: is there a cycle in requires (own + task-defaults, minus self) among existing tasks"""
    names = [t['name'] for t in wf['tasks']]
    dreq = wf['defaults'].get('requires') if wf['defaults'] else None
    dreq = [dreq] if isinstance(dreq, str) else (dreq or [])
    req = {}
    for t in wf['tasks']:
        r = t['requires']
        r = [r] if isinstance(r, str) else (r or [])
        req.setdefault(t['name'], set((set(r) | set(dreq)) - {t['name']}))
    color = {}

    def visit(x):
        color[x] = 1
        for y in req.get(x, ()):
            if y in req and (color.get(y) == 1 or (color.get(y) is None and visit(y))):
                return True
        color[x] = 2
        return False
    return any(color.get(x) is None and visit(x) for x in names)


def run_graph(ctx, st, n=None, monitor=True):
    rng = ctx.rng
    drv = ctx.driver()
    n = n or ctx.n(1500, 15000)
    wfs, args, impls = [], [], []
    for i in range(n):
        wf = G.gen_wf(rng, 'wf', wild=rng.random() < 0.7, size=rng.choice([1, 2, 2, 3, 3, 4, 5, 6]))
        if wf['type'] == 'reverse' and rng.random() < 0.25:
            ctx.count('graph', 'requires-case:' + inject_requires_cycle(rng, wf))
        # keep graph names distinct from YAML-special strings handled by the lang stream
        if any(t['name'] in ('1', 'true') for t in wf['tasks']):
            continue
        try:
            d, obs = graph_case(st, wf)
        except Exception as e:
            (site, line), lib = E.site_of(e.__traceback__, st['pkg_dir'])
            ctx.violation('graph functions of an un-validated generated workflow raise %s at %s' % (type(e).__name__, site),
                          {'kind': 'graph', 'wf': wf}, {'kind': 'graph-raises', 'exc': type(e).__name__, 'site': site})
            continue
        wfs.append((wf, d))
        args.append(G.graph_args(wf))
        impls.append(obs)
    outs = drv.batch('lang.graph', args)
    for (wf, d), a, io, mo in zip(wfs, args, impls, outs):
        rev = wf['type'] == 'reverse'
        nexts = io.pop('_next')
        # monitor: the transitions of the specification are the transitions written (per clause, by form)
        lost = False
        owners = list(wf['tasks'])
        if wf['defaults'] and not rev:
            owners.append({'name': '<task-defaults>', 'clauses': wf['defaults']['clauses']})
        for t in owners:
            for c, cl in t['clauses'].items():
                written = [e['target'] for e in cl['entries']]
                got = nexts.get((t['name'], c), [])
                if got != written:
                    lost = True
                    form = cl['form'] + ('-guarded' if cl['entries'][0]['guard'] else '')
                    ctx.count('graph', 'transition-lost:' + form)
                    if io['verdict'] == 'ok' and monitor:
                        ctx.violation('accepted workflow: %s of task %r written as %r (form %s) yields transitions %r, written %r' % (
                            c, t['name'], G.render_clause(cl), form, got, written),
                            {'kind': 'doc', 'entry': 'parse.wf', 'text': G.dump(d, style='block'), 'origin': 'graph'},
                            {'kind': 'accepted-transition-lost', 'form': form})
        mo_c = canon_model_graph(mo, rev)
        has_edges = any(t['clauses'] or t['requires'] or t['join'] for t in wf['tasks']) or bool(wf['defaults'])
        ctx.evaluated('graph', a, nontrivial=has_edges)
        ctx.count('graph', 'verdict:' + io['verdict'].split(':')[0])
        ctx.count('graph', 'type:' + wf['type'])
        if wf['defaults']:
            ctx.count('graph', 'with-task-defaults')
        if any(t['join'] for t in wf['tasks']):
            ctx.count('graph', 'with-join')
        for t in wf['tasks']:
            for c, cl in t['clauses'].items():
                ctx.count('graph', 'clause-form:' + cl['form'])
        if io['verdict'].startswith('other:'):
            # rejected for a reason outside the graph model: the model must not be compared on the verdict
            ctx.count('graph', 'non-graph-reject')
            mo_c = dict(mo_c, verdict=io['verdict'])
        if mo_c != io:
            ctx.disagree('graph', {'args': a, 'dict': d}, mo_c, io)
        if monitor and io['verdict'] == 'ok' and not lost:
            # property reading (independent of the model): accepted => targets exist, joins have inbound, a start task exists
            names = {t['name'] for t in wf['tasks']}
            bad = None
            if not rev:
                for t in wf['tasks']:
                    for x in G.outbound(wf, t['name']):
                        if x not in names and x not in G.ENGINE_CMDS:
                            bad = 'transition target %r of %r does not exist' % (x, t['name'])
                    j = t['join']
                    inb = G.inbound_count(wf, t['name'])
                    if j == 'all' and inb == 0 or isinstance(j, int) and j and inb < j or j == 'one' and inb < 1:
                        bad = 'join %r of %r has %d inbound tasks' % (j, t['name'], inb)
                if all(G.inbound_count(wf, t['name']) > 0 for t in wf['tasks']):
                    bad = 'no start task'
            else:
                dreq = wf['defaults'].get('requires') if wf['defaults'] else None
                dreq = [dreq] if isinstance(dreq, str) else (dreq or [])
                for t in wf['tasks']:
                    r = t['requires']
                    r = [r] if isinstance(r, str) else (r or [])
                    for x in set(r + dreq) - {t['name']}:
                        if x not in names:
                            bad = 'requirement %r of %r does not exist' % (x, t['name'])
                if not bad and requires_cycle(wf):
                    bad = 'requires-cycle: the tasks of the accepted reverse workflow require each other'
            if bad:
                ctx.violation('validation accepted a workflow that is not well-formed: ' + bad,
                              {'kind': 'graph', 'wf': wf, 'dict': d}, {'kind': 'accepted-not-wellformed', 'what': bad.split(' ')[0]})
    if wfs:
        ctx.sample({'stream': 'graph', 'args': args[0], 'impl': impls[0], 'model': outs[0]})


# ------------------------------------------------------------------ witness replay
WITNESSES = {
    # must equal the Lean terms Mistral.Props.C14.witnessTaskClash / witnessSectionEarlier (checked through the driver)
    'taskClash': "version: '2.0'\nname: wb\nworkflows:\n  wf1:\n    tasks:\n      wf2:\n        action: std.noop\n  wf2:\n    tasks:\n      t1:\n        action: std.fail\n",
    'sectionEarlier': "version: '2.0'\nname: wb\ndescription: 'my workflows: all'\nactions:\n  wf1:\n    base: std.noop\nworkflows:\n  wf1:\n    tasks:\n      t1:\n        action: std.noop\n",
}


def run_witness(ctx, st):
    """The counter-witnesses of cutDef_correct_full_fails (what the plain text cut gets wrong), replayed end to end
    on the real service: the cut itself is still wrong (model == _parse_def_from_wb), the STORED definition must be
    the member (theorem cut_is_the_member / witnesses_repaired)."""
    sp, db_api = st['sp'], st['db_api']
    drv = ctx.driver()
    for wname, (member, want_clash) in (('taskClash', ('wf2', 'earlier-line-equals-member-name')),
                                        ('sectionEarlier', ('wf1', 'section-keyword-occurs-earlier'))):
        text = WITNESSES[wname]
        lean_text = drv.call('lang.witness', {'name': wname})
        ctx.evaluated('witness', wname, nontrivial=True)
        if lean_text != text:
            ctx.disagree('witness', {'name': wname, 'what': 'witness text of the Lean theorem and of the harness differ'}, lean_text, text)
            continue
        mo = drv.call('lang.cutDef', {'wb': text, 'sec': 'workflows:', 'item': member + ':'})
        io = sp._parse_def_from_wb(text, 'workflows:', member + ':')
        if mo != io:
            ctx.disagree('witness', {'name': wname}, mo, io)
        kind, det, _ = E.guarded(lambda: st['wb_service'].create_workbook_v2(text), 1)
        try:
            if kind != 'ok':
                ctx.disagree('witness', {'name': wname, 'what': 'witness workbook not accepted'}, 'accepted', det)
                continue
            with db_api.transaction(read_only=True):
                row = db_api.get_workflow_definition('wb.' + member)
                stored = row.definition
                row_spec = E.dcopy(dict(row.spec))
            want = sp.get_workflow_spec(row_spec)
            cut_text = "version: '2.0'\n" + stored
            k2, d2, lst = E.guarded(lambda: sp.get_workflow_list_spec_from_yaml(cut_text, validate=True).get_workflows(), 1)
            same = k2 == 'ok' and len(lst) == 1 and E.observe(lst[0]) == E.observe(want)
            ctx.count('witness', '%s:%s' % (wname, 'stored-definition-is-the-member' if same else 'stored-definition-is-NOT-the-member'))
            if not same:
                ctx.violation('text cut out of workbook for workflows member %r is not that member (%s): %r' % (member, want_clash, stored[:80]),
                              {'kind': 'doc', 'entry': 'parse.wb', 'text': text, 'origin': 'witness:' + wname, 'member': member, 'cut': stored},
                              {'kind': 'cut-from-workbook-wrong', 'layout': 'plain', 'clash': want_clash})
            # since repo patch 31 (verified cut) the witnesses are regressions: the stored definition is the member
        finally:
            E.clean_db()


# ------------------------------------------------------------------ entry points used by props/C14.py
def correspond_model(ctx, st, pool):
    run_cut(ctx, st, pool)
    run_memberdef(ctx, st, pool)
    run_norm(ctx, st, pool)
    run_graph(ctx, st)
    run_witness(ctx, st)


def search_model(ctx, st):
    """Widen: more graphs with the independent well-formedness monitor, and clash workbooks through the service."""
    run_graph(ctx, st, n=3000)


def replay_model(ctx, st, r):
    if r.get('kind') == 'graph':
        d, obs = graph_case(st, r['wf'])
        print('replay graph: impl', obs)
        if obs['verdict'] == 'ok':
            ctx.violation('validation accepted a workflow that is not well-formed', r, {'kind': 'accepted-not-wellformed'})
    elif r.get('kind') == 'memberdef':
        sp = st['sp']
        fn = sp.get_workflow_definition if r['section'] == 'workflows' else sp.get_action_definition
        kind, det, out = E.guarded(lambda: fn(r['text'], r['member']), 1.0)
        member = {r['member']: sp.parse_yaml(r['text'])[r['section']][r['member']]}
        ok = kind == 'ok' and sp.parse_yaml(out) == member
        print('replay memberdef: %s %r -> %r: %s' % (kind, r['member'], (out or det), 'is the member' if ok else 'NOT the member'))
        if not ok:
            ctx.violation('the definition text of a workbook member is not that member', r,
                          {'kind': 'member-definition-wrong', 'how': 'raises' if kind != 'ok' else 'other-text'})
    elif r.get('kind') == 'norm':
        print('replay norm: see stream norm')
