"""Stream `lifecycle`: EVERY state x EVERY operation on the real workflow / task / action objects
(finite, exhaustive) vs Mistral.Lifecycle.  The real operation is issued through the same entry
points the API / engine use; the row is put into the start state directly in the database."""

WF = """
version: '2.0'
wf:
  output-on-error:
    e: 1
  tasks:
    a:
      action: std.noop
"""

ALL = ['IDLE', 'WAITING', 'RUNNING', 'DELAYED', 'PAUSED', 'SUCCESS', 'CANCELLED', 'ERROR', 'SKIPPED']
WF_STATES = ['IDLE', 'RUNNING', 'PAUSED', 'SUCCESS', 'ERROR', 'CANCELLED']


def _fresh(world):
    """a started workflow with its only task created but not run"""
    world._reset()
    world.create_workflows(WF)
    wid = world.start_workflow('wf', {})
    snap = world.snapshot()
    tid = snap['tasks'][0]['id']
    world.errors[:] = []
    return wid, tid


def _set(world, model, id_, **vals):
    from mistral.db.v2 import api as db_api
    from mistral.db.v2.sqlalchemy import models
    from mistral.db.sqlalchemy import base as b
    with db_api.transaction():
        s = b._get_thread_local_session()
        obj = s.get(getattr(models, model), id_)
        for k, v in vals.items():
            setattr(obj, k, v)


def _res(world, before, after):
    if world.errors:
        return 'declaredError' if world.errors[-1]['declared'] else 'undeclaredError'
    return 'ok'


def wf_case(world, state, op, arg):
    from mistral.db.v2 import api as db_api
    from mistral.engine import workflow_handler as wfh
    wid, tid = _fresh(world)
    if op == 'complete':
        tstate = {'SUCCESS': 'SUCCESS', 'ERROR': 'ERROR', 'CANCELLED': 'CANCELLED'}[arg]
        _set(world, 'TaskExecution', tid, state=tstate, processed=True, error_handled=False)
    if op == 'rerun':
        _set(world, 'TaskExecution', tid, state='ERROR', processed=True)
    _set(world, 'WorkflowExecution', wid, state=state)
    world.errors[:] = []
    if op == 'pause':
        world.op('pause_workflow', wid)
    elif op == 'resume':
        world.op('resume_workflow', wid)
    elif op == 'stop':
        world.op('stop_workflow', wid, arg, 'msg')
    elif op == 'rerun':
        world.op('rerun_workflow', tid)
    elif op == 'start':
        def f():
            from mistral.engine import workflows
            with db_api.transaction():
                w = workflows.Workflow(wf_ex=db_api.get_workflow_execution(wid))
                w.set_state('RUNNING')
        world._call('start', f)
    elif op == 'complete':
        def f():
            with db_api.transaction():
                wfh.check_and_complete(wid)
        world._call('complete', f)
    after = [w for w in world.snapshot()['wfs'] if w['id'] == wid][0]
    return {'state': after['state'], 'res': _res(world, state, after['state'])}, after


def wf_cases():
    for s in WF_STATES:
        if s == 'IDLE':
            yield s, 'start', None
        yield s, 'pause', None
        yield s, 'resume', None
        yield s, 'rerun', None
        for t in ALL:
            yield s, 'stop', t
        for o in ('SUCCESS', 'ERROR', 'CANCELLED'):
            yield s, 'complete', o


def task_case(world, state, op, arg):
    from mistral.db.v2 import api as db_api
    from mistral.engine import task_handler
    from mistral.lang import parser as spec_parser
    wid, tid = _fresh(world)
    _set(world, 'TaskExecution', tid, state=state)
    world.errors[:] = []

    def f():
        with db_api.transaction():
            t_ex = db_api.get_task_execution(tid)
            wf_spec = spec_parser.get_workflow_spec_by_execution_id(wid)
            task = task_handler.build_task_from_execution(wf_spec, t_ex)
            if op == 'complete':
                # avoid side effects of policies/dispatch: the state decision is what is compared
                task.complete(arg, 'info')
            elif op == 'update':
                task.update(arg, 'info')
            elif op == 'setState':
                task.set_state(arg, 'info')
            elif op == 'forceFail':
                task_handler.force_fail_task(t_ex, 'forced')
            elif op == 'defer':
                # a further inbound branch routes to the (existing) join execution: the command
                # builds a Task without task_ex, found again through its unique key
                from mistral.engine import tasks as etasks
                t_ex.unique_key = 'k'
                t2 = etasks.RegularTask(t_ex.workflow_execution, wf_spec, wf_spec.get_task(t_ex.name), {},
                                        unique_key='k', waiting=True)
                t2.defer()
    from mistral.engine import post_tx_queue
    world._call('task', post_tx_queue.run(f))
    after = [t for t in world.snapshot()['tasks'] if t['id'] == tid][0]
    return {'state': after['state'], 'res': _res(world, state, after['state'])}


def task_cases():
    for s in ALL:
        yield s, 'defer', None
        yield s, 'forceFail', None
        for t in ALL:
            yield s, 'update', t
        for t in ('SUCCESS', 'ERROR', 'CANCELLED', 'SKIPPED'):
            yield s, 'complete', t


def action_case(world, state, accepted, result):
    from mistral.db.v2 import api as db_api
    from mistral_lib import actions as ml
    wid, tid = _fresh(world)
    # run the task so that an action execution exists
    for _ in range(6):
        en = [e for e in world.enabled() if not (e[0] == 'p' and e[1].kind == 'action')
              and not (e[0] == 'job')]
        if not en:
            break
        world.deliver(en[0])
    acts = world.snapshot()['actions']
    aid = acts[0]['id']
    _set(world, 'ActionExecution', aid, state=state, accepted=accepted)
    world.errors[:] = []
    r = {'success': ml.Result(data=1), 'error': ml.Result(error='e'),
         'cancel': ml.Result(error='c', cancel=True)}[result]
    world._call('rpc:on_action_complete', world.engine.on_action_complete, aid, r)
    a = [x for x in world.snapshot()['actions'] if x['id'] == aid][0]
    res = _res(world, (state, accepted), (a['state'], a['accepted']))
    return {'state': a['state'], 'accepted': a['accepted'], 'res': res}


def run(ctx, world):
    drv = ctx.driver()
    for s, op, arg in wf_cases():
        mo = drv.call('lifecycle.wfApply', {'state': s, 'op': op, 'arg': arg or 'IDLE'})
        mo['res'] = 'ok' if mo['res'] in ('changed', 'noop') else mo['res']
        io, after = wf_case(world, s, op, arg)
        ctx.evaluated('lifecycle', ['wf', s, op, arg], nontrivial=True)
        ctx.count('lifecycle', 'wf:' + io['res'])
        if mo != io:
            ctx.disagree('lifecycle', {'level': 'workflow', 'state': s, 'op': op, 'arg': arg,
                                       'errors': [e['type'] + ':' + e['msg'][:80] for e in world.errors]}, mo, io)
        # ---- monitors (statement): documented moves only; stop holds the requested state
        a, b = s, io['state']
        from harness import engine_run as er
        if a != b and (a, b) not in er.WF_MOVES and not (op == 'rerun' and (a, b) in er.WF_RERUN_MOVES) \
                and a != 'IDLE':
            ctx.violation('workflow execution moved %s -> %s by %s(%s)' % (a, b, op, arg),
                          {'state': s, 'op': op, 'arg': arg}, {'kind': 'undocumented-wf-move', 'from': a, 'to': b, 'op': op})
        if op == 'stop' and arg in ('ERROR', 'CANCELLED', 'SUCCESS') and s in ('RUNNING', 'PAUSED') \
                and ctx.prop == 'C11':
            if b != arg and not (arg == 'SUCCESS' and s == 'PAUSED'):
                ctx.violation('stop(%s) on a %s workflow left it %s' % (arg, s, b),
                              {'state': s, 'op': op, 'arg': arg, 'result': io},
                              {'kind': 'stop-ignored', 'from': s, 'requested': arg})
            elif b == arg and (after.get('state_info') or '') != 'msg' and arg != 'SUCCESS':
                ctx.violation('stop(%s) lost the message' % arg, {'state': s, 'arg': arg, 'row': after},
                              {'kind': 'stop-message-lost', 'requested': arg})
    for s, op, arg in task_cases():
        mo = drv.call('lifecycle.taskApply', {'state': s, 'op': op, 'arg': arg or 'IDLE'})
        io = task_case(world, s, op, arg)
        ctx.evaluated('lifecycle', ['task', s, op, arg], nontrivial=True)
        ctx.count('lifecycle', 'task:' + io['res'])
        # the model compares the state decision; follow-up errors of completion handling on a
        # synthetic row (policies, dispatch) are not part of the guard
        if mo['state'] != io['state']:
            ctx.disagree('lifecycle', {'level': 'task', 'state': s, 'op': op, 'arg': arg,
                                       'errors': [e['type'] + ':' + e['msg'][:80] for e in world.errors]}, mo, io)
    for s in ALL:
        for acc in (False, True):
            for r in ('success', 'error', 'cancel'):
                mo = drv.call('lifecycle.actionComplete', {'state': s, 'accepted': acc, 'result': r})
                mo['res'] = 'ok' if mo['res'] in ('changed', 'noop') else mo['res']
                io = action_case(world, s, acc, r)
                ctx.evaluated('lifecycle', ['action', s, acc, r], nontrivial=True)
                ctx.count('lifecycle', 'action:' + io['res'])
                if mo != io:
                    ctx.disagree('lifecycle', {'level': 'action', 'state': s, 'accepted': acc, 'result': r,
                                               'errors': [e['type'] + ':' + e['msg'][:80] for e in world.errors]}, mo, io)
    ctx.cov['exhaustive_lifecycle'] = True
