"""REST driver for C16: the real mistral WSGI application (pecan test app built the
way mistral/tests/unit/api/base.py does), authentication switched on with a
no-op authenticator, the actor supplied through the identity headers that
`MistralContext.from_environ` reads, an in-memory sqlite database with a
deterministic population owned by two projects, the engine RPC client replaced
by a recorder, and the oslo.policy enforcer reachable for one-rule overrides.

Nothing of the code under study (controllers, access_control, rest_utils,
context hooks, policies) is patched.  Patched seams: `mistral.auth` handler
(token validation), `rpc.get_engine_client` / `get_event_engine_client`
(recorded), `security.create_trust` / `delete_trust` (keystone).
"""
import hashlib
import json

_REST = None

PROJ_A = 'aaaaaaaa-0000-4000-8000-00000000000a'
PROJ_B = 'bbbbbbbb-0000-4000-8000-00000000000b'
ABSENT = '99999999-9999-4999-8999-999999999999'

ACTORS = {
    'memberA': {'X-Project-Id': PROJ_A, 'X-User-Id': 'user-a', 'X-Roles': 'member'},
    'memberB': {'X-Project-Id': PROJ_B, 'X-User-Id': 'user-b', 'X-Roles': 'member'},
    'adminA': {'X-Project-Id': PROJ_A, 'X-User-Id': 'admin-a', 'X-Roles': 'admin,member'},
    # roles that merely look like admin: still not an admin
    'viewerA': {'X-Project-Id': PROJ_A, 'X-User-Id': 'viewer-a', 'X-Roles': 'admin_viewer,member,nonadmin'},
}

WF_DEF = """---
version: '2.0'
%s:
  type: direct
  tasks:
    t1:
      action: std.noop
"""
WB_DEF = """---
version: '2.0'
name: %s
workflows:
  w1:
    type: direct
    tasks:
      t1:
        action: std.noop
"""
ACT_DEF = """---
version: '2.0'
%s:
  base: std.echo
  base-input:
    output: hi
"""


CS_SRC = '''from mistral_lib import actions


class C(actions.Action):
    def run(self, context):
        return 1


class K(C):
    pass


class K2(C):
    pass
'''


def _uuid(kind, n):
    return '%08x-0000-4000-8000-%012x' % (kind, n)


class Recorder(object):
    """Stands for the engine RPC client: records every call; answers with the
    stored row (so the controller can build its response)."""

    def __init__(self, rest):
        self.rest = rest
        self.calls = []
        self.real_stop = False

    def _wf(self, wf_ex_id):
        from mistral.db.v2 import api as db_api
        with db_api.transaction():
            return db_api.get_workflow_execution(wf_ex_id).to_dict()

    def _act(self, a_id):
        from mistral.db.v2 import api as db_api
        with db_api.transaction():
            return db_api.get_action_execution(a_id).to_dict()

    def start_workflow(self, wf_identifier, wf_namespace='', wf_ex_id=None, wf_input=None,
                       description='', async_=False, **params):
        self.calls.append(['start_workflow', wf_identifier])
        d = self._wf(self.rest.fx['wfex_A_SUCCESS'])
        d['id'] = wf_ex_id
        return d

    def start_action(self, action_name, action_input, description=None, namespace='', **params):
        self.calls.append(['start_action', action_name])
        return self._act(self.rest.fx['actex_adhoc_A_SUCCESS'])

    def pause_workflow(self, wf_ex_id):
        self.calls.append(['pause_workflow'])
        return self._wf(wf_ex_id)

    def resume_workflow(self, wf_ex_id, env=None):
        self.calls.append(['resume_workflow', bool(env)])
        return self._wf(wf_ex_id)

    def stop_workflow(self, wf_ex_id, state, message=None):
        self.calls.append(['stop_workflow', state])
        if self.real_stop:
            # run the real engine's stop (database only) for this call
            from mistral.engine import default_engine
            from mistral.engine import post_tx_queue
            import threading as _t

            class _NoThread(object):
                Thread = staticmethod(lambda target=None, **kw: type('T', (), {
                    'start': lambda s: None, 'daemon': True})())
                local = _t.local
                get_ident = staticmethod(_t.get_ident)
                current_thread = staticmethod(_t.current_thread)
            old = post_tx_queue.threading
            post_tx_queue.threading = _NoThread
            try:
                return default_engine.DefaultEngine().stop_workflow(wf_ex_id, state, message)
            finally:
                post_tx_queue.threading = old
        return self._wf(wf_ex_id)

    def rerun_workflow(self, task_ex_id, reset=True, skip=False, env=None):
        self.calls.append(['rerun_workflow', reset, skip, bool(env)])
        return None

    def on_action_complete(self, action_ex_id, result, wf_action=False, async_=False):
        kind = 'cancel' if result.cancel else ('error' if result.error is not None else 'data')
        payload = result.error if kind == 'error' else (result.data if kind == 'data' else None)
        self.calls.append(['on_action_complete', kind, payload])
        return self._act(action_ex_id)

    def on_action_update(self, action_ex_id, state, wf_action=False, async_=False):
        self.calls.append(['on_action_update', state])
        return self._act(action_ex_id)

    def __getattr__(self, name):
        def f(*a, **kw):
            self.calls.append([name])
            return None
        return f


class EventRecorder(object):
    def __init__(self):
        self.calls = []

    def __getattr__(self, name):
        def f(*a, **kw):
            self.calls.append([name])
            return None
        return f


class Rest(object):
    def __init__(self):
        from harness import boot
        boot.boot()
        from oslo_config import cfg
        self.CONF = CONF = cfg.CONF
        try:
            CONF(args=[], project='mistral', default_config_files=[])
        except Exception:
            pass
        from mistral.db.v2 import api as db_api
        CONF.set_default('connection', 'sqlite://', group='database')
        CONF.set_default('max_overflow', -1, group='database')
        CONF.set_default('max_pool_size', 1000, group='database')
        db_api.setup_db()
        import pecan.testing
        from mistral.api import app as pecan_app
        # as mistral/tests/unit/api/v2/test_members.py: the app is built without the keystone
        # middleware, then authentication is switched on (AuthHook, auth_enable_check,
        # security.get_project_id all read the option at request time)
        CONF.set_override('auth_enable', False, group='pecan')
        CONF.set_override('enabled', False, group='cron_trigger')
        self.app = pecan.testing.load_test_app(dict(pecan_app.get_pecan_config()))
        CONF.set_override('auth_enable', True, group='pecan')
        from mistral import auth

        class NoAuth(auth.AuthHandler):
            def authenticate(self, req):
                return None
        auth._IMPL_AUTH_HANDLER = NoAuth()
        from mistral.rpc import clients as rpc
        self.engine = Recorder(self)
        self.event_engine = EventRecorder()
        rpc.get_engine_client = lambda: self.engine
        rpc.get_event_engine_client = lambda: self.event_engine
        from mistral.services import security

        class _Trust(object):
            id = 'trust-fake'
        security.create_trust = lambda: _Trust()
        security.delete_trust = lambda trust_id=None: None
        # policy enforcer exactly as access_control builds it
        from mistral.api import access_control as acl
        from oslo_policy import opts as policy_opts
        policy_opts.set_defaults(CONF)
        acl._ENFORCER = None
        acl._ensure_enforcer_initialization()
        self.acl = acl
        self._default_rules = dict(acl._ENFORCER.rules)
        self.fx = {}
        self.baseline = None
        self.reset()

    # ------------------------------------------------------------ policy
    def set_rule(self, rule, check_str):
        from oslo_policy import policy as oslo_policy
        self.acl._ENFORCER.rules[rule] = oslo_policy.RuleDefault(rule, check_str).check

    def restore_rules(self):
        enf = self.acl._ENFORCER
        for k in list(enf.rules.keys()):
            if k not in self._default_rules:
                del enf.rules[k]
        for k, v in self._default_rules.items():
            enf.rules[k] = v

    def rule_names(self):
        return sorted(self._default_rules.keys())

    # ------------------------------------------------------------ database
    KEEP = ('mistral_metrics',)

    def _tables(self):
        from mistral.db.v2.sqlalchemy import models
        return models.Workbook.metadata.sorted_tables

    def wipe(self):
        from mistral.db.sqlalchemy import base as b
        from mistral.db.v2 import api as db_api
        with db_api.transaction():
            s = b._get_thread_local_session()
            for t in reversed(self._tables()):
                if t.name in self.KEEP:
                    continue
                s.execute(t.delete())

    def snapshot(self):
        from mistral.db.sqlalchemy import base as b
        from mistral.db.v2 import api as db_api
        snap = {}
        with db_api.transaction():
            s = b._get_thread_local_session()
            for t in self._tables():
                snap[t.name] = [dict(r._mapping) for r in s.execute(t.select())]
        return snap

    def restore(self):
        """Put back exactly the rows of the snapshot taken after seeding."""
        from mistral.db.sqlalchemy import base as b
        from mistral.db.v2 import api as db_api
        with db_api.transaction():
            s = b._get_thread_local_session()
            import sqlalchemy as sa
            s.execute(sa.text('PRAGMA defer_foreign_keys = ON'))
            for t in reversed(self._tables()):
                s.execute(t.delete())
            for t in self._tables():
                rows = self._snap.get(t.name)
                if rows:
                    s.execute(t.insert(), rows)
        self.CONF.clear_override('allow_action_execution_deletion', group='api')

    def db_rows(self):
        """All rows of all tables, canonical."""
        from mistral.db.sqlalchemy import base as b
        from mistral.db.v2 import api as db_api
        out = {}
        with db_api.transaction():
            s = b._get_thread_local_session()
            for t in self._tables():
                rows = [[repr(v) for v in r] for r in s.execute(t.select())]
                rows.sort()
                out[t.name] = rows
        return out

    def db_hash(self):
        return hashlib.sha1(json.dumps(self.db_rows(), sort_keys=True).encode()).hexdigest()

    def _ctx(self, project, admin=False):
        from mistral import context as auth_context
        c = auth_context.MistralContext(project_id=project, user_id='fixture', roles=['admin'] if admin else ['member'])
        c.is_admin = admin
        auth_context.set_ctx(c)

    def reset(self):
        """Wipe and re-create the deterministic population."""
        from mistral import context as auth_context
        from mistral.db.v2 import api as db_api
        from mistral.services import workflows as wf_service
        from mistral.services import workbooks as wb_service
        from mistral.services import adhoc_actions
        from mistral.lang import parser as spec_parser
        self.wipe()
        fx = {}
        n = [0]

        def nid(kind):
            n[0] += 1
            return _uuid(kind, n[0])
        for tag, proj in (('A', PROJ_A), ('B', PROJ_B)):
            self._ctx(proj)
            for scope in ('private', 'public'):
                nm = 'wf_%s_%s' % (tag, scope)
                wf = wf_service.create_workflows(WF_DEF % nm, scope=scope)[0]
                fx[nm] = wf.id
                fx[nm + '_name'] = nm
                nm = 'wb_%s_%s' % (tag, scope)
                wb_service.create_workbook_v2(WB_DEF % nm, scope=scope)
                fx[nm] = nm
                nm = 'act_%s_%s' % (tag, scope)
                a = adhoc_actions.create_actions(ACT_DEF % nm, scope=scope)[0]
                fx[nm] = nm
                fx[nm + '_id'] = a.id
                nm = 'env_%s_%s' % (tag, scope)
                db_api.create_environment({'name': nm, 'description': 'd', 'variables': {'k': 'v'}, 'scope': scope})
                fx[nm] = nm
                nm = 'cs_%s_%s' % (tag, scope)
                cs = db_api.create_code_source({'name': nm, 'content': CS_SRC, 'namespace': '',
                                                'scope': scope, 'version': 1})
                fx[nm] = nm
                fx[nm + '_id'] = cs.id
                nm = 'da_%s_%s' % (tag, scope)
                da = db_api.create_dynamic_action_definition({
                    'name': nm, 'namespace': '', 'class_name': 'C', 'scope': scope,
                    'code_source_id': cs.id, 'code_source_name': cs.name})
                fx[nm] = nm
                fx[nm + '_id'] = da.id
                nm = 'ct_%s_%s' % (tag, scope)
                db_api.create_cron_trigger({
                    'name': nm, 'pattern': '* * * * *', 'workflow_name': 'wf_%s_%s' % (tag, scope),
                    'workflow_id': fx['wf_%s_%s' % (tag, scope)], 'workflow_input': {}, 'workflow_params': {},
                    'remaining_executions': 5, 'scope': scope, 'trust_id': 'trust-fake',
                    'next_execution_time': __import__('datetime').datetime(2030, 1, 1)})
                fx[nm] = nm
                nm = 'et_%s_%s' % (tag, scope)
                et = db_api.create_event_trigger({
                    'name': nm, 'exchange': 'ex', 'topic': 'tp', 'event': 'ev.%s' % nm,
                    'workflow_id': fx['wf_%s_%s' % (tag, scope)], 'workflow_input': {}, 'workflow_params': {},
                    'scope': scope, 'trust_id': 'trust-fake'})
                fx[nm] = et.id
            wf = wf_service.create_workflows(WF_DEF % ('wf_%s_free' % tag), scope='private')[0]
            fx['wf_%s_free' % tag] = wf.id
            cs = db_api.create_code_source({'name': 'cs_%s_free' % tag, 'content': 'y = 2\n', 'namespace': '',
                                            'scope': 'private', 'version': 1})
            fx['cs_%s_free' % tag] = 'cs_%s_free' % tag
            # executions in every state
            wf_name = 'wf_%s_private' % tag
            wf_spec = spec_parser.get_workflow_list_spec_from_yaml(WF_DEF % wf_name).get_workflows()[0]
            for st in ('IDLE', 'RUNNING', 'PAUSED', 'SUCCESS', 'ERROR', 'CANCELLED'):
                wx = db_api.create_workflow_execution({
                    'id': nid(0xe0), 'name': wf_name, 'workflow_name': wf_name, 'workflow_id': fx[wf_name],
                    'workflow_namespace': '', 'spec': wf_spec.to_dict(), 'state': st, 'description': 'orig',
                    'input': {}, 'output': {}, 'params': {'env': {'e0': 1}}, 'context': {},
                    'runtime_context': {}, 'root_execution_id': None, 'task_execution_id': None})
                fx['wfex_%s_%s' % (tag, st)] = wx.id
                if tag == 'A' or st == 'ERROR':
                    for tst in ('IDLE', 'WAITING', 'RUNNING', 'DELAYED', 'PAUSED', 'SUCCESS', 'CANCELLED',
                                'ERROR', 'SKIPPED'):
                        if st != 'ERROR' and tst != 'SUCCESS':
                            continue
                        for wi in (False, True):
                            if st != 'ERROR' and wi:
                                continue
                            tspec = {'name': 't1', 'version': '2.0', 'action': 'std.noop', 'type': 'direct'}
                            if wi:
                                tspec['with-items'] = 'i in [1, 2]'
                            tx = db_api.create_task_execution({
                                'id': nid(0x7a), 'name': 't1', 'workflow_execution_id': wx.id,
                                'workflow_name': wf_name, 'workflow_id': fx[wf_name], 'workflow_namespace': '',
                                'spec': tspec, 'state': tst, 'type': 'ACTION', 'in_context': {},
                                'published': {}, 'runtime_context': {}, 'processed': False, 'tags': []})
                            fx['task_%s_%s_%s%s' % (tag, st, tst, '_wi' if wi else '')] = tx.id
            # action executions: ad-hoc (no task) in every state, and one attached to a task
            for ast_ in ('IDLE', 'RUNNING', 'PAUSED', 'SUCCESS', 'ERROR', 'CANCELLED'):
                ax = db_api.create_action_execution({
                    'id': nid(0xac), 'name': 'std.noop', 'state': ast_, 'input': {}, 'output': {'result': 1},
                    'runtime_context': {}, 'workflow_namespace': '', 'accepted': ast_ in ('SUCCESS', 'ERROR'),
                    'task_execution_id': None, 'tags': []})
                fx['actex_adhoc_%s_%s' % (tag, ast_)] = ax.id
            ax = db_api.create_action_execution({
                'id': nid(0xac), 'name': 'std.noop', 'state': 'SUCCESS', 'input': {}, 'output': {'result': 1},
                'runtime_context': {}, 'workflow_namespace': '', 'accepted': True,
                'task_execution_id': fx['task_%s_ERROR_SUCCESS' % tag], 'tags': []})
            fx['actex_task_%s' % tag] = ax.id
            # workflow wf_A_private shared with project B (pending); wf_B_private shared with A
            other = PROJ_B if tag == 'A' else PROJ_A
            db_api.create_resource_member({
                'resource_id': fx['wf_%s_private' % tag], 'resource_type': 'workflow',
                'member_id': other, 'status': 'pending'})
        auth_context.set_ctx(None)
        self.fx = fx
        self._snap = self.snapshot()
        self.baseline = self.db_hash()
        return fx

    # ------------------------------------------------------------ requests
    def request(self, method, url, actor, params=None, body=None, content_type=None):
        """-> (status, parsed body or text, engine calls made)."""
        self.engine.calls = []
        self.event_engine.calls = []
        headers = dict(ACTORS[actor]) if isinstance(actor, str) else dict(actor)
        headers['Accept'] = 'application/json'
        from urllib.parse import urlencode
        if params:
            url = url + '?' + urlencode(params)
        kw = {'headers': headers, 'expect_errors': True}
        m = method.upper()
        if m == 'GET':
            r = self.app.get(url, **kw)
        elif m == 'DELETE':
            r = self.app.delete(url, **kw)
        else:
            f = self.app.post if m == 'POST' else self.app.put
            if content_type == 'text/plain':
                headers['Content-Type'] = 'text/plain'
                headers.pop('Accept', None)    # these methods are exposed with content_type text/plain
                r = f(url, body or '', **kw)
            else:
                f = self.app.post_json if m == 'POST' else self.app.put_json
                r = f(url, body if body is not None else {}, **kw)
        try:
            parsed = json.loads(r.body.decode() or 'null')
        except Exception:
            parsed = r.body.decode(errors='replace')[:500]
        from mistral import context as auth_context
        auth_context.set_ctx(None)
        return r.status_int, parsed, list(self.engine.calls) + [['event'] + c for c in self.event_engine.calls]


def get():
    global _REST
    if _REST is None:
        _REST = Rest()
    return _REST
