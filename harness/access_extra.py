"""C15: streams beside the generic db-api cross product.

members  - the resource-member db functions vs the hand model + monitor
expr     - std_functions (executions_, tasks_, task_, execution_, global_) under foreign contexts
execute  - services/triggers.py create_cron_trigger / create_event_trigger referencing a workflow
rest     - MembersController (share / accept / delete) and the definition controllers through the
           pecan test application with authentication enabled
"""
from unittest import mock

from harness import access
from harness.access import pord, PROJECTS, ADMIN


def _mem_dict(w, m):
    return {'res': w.ids.get(m.resource_id, 0), 'rt': m.resource_type, 'owner': pord(m.project_id),
            'member': pord(m.member_id), 'status': m.status}


def _mkey(m):
    return (m['res'], m['rt'], m['owner'], m['member'], m['status'])


def _run_member(w, project, fn, args):
    st = w.st
    db_api, exc = st['db_api'], st['exc']
    access.as_actor(project)
    db_api.start_tx()
    try:
        try:
            ret = getattr(db_api, fn)(*args)
            if ret is None:
                obs = {'k': 'done'}
            elif isinstance(ret, list):
                obs = {'k': 'rows', 'rows': sorted((_mem_dict(w, m) for m in ret), key=_mkey)}
            else:
                obs = {'k': 'row', 'row': _mem_dict(w, ret)}
        except exc.DBEntityNotFoundError:
            obs = {'k': 'notFound'}
        except Exception as e:
            obs = {'k': 'exc', 'type': type(e).__name__, 'msg': str(e)[:120]}
        snap = w.snapshot()
        return obs, snap
    finally:
        db_api.rollback_tx()
        db_api.end_tx()


def stream_members(ctx, w):
    drv = ctx.driver()
    base = w.base
    wfs = [r for r in base['resources'] if r['t'] == 'WorkflowDefinition' and r['p'] == pord('pA')
           and r['n'] in ('a_shared', 'a_priv', 'col', 'a_pub')]
    runs = []
    for actor in PROJECTS:
        adict = {'project': pord(actor), 'admin': actor == ADMIN}
        for r in wfs:
            uuid = w.rev[r['id']]
            for rt in ('workflow', 'workbook'):
                runs.append((actor, 'get_resource_members', (uuid, rt), 'access.memberList',
                             {'db': base, 'actor': adict, 'res': r['id'], 'rt': rt}, r))
                for member in PROJECTS:
                    margs = {'db': base, 'actor': adict, 'res': r['id'], 'rt': rt, 'member': pord(member)}
                    runs.append((actor, 'get_resource_member', (uuid, rt, member), 'access.memberGet', margs, r))
                    runs.append((actor, 'delete_resource_member', (uuid, rt, member), 'access.memberDelete', margs, r))
                    for st in ('accepted', 'rejected'):
                        runs.append((actor, 'update_resource_member', (uuid, rt, member, {'status': st}),
                                     'access.memberUpdate', dict(margs, status=st), r))
    bm = sorted(base['members'], key=_mkey)
    for actor, fn, args, mfn, margs, r in runs:
        obs, snap = _run_member(w, actor, fn, args)
        mo = drv.call(mfn, margs)
        a = pord(actor)
        after = sorted(snap['members'], key=_mkey)
        nontrivial = a != r['p']
        ctx.evaluated('members', [fn, actor, r['id'], args[1:]], nontrivial=nontrivial)
        ctx.count('members', fn + ':' + obs['k'])
        # ---- model vs implementation
        bad = None
        if obs['k'] == 'exc':
            bad = 'implementation raised %s' % obs['type']
        elif fn == 'get_resource_members':
            if not isinstance(mo, list) or sorted(mo, key=_mkey) != obs.get('rows'):
                bad = 'member list'
        elif fn == 'get_resource_member':
            if not isinstance(mo, list):
                bad = 'driver'
            elif obs['k'] == 'row':
                bad = None if obs['row'] in mo else 'row not among model candidates'
            else:
                bad = None if (obs['k'] == 'notFound' and mo == []) else 'outcome'
        else:
            if not isinstance(mo, dict) or 'outcome' not in mo:
                bad = 'driver'
            else:
                mk = mo['outcome']['k']
                ik = 'done' if obs['k'] in ('done', 'row') else obs['k']
                if mk != ik:
                    bad = 'outcome'
                elif sorted(mo['db']['members'], key=_mkey) != after:
                    bad = 'member rows after the call'
        if bad:
            ctx.count('members', 'disagree:%s:%s' % (fn, bad))
            ctx.disagree('members', {'fn': fn, 'actor': actor, 'args': [str(x) for x in args[1:]],
                                     'workflow': r['n'], 'what': bad}, mo if not isinstance(mo, dict) else mo.get('outcome'), obs)
        # ---- monitor (statement): only the member changes a status, only the creator deletes,
        # member rows are shown to their creator and their member only
        if actor == ADMIN:
            continue
        rows = obs.get('rows') or ([obs['row']] if obs['k'] == 'row' and fn.startswith('get_') else [])
        for m in rows:
            if m['owner'] != a and m['member'] != a:
                ctx.violation('%s as %s returns a membership of other projects' % (fn, actor),
                              {'stream': 'members', 'fn': fn, 'actor': actor, 'args': [str(x) for x in args[1:]],
                               'workflow': r['n']}, {'kind': 'member-row-leak', 'function': fn})
        bset, aset = set(map(_mkey, bm)), set(map(_mkey, after))
        for gone in bset - aset:
            res, rt, owner, member, status = gone
            still = [x for x in aset if x[:4] == gone[:4]]
            if still:       # status changed
                if member != a:
                    ctx.violation('%s as %s changes the status of a membership of project %d' % (fn, actor, member),
                                  {'stream': 'members', 'fn': fn, 'actor': actor, 'args': [str(x) for x in args[1:]],
                                   'workflow': r['n']}, {'kind': 'member-status-changed-by-non-member', 'function': fn})
            elif owner != a:
                ctx.violation('%s as %s deletes a share created by project %d' % (fn, actor, owner),
                              {'stream': 'members', 'fn': fn, 'actor': actor, 'args': [str(x) for x in args[1:]],
                               'workflow': r['n']}, {'kind': 'share-deleted-by-non-creator', 'function': fn})


# --------------------------------------------------------------------------- expressions

def _visible(w, a, r):
    from props.C15 import visible_gt
    return visible_gt(w.base, a, r)


def stream_expr(ctx, w):
    from mistral.expressions import std_functions as sf
    st = w.st
    db_api, exc = st['db_api'], st['exc']
    base = w.base
    byid = {r['id']: r for r in base['resources']}
    execs = [r for r in base['resources'] if r['t'] == 'WorkflowExecution']
    tasks = [r for r in base['resources'] if r['t'] == 'TaskExecution']

    from mistral.workflow import data_flow

    def run(actor, label, thunk, admin=None):
        access.as_actor(actor, admin)
        db_api.start_tx()
        try:
            try:
                # the population's tasks have no real spec: only the result extraction is stubbed
                with mock.patch.object(data_flow, 'get_task_execution_result', return_value=None):
                    v = thunk()
                return ('ok', v)
            except exc.DBEntityNotFoundError:
                return ('notFound', None)
            except Exception as e:
                return ('exc:' + type(e).__name__, None)
        finally:
            db_api.rollback_tx()
            db_api.end_tx()

    def check(actor, fname, label, res, ids, secret=None):
        a = pord(actor)
        ctx.evaluated('expr', [fname, label, actor], nontrivial=True)
        ctx.count('expr', '%s:%s' % (fname, res[0]))
        if actor == ADMIN:
            return
        for i in ids:
            r = byid.get(i)
            if r is not None and not _visible(w, a, r):
                ctx.violation('%s(%s) evaluated under project %s returns data of project %d'
                              % (fname, label, actor, r['p']),
                              {'stream': 'expr', 'fn': fname, 'label': label, 'actor': actor, 'row': r},
                              {'kind': 'expr-function-leak', 'function': fname})
                return

    for actor in PROJECTS:
        # executions() / tasks() without and with filters
        res = run(actor, 'all', lambda: [e.id for e in sf.executions_({})])
        ids = [w.ids.get(u, 0) for u in (res[1] or [])]
        check(actor, 'executions', 'all', res, ids)
        if res[0] == 'ok':
            exp = sorted(r['id'] for r in execs if actor == ADMIN or _visible(w, pord(actor), r))
            if sorted(ids) != exp:
                ctx.disagree('expr', {'fn': 'executions', 'actor': actor}, exp, sorted(ids))
        res = run(actor, 'all', lambda: [t['id'] for t in sf.tasks_({})])
        ids = [w.ids.get(u, 0) for u in (res[1] or [])]
        check(actor, 'tasks', 'all', res, ids)
        if res[0] == 'ok':
            exp = sorted(r['id'] for r in tasks if actor == ADMIN or _visible(w, pord(actor), r))
            if sorted(ids) != exp:
                ctx.disagree('expr', {'fn': 'tasks', 'actor': actor}, exp, sorted(ids))
        for e in execs:
            u = w.rev[e['id']]
            res = run(actor, 'id', lambda: [x.id for x in sf.executions_({}, id=u)])
            check(actor, 'executions', 'id=%s/%s' % (e['n'], e['s']), res, [w.ids.get(x, 0) for x in (res[1] or [])])
            res = run(actor, 'wfex', lambda: [t['id'] for t in sf.tasks_({}, workflow_execution_id=u)])
            check(actor, 'tasks', 'workflow_execution_id=%s' % e['n'], res, [w.ids.get(x, 0) for x in (res[1] or [])])
            c = {'__execution': {'id': u}}
            res = run(actor, 'global', lambda: sf.global_(c, 'glob'))
            check(actor, 'global', e['n'], res, [e['id']] if res[0] == 'ok' and res[1] is not None else [])
            res = run(actor, 'execution', lambda: sf.execution_(c))
            check(actor, 'execution', e['n'], res, [e['id']] if res[0] == 'ok' else [])
        for t in tasks:
            u = w.rev[t['id']]
            c = {'__task_execution': {'id': u, 'name': t['n']}, '__execution': {'id': 'none'}}
            res = run(actor, 'task', lambda: sf.task_(c))
            check(actor, 'task', 'current=%s/%s' % (t['n'], t['s']), res,
                  [w.ids.get(res[1]['id'], 0)] if res[0] == 'ok' and res[1] else [])
    # K (context level only): the heartbeat checker's admin, project-less context sees every project
    res = run(None, 'all', lambda: [e.id for e in sf.executions_({})], admin=True)
    projs = {byid[w.ids[u]]['p'] for u in (res[1] or []) if u in w.ids}
    ctx.count('expr', 'K:admin-projectless-context-sees-%d-projects' % len(projs))


# --------------------------------------------------------------------------- execute

def stream_execute(ctx, w):
    from mistral.services import triggers
    from mistral.services import security
    from mistral.rpc import clients as rpc
    st = w.st
    db_api, exc = st['db_api'], st['exc']
    base = w.base
    wfs = [r for r in base['resources'] if r['t'] == 'WorkflowDefinition' and r['n'].startswith('x_')]
    fake = mock.MagicMock()
    for actor in PROJECTS:
        a = pord(actor)
        for r in wfs:
            for kind in ('cron', 'event'):
                access.as_actor(actor)
                made = None
                with mock.patch.object(security, 'add_trust_id'), mock.patch.object(security, 'delete_trust'), \
                        mock.patch.object(rpc, 'get_event_engine_client', return_value=fake):
                    try:
                        if kind == 'cron':
                            t = triggers.create_cron_trigger('xt', None, {}, {}, '5 * * * *', None, None,
                                                             None, workflow_id=w.rev[r['id']])
                        else:
                            t = triggers.create_event_trigger('xe', 'ex', 'top', 'ev', w.rev[r['id']])
                        made = (type(t), t.id)
                        obs = ('created', pord(t.project_id))
                    except exc.DBEntityNotFoundError:
                        obs = ('notFound', None)
                    except Exception as e:
                        obs = ('exc:%s' % type(e).__name__, str(e)[:100])
                if made:
                    # the service committed: remove the trigger again
                    db_api.start_tx()
                    try:
                        ses = st['b']._get_thread_local_session()
                        ses.query(made[0]).filter_by(id=made[1]).delete()
                        db_api.commit_tx()
                    finally:
                        db_api.end_tx()
                vis = actor == ADMIN or _visible(w, a, r)
                ctx.evaluated('execute', [kind, actor, r['n']], nontrivial=(a != r['p']))
                ctx.count('execute', '%s:%s:%s' % (kind, 'visible' if vis else 'invisible', obs[0]))
                # model: get_workflow_definition(_by_id) decides
                if obs[0].startswith('exc'):
                    ctx.disagree('execute', {'kind': kind, 'actor': actor, 'workflow': r['n']}, 'created|notFound', obs)
                    continue
                if (obs[0] == 'created') != vis:
                    ctx.disagree('execute', {'kind': kind, 'actor': actor, 'workflow': r['n']},
                                 'created' if vis else 'notFound', obs)
                if actor == ADMIN:
                    continue
                if obs[0] == 'created' and not _visible(w, a, r):
                    ctx.violation('%s trigger created by %s on a workflow it cannot see' % (kind, actor),
                                  {'stream': 'execute', 'kind': kind, 'actor': actor, 'workflow': r},
                                  {'kind': 'execute-private-foreign', 'function': 'create_%s_trigger' % kind})
                if obs[0] == 'created' and obs[1] != a:
                    ctx.violation('%s trigger created by %s belongs to project %s' % (kind, actor, obs[1]),
                                  {'stream': 'execute', 'kind': kind, 'actor': actor, 'workflow': r},
                                  {'kind': 'created-row-not-owned', 'function': 'services.create_%s_trigger' % kind})
    w.ids = {u: o for u, o in w.ids.items() if o <= w.n_base}
    w.rev = {o: u for u, o in w.ids.items()}
    if w.snapshot() != w.base:
        ctx.broken_tie('harness', 'execute', 'the execute stream did not restore the population')


# --------------------------------------------------------------------------- REST

_app = []


def rest_app(w):
    if not _app:
        import pecan.testing
        from mistral.api import app as pecan_app
        CONF = w.st['cfg'].CONF
        CONF.set_default('enabled', False, group='cron_trigger')
        try:
            CONF.find_file('policy.yaml')
        except Exception:
            CONF(args=[], project='mistral', default_config_files=[])
        _app.append(pecan.testing.load_test_app(dict(pecan_app.get_pecan_config())))
    return _app[0]


def rest(w, actor, method, url, body=None):
    app = rest_app(w)
    c = access.ctx_for(actor)
    if actor == ADMIN:
        c.roles = ['admin']
    with mock.patch('mistral.context.AuthHook.before'), \
            mock.patch('mistral.context.MistralContext.from_environ', return_value=c):
        if method == 'POST':
            r = app.post_json(url, body, expect_errors=True)
        elif method == 'PUT':
            r = app.put_json(url, body, expect_errors=True)
        elif method == 'DELETE':
            r = app.delete(url, expect_errors=True)
        else:
            r = app.get(url, expect_errors=True)
    w.st['auth'].set_ctx(None)
    return r


def _purge_members(w, keep):
    """remove member rows created by committed REST calls"""
    st = w.st
    access.as_actor(ADMIN)
    st['db_api'].start_tx()
    try:
        ses = st['b']._get_thread_local_session()
        RM = st['models'].ResourceMember
        for m in ses.query(RM).all():
            k = (m.resource_id, m.resource_type, m.member_id)
            if k not in keep:
                ses.delete(m)
        st['db_api'].commit_tx()
    finally:
        st['db_api'].end_tx()


def _member_keys(w):
    st = w.st
    st['db_api'].start_tx()
    try:
        ses = st['b']._get_thread_local_session()
        RM = st['models'].ResourceMember
        return {(m.resource_id, m.resource_type, m.member_id): (m.project_id, m.status) for m in ses.query(RM).all()}
    finally:
        st['db_api'].rollback_tx()
        st['db_api'].end_tx()


def stream_rest(ctx, w):
    drv = ctx.driver()
    base = w.base
    keep = _member_keys(w)
    wfs = [r for r in base['resources'] if r['t'] == 'WorkflowDefinition'
           and r['n'] in ('x_priv', 'x_pub', 'x_shared', 'a_shared', 'a_priv', 'o_priv')]
    try:
        for actor in PROJECTS:
            a = pord(actor)
            for r in wfs:
                new = 'pC' if actor != 'pC' else 'pO'
                url = '/v2/workflows/%s/members' % w.rev[r['id']]
                resp = rest(w, actor, 'POST', url, {'member_id': new})
                created = resp.status_int == 201
                mo = drv.call('access.share', {'db': base, 'actor': {'project': a, 'admin': actor == ADMIN},
                                               'res': r['id'], 'member': pord(new)})
                mk = mo['outcome']['k'] if isinstance(mo, dict) and 'outcome' in mo else 'driver'
                ctx.evaluated('rest', ['share', actor, r['n']], nontrivial=(a != r['p']))
                ctx.count('rest', 'share:%d' % resp.status_int)
                exp = {'done': 201, 'notFound': 404, 'unsupported': 400, 'notAllowed': 403,
                       'systemProtected': 400}.get(mk)
                if exp != resp.status_int:
                    ctx.disagree('rest', {'op': 'share', 'actor': actor, 'workflow': r['n']}, mk, resp.status_int)
                facts = {}
                if created and actor != ADMIN and r['p'] != a:
                    # how far does it go: the new member accepts and reads; the owner cannot revoke
                    acc = rest(w, new, 'PUT', url + '/' + new, {'status': 'accepted'})
                    got = rest(w, new, 'GET', '/v2/workflows/%s' % w.rev[r['id']])
                    rev = rest(w, 'pA', 'DELETE', url + '/' + new)
                    facts = {'third_project_accepts': acc.status_int, 'third_project_reads_workflow': got.status_int,
                             'owner_deletes_the_share': rev.status_int}
                    rel = [m for m in base['members'] if m['res'] == r['id'] and m['member'] == a]
                    kind = 'accepted-member-can-reshare' if any(m['status'] == 'accepted' for m in rel) \
                        else 'share-by-non-owner'
                    ctx.violation('POST %s as %s (not the owner of the workflow %s) creates a share for %s'
                                  % ('/v2/workflows/<id>/members', actor, r['n'], new),
                                  {'stream': 'rest', 'op': 'share', 'actor': actor, 'workflow': r, 'new_member': new,
                                   'status': resp.status_int, 'follow_up': facts},
                                  {'kind': kind, 'function': 'MembersController.post'})
                _purge_members(w, keep)
        # members API: status change / delete by the wrong party
        r = [x for x in wfs if x['n'] == 'x_shared'][0]
        url = '/v2/workflows/%s/members' % w.rev[r['id']]
        for actor in PROJECTS:
            for member in ('pMp', 'pMa', 'pMr'):
                resp = rest(w, actor, 'PUT', url + '/' + member, {'status': 'accepted'})
                ctx.evaluated('rest', ['member-put', actor, member], nontrivial=True)
                ctx.count('rest', 'member-put:%d' % resp.status_int)
                if resp.status_int == 200 and actor != member:
                    ctx.violation('PUT member status of %s by %s succeeds' % (member, actor),
                                  {'stream': 'rest', 'op': 'member-put', 'actor': actor, 'member': member},
                                  {'kind': 'member-status-changed-by-non-member', 'function': 'MembersController.put'})
                _restore_status(w, keep)
                resp = rest(w, actor, 'DELETE', url + '/' + member)
                ctx.evaluated('rest', ['member-delete', actor, member], nontrivial=True)
                ctx.count('rest', 'member-delete:%d' % resp.status_int)
                if resp.status_int == 204 and actor != 'pA':
                    ctx.violation('DELETE membership of %s by %s succeeds' % (member, actor),
                                  {'stream': 'rest', 'op': 'member-delete', 'actor': actor, 'member': member},
                                  {'kind': 'share-deleted-by-non-creator', 'function': 'MembersController.delete'})
                _restore_rows(w, keep)
        stream_rest_delete(ctx, w)
    finally:
        _purge_members(w, keep)
        _restore_rows(w, keep)
        _restore_status(w, keep)
        w.ids = {u: o for u, o in w.ids.items() if o <= w.n_base}
        w.rev = {o: u for u, o in w.ids.items()}
        if w.snapshot() != w.base:
            ctx.broken_tie('harness', 'rest', 'the REST stream did not restore the population')


REST_DELETE = {
    'Workbook': ('/v2/workbooks/%s', 'name'), 'Environment': ('/v2/environments/%s', 'name'),
    'ActionDefinition': ('/v2/actions/%s', 'id'), 'CodeSource': ('/v2/code_sources/%s', 'id'),
    'DynamicActionDefinition': ('/v2/dynamic_actions/%s', 'id'),
    'EventTrigger': ('/v2/event_triggers/%s', 'id'), 'ActionExecution': ('/v2/action_executions/%s', 'id'),
    'WorkflowDefinition': ('/v2/workflows/%s', 'id'), 'CronTrigger': ('/v2/cron_triggers/%s', 'name'),
}


def stream_rest_delete(ctx, w):
    """end-to-end reach of the delete paths: pA creates a throw-away PUBLIC row, pO (another
    project) deletes it through the REST API.  Statement: must be refused."""
    from mistral.rpc import clients as rpc
    st = w.st
    db_api = st['db_api']
    for model, (url, keyform) in sorted(REST_DELETE.items()):
        fn, mk, _ = access.TYPES[model]
        access.as_actor('pA', admin=False)
        with db_api.transaction():
            row = getattr(db_api, fn)(mk('tmp_pub', 'public', dict(w.refs['pA'], seq=98)))
            rid, M = row.id, type(row)
        key = rid if keyform == 'id' else 'tmp_pub'
        with mock.patch.object(rpc, 'get_event_engine_client', return_value=mock.MagicMock()), \
                mock.patch('mistral.services.security.delete_trust'):
            resp = rest(w, 'pO', 'DELETE', url % key)
        db_api.start_tx()
        try:
            ses = st['b']._get_thread_local_session()
            left = ses.query(M).filter_by(id=rid).count()
            ses.query(M).filter_by(id=rid).delete()
            db_api.commit_tx()
        finally:
            db_api.end_tx()
        ctx.evaluated('rest', ['delete-foreign-public', model], nontrivial=True)
        ctx.count('rest', 'delete-foreign-public:%s:%d:%s' % (model, resp.status_int, 'deleted' if not left else 'kept'))
        if not left:
            sig_fn = {'Workbook': 'delete_workbook', 'Environment': 'delete_environment',
                      'ActionDefinition': 'delete_action_definition', 'CodeSource': 'delete_code_source',
                      'DynamicActionDefinition': 'delete_dynamic_action_definition',
                      'EventTrigger': 'delete_event_trigger', 'ActionExecution': 'delete_action_execution',
                      'WorkflowDefinition': 'delete_workflow_definition', 'CronTrigger': 'delete_cron_trigger'}[model]
            ctx.violation('DELETE %s as another project deletes a public %s of project pA (HTTP %d)'
                          % (url % '<key>', model, resp.status_int),
                          {'stream': 'rest', 'op': 'delete-foreign-public', 'model': model, 'status': resp.status_int},
                          {'kind': 'db-api-no-owner-check', 'function': sig_fn})
    w.ids = {u: o for u, o in w.ids.items() if o <= w.n_base}
    w.rev = {o: u for u, o in w.ids.items()}


def _restore_status(w, keep):
    st = w.st
    st['db_api'].start_tx()
    try:
        ses = st['b']._get_thread_local_session()
        RM = st['models'].ResourceMember
        for m in ses.query(RM).all():
            k = (m.resource_id, m.resource_type, m.member_id)
            if k in keep and m.status != keep[k][1]:
                m.status = keep[k][1]
        st['db_api'].commit_tx()
    finally:
        st['db_api'].end_tx()


def _restore_rows(w, keep):
    st = w.st
    have = _member_keys(w)
    missing = [k for k in keep if k not in have]
    if not missing:
        return
    st['db_api'].start_tx()
    try:
        ses = st['b']._get_thread_local_session()
        RM = st['models'].ResourceMember
        for k in missing:
            ses.add(RM(resource_id=k[0], resource_type=k[1], member_id=k[2], project_id=keep[k][0],
                       status=keep[k][1]))
        st['db_api'].commit_tx()
    finally:
        st['db_api'].end_tx()


def replay(ctx, w, rep):
    r = rep['replay']
    s = r.get('stream')
    # the streams are small: re-run the stream; its monitor re-raises the violation if it still exists
    {'members': stream_members, 'expr': stream_expr, 'execute': stream_execute, 'rest': stream_rest}[s](ctx, w)
    print('replay: stream %s re-run; violations now: %d' % (s, len(ctx.violations)))
