"""Stream `ctx`: the real context functions (context_versioning, data_flow) vs Mistral.Ctx on
generated publish histories over fork/join DAGs, in all row orders for small joins.

Also the C05 monitor: along a generated history the value a join sees for a variable is the one
published by the causally latest publisher among its ancestors (when that is unique), and the
stored contexts are never modified by evaluation."""
import copy
import itertools
import json

VALS = [0, 1, 2, 'a', 'b', None, True, [1, 2], {'k': 1}, {'k': 5}, {'k': {'m': 2}}, {'k': {'m': 7}}, {'k': 2, 'n': 3},
        {'k': 4, 'n': 9}, {}]
VARS = ['v0', 'v1', 'v2', 'v3']


class FakeTaskEx(object):
    def __init__(self, name, in_context, published, id_=None):
        self.name = name
        self.in_context = in_context
        self.published = published
        self.id = id_ or name


UNHASH = {}


def esc(k):
    """context_versioning._version_key_part (repo patch 28; Ctx.esc in the model): a '.' inside a name is escaped"""
    return k.replace('\\', '\\\\').replace('.', '\\.')


def key_str(path):
    """the version key of a path of names"""
    return '.'.join(esc(k) for k in path)


def learn_paths(published):
    """remember md5(path) -> path for every leaf path of a published dict: the model keeps version
    keys as plain paths, the implementation (hash_version_keys, the default) as their md5; the
    comparison canonicalises real keys back to paths.  A real key that is not the md5 of a leaf
    path that was ever published stays as it is and shows up as a disagreement."""
    import hashlib
    for v, val in (published or {}).items():
        for lp in leaf_map(val, (v,)):
            UNHASH[hashlib.md5(key_str(lp).encode('utf-8')).hexdigest()] = key_str(lp)


def canon_ctx(ctx):
    """{'data':..., 'vers':...} from a python context dict (sorted later by json dumps)"""
    d = {k: v for k, v in ctx.items() if k != '__versions'}
    return {'data': d, 'vers': {UNHASH.get(k, k): v for k, v in ctx.get('__versions', {}).items()}}


def norm(x):
    return json.loads(json.dumps(x, sort_keys=True))


# skeletons of nested values: a leaf is None; republishing a variable with the SAME skeleton is
# shape-stable, republishing a sub-skeleton (some leaves dropped) is the "wholesale republication
# without a leaf" that the leaf-granular monitor has to get right
SKELETONS = [None, None, {'k': None}, {'k': {'m': None}}, {'k': None, 'n': None},
             {'x': None, 'y': None}, {'x': None, 'y': None, 'z': {'m': None}}, {'x': {'p': None, 'q': None}, 'y': None}]


def fill(rng, skel, tag):
    """a value of the given skeleton whose leaves are (mostly) unique to `tag` - a stale copy is then
    distinguishable from the value of the latest publisher"""
    if isinstance(skel, dict):
        return {k: fill(rng, v, tag + k) for k, v in skel.items()}
    r = rng.random()
    if r < 0.45:
        return '%s' % tag
    if r < 0.7:
        return rng.randint(0, 3)
    if r < 0.85:
        return [tag, rng.randint(0, 9)]
    return rng.choice([None, True, False, 'a', []])


def sub_skeleton(rng, skel, keep=None):
    """a copy of a dict skeleton with some leaves dropped (never all of them unless the skeleton is a leaf)"""
    if not isinstance(skel, dict):
        return skel
    keys = list(skel)
    kept = [k for k in keys if (keep is not None and k in keep) or rng.random() < 0.6]
    if not kept:
        kept = [rng.choice(keys)]
    return {k: skel[k] for k in kept}


def gen_random(rng, n=None):
    """A DAG of publishing tasks: task i has parents (earlier tasks, listed in a RANDOM order: the
    order the database lists the rows); a task with >=2 parents is a join; 12% of the later tasks are
    further roots (a branch whose context never saw the variables of the others)."""
    n = n or rng.randint(2, 9)
    tasks = []
    # 75% of the histories keep the shape of every variable (where the property is claimed to
    # hold); the rest mix shapes freely (exercises known finding G)
    shapes = {} if rng.random() < 0.75 else None
    unique = rng.random() < 0.5
    for i in range(n):
        k = 0 if i == 0 else rng.choice([0, 1, 1, 1, 1, 2, 2, 2, 3, 3, 4]) if rng.random() < 0.5 \
            else rng.choice([1, 1, 1, 2, 2, 3])
        parents = rng.sample(range(i), min(k, i))
        pub = {}
        for _ in range(rng.choice([0, 1, 1, 2])):
            v = rng.choice(VARS)
            if unique:
                if shapes is not None:
                    sk = shapes.setdefault(v, rng.choice(SKELETONS))
                    if rng.random() < 0.12:
                        sk = sub_skeleton(rng, sk)      # wholesale republication without some leaf
                else:
                    sk = rng.choice(SKELETONS)
                pub[v] = fill(rng, sk, 't%d%s' % (i, v))
            elif shapes is not None and rng.random() < 0.97:
                # shape-preserving republish: same leaf-path set as the first value of this variable
                cands = [x for x in VALS if leaf_paths(x) == shapes.setdefault(v, leaf_paths(rng.choice(VALS)))]
                pub[v] = copy.deepcopy(rng.choice(cands))
            else:
                pub[v] = copy.deepcopy(rng.choice(VALS))
        tasks.append({'name': 't%d' % i, 'parents': ['t%d' % p for p in parents], 'published': pub})
    return tasks


class _B(object):
    """history builder for the motif generators"""

    def __init__(self, rng):
        self.rng = rng
        self.tasks = []

    def add(self, parents, pub=None):
        ps = list(parents)
        self.rng.shuffle(ps)
        name = 't%d' % len(self.tasks)
        self.tasks.append({'name': name, 'parents': ps, 'published': pub or {}})
        return name

    def chain(self, frm, k, noise=True):
        """k inheriting tasks below frm (each may publish an unrelated variable)"""
        cur = frm
        for _ in range(k):
            cur = self.add([cur], {'v3': fill(self.rng, None, cur)} if noise and self.rng.random() < 0.3 else {})
        return cur


def gen_fork_nested(rng):
    """Motif: a nested dict published BEFORE a fork; inside the fork one branch republishes ONE leaf
    (the whole dict with a new value for it), a sibling republishes the dict WHOLESALE WITHOUT that leaf
    (or with the same skeleton: the shape-stable variant), others merely inherit; then two or three
    CHAINED joins, each of which meets a branch that still carries the copy from before the fork."""
    b = _B(rng)
    v = rng.choice(VARS[:3])
    skel = rng.choice([s for s in SKELETONS if isinstance(s, dict) and len(s) >= 2])
    leafk = rng.choice(list(skel))
    root = b.add([], {v: fill(rng, skel, 'r')})
    root = b.chain(root, rng.choice([0, 0, 1]))
    stable = rng.random() < 0.35
    # the branch that republishes the leaf
    a = b.chain(root, rng.choice([0, 0, 1]))
    a = b.add([a], {v: fill(rng, skel if rng.random() < 0.7 else sub_skeleton(rng, skel, keep=[leafk]), 'a')})
    a = b.chain(a, rng.choice([0, 0, 1]))
    # the sibling that republishes wholesale without the leaf (or publishes nothing / the same shape)
    r = rng.random()
    if stable:
        sib_pub = {v: fill(rng, skel, 'b')} if r < 0.5 else {}
    else:
        drop = {k: s for k, s in skel.items() if k != leafk}
        sib_pub = {v: fill(rng, sub_skeleton(rng, drop) if rng.random() < 0.5 else drop, 'b')}
    sib = b.add([b.chain(root, rng.choice([0, 0, 1]))], sib_pub)
    sib = b.chain(sib, rng.choice([0, 0, 1]))
    inh = [b.chain(root, rng.choice([1, 1, 2])) for _ in range(rng.choice([1, 2, 2, 3]))]
    first = [a, sib] + ([inh.pop()] if len(inh) > 1 and rng.random() < 0.3 else [])
    j = b.add(first)
    for e in inh:
        j = b.chain(j, rng.choice([0, 1, 1]))
        if rng.random() < 0.25:
            # one more publication of the leaf on the path between the joins
            j = b.add([j], {v: fill(rng, skel, 'c')})
        j = b.add([j, e])
    b.chain(j, rng.choice([0, 1]))
    return b.tasks


def gen_multi_root(rng):
    """Motif: a merge of >= 3 contexts whose BASE never saw the variable: the variable is published
    twice along one branch (p1 then p2), a sibling still carries the older value, and one or two branches
    start at independent roots; all of them meet in one join (every row order is evaluated) or in two
    chained joins."""
    b = _B(rng)
    v = rng.choice(VARS[:3])
    skel = rng.choice(SKELETONS)
    p1 = b.add([], {v: fill(rng, skel, 'p')})
    p1 = b.chain(p1, rng.choice([0, 0, 1]))
    older = [b.chain(p1, rng.choice([1, 1, 2])) for _ in range(rng.choice([1, 1, 2]))]
    p2 = b.add([b.chain(p1, rng.choice([0, 1]))], {v: fill(rng, skel, 'q')})
    if rng.random() < 0.3:
        p2 = b.add([p2], {v: fill(rng, skel, 's')})
    p2 = b.chain(p2, rng.choice([0, 0, 1]))
    roots = []
    for i in range(rng.choice([1, 1, 2])):
        r = b.add([], {'v3': fill(rng, None, 'o%d' % i)} if rng.random() < 0.6 else {})
        roots.append(b.chain(r, rng.choice([0, 1, 1]), noise=False))
    ends = [p2] + older + roots
    if len(ends) <= 4 and rng.random() < 0.6:
        j = b.add(ends)
    else:
        rng.shuffle(ends)
        j = b.add(ends[:2])
        for e in ends[2:]:
            j = b.add([b.chain(j, rng.choice([0, 1]), noise=False), e])
    b.chain(j, rng.choice([0, 1]))
    return b.tasks


def gen_wide_ends(rng):
    """Motif: MANY END TASKS (a wide fork that no join closes, plus leaves at independent roots): the workflow's
    final context is folded over them batch by batch.  A variable is published before the fork, republished
    along one branch (twice), merely inherited by the other leaves; every leaf also publishes a variable of its
    own (scalar or nested) that only the workflow output can show."""
    b = _B(rng)
    v = rng.choice(VARS[:3])
    skel = rng.choice(SKELETONS)
    root = b.add([], {v: fill(rng, skel, 'r')})
    root = b.chain(root, rng.choice([0, 0, 1]))
    n = rng.randint(3, 7)
    special = rng.randrange(n)
    for i in range(n):
        own = {'w%d' % i: fill(rng, rng.choice(SKELETONS), 'e%d' % i)} if rng.random() < 0.8 else {}
        cur = root
        if i == special:
            cur = b.add([cur], {v: fill(rng, skel, 'p')})
            if rng.random() < 0.5:
                cur = b.add([b.chain(cur, rng.choice([0, 1]), noise=False)], {v: fill(rng, skel, 'q')})
            if rng.random() < 0.5:
                b.add([cur], own)       # the latest publisher is not itself an end task
                continue
            b.tasks[-1]['published'].update(own)
            continue
        cur = b.chain(cur, rng.choice([0, 0, 1]), noise=False)
        b.add([cur], own)
    for i in range(rng.choice([0, 0, 1, 2])):
        b.add([], {'z%d' % i: fill(rng, None, 'o%d' % i)})
    return b.tasks


def gen_dotted(rng):
    """Motif: a variable whose NAME contains a dot next to a dictionary with that path: `v` = {k: ..} and the
    top-level variable "v.k" (shape-stable: no finding-G republication in these histories).  Before repo patch 28 both had the version key
    "v.k": publishing one bumped the version of the other.  One branch publishes the dotted variable, a sibling
    republishes the dictionary, others inherit; two or three chained joins."""
    b = _B(rng)
    v = rng.choice(VARS[:3])
    deep = rng.random() < 0.4
    skel = {'k': {'m': None}, 'n': None} if deep else {'k': None, 'n': None}
    dotted = v + '.k'
    root = b.add([], {v: fill(rng, skel, 'r')})
    root = b.chain(root, rng.choice([0, 1]), noise=False)
    a = b.add([b.chain(root, rng.choice([0, 1]), noise=False)],
              {dotted: fill(rng, {'m': None} if deep else None, 'a')})
    if rng.random() < 0.4:
        a = b.add([a], {dotted: fill(rng, {'m': None} if deep else None, 'a2')})
    sib = b.add([b.chain(root, rng.choice([0, 1]), noise=False)],
                {v: fill(rng, skel, 'b')})
    inh = [b.chain(root, rng.choice([1, 2]), noise=False) for _ in range(rng.choice([1, 2]))]
    j = b.add([a, sib])
    for e in inh:
        j = b.add([b.chain(j, rng.choice([0, 1]), noise=False), e])
    return b.tasks


def gen_history(rng, n=None):
    r = rng.random()
    if n is not None or r < 0.42:
        return gen_random(rng, n)
    if r < 0.64:
        return gen_fork_nested(rng)
    if r < 0.80:
        return gen_multi_root(rng)
    if r < 0.95:
        return gen_wide_ends(rng)
    return gen_dotted(rng)


def run_history(ctx, hist, hashed):
    from harness import boot
    boot.boot()
    from oslo_config import cfg
    from mistral.workflow import data_flow
    drv = ctx.driver()
    cfg.CONF.set_override('hash_version_keys', hashed, group='context_versioning')
    for t in hist:
        learn_paths(t['published'])
    hist = [dict(t, hashed=hashed) if i == 0 else t for i, t in enumerate(hist)]   # replays carry the mode
    inb = {}
    outb = {}
    ok = True
    causal = Causal(hist)
    ctx.count('ctx', 'history:' + hist_class(hist, causal))
    for t in hist:
        # ---- inbound context = upstream of the parents' outbound contexts (real code)
        parents = t['parents']
        orders = [list(parents)]
        if 2 <= len(parents) <= 4:
            orders = [list(p) for p in itertools.permutations(parents)]
        results = []
        for order in orders:
            execs = [FakeTaskEx(p, copy.deepcopy(inb[p]), copy.deepcopy(hist_pub(hist, p))) for p in order]
            before = [(copy.deepcopy(e.in_context), copy.deepcopy(e.published)) for e in execs]
            real = data_flow.evaluate_upstream_context(list(execs))
            # C05 monitor: evaluation never modifies the stored contexts
            for e, (bi, bp) in zip(execs, before):
                if e.in_context != bi:
                    ctx.violation('evaluate_upstream_context modified an inbound context object',
                                  {'history': hist, 'task': t['name'], 'order': order},
                                  {'kind': 'stored-context-mutated', 'fn': 'evaluate_upstream_context'})
                if e.published != bp:
                    # nested dicts of `published` are shared with the outbound context and merged
                    # in place; whether that reaches the DATABASE is decided by the engine-level
                    # monitor (committed `published` of a completed task never changes)
                    ctx.count('ctx', 'in-memory-published-object-mutated')
            outs = [canon_ctx(outb[p]) for p in order]
            mo = drv.call('ctx.upstream', {'outs': outs})
            io = canon_ctx(real) if real else {'data': {}, 'vers': {}}
            io['data'].pop('__task_execution', None)
            ctx.evaluated('ctx', [outs], nontrivial=len(parents) >= 2)
            ctx.count('ctx', 'upstream:%d' % len(parents))
            if norm(mo) != norm(io):
                ctx.disagree('ctx', {'fn': 'upstream', 'outs': outs}, mo, io)
                ok = False
            results.append(norm(io))
            # ---- C05 monitor, leaf-granular, on the inbound context of EVERY row order
            check_leaves(ctx, 'ctx', causal, t['name'], io['data'],
                         {'history': hist, 'task': t['name'], 'order': order})
        # ---- C05 monitor: order independence when publishers are causally ordered or agree
        if len(results) > 1 and any(r != results[0] for r in results):
            conflict = conflicting(hist, t)
            ctx.count('ctx', 'order-dependent:' + ('conflict' if conflict else 'NO-CONFLICT'))
            if not conflict:
                sig = ({'kind': 'versioning-value-shape-change'} if shape_change(hist)
                       else {'kind': 'version-key-collision'} if key_collision(hist)
                       else {'kind': 'order-dependent-merge'})
                ctx.violation('upstream context depends on the order rows are listed although no '
                              'two concurrent branches publish the same variable',
                              {'history': hist, 'task': t['name'], 'results': results[:3]}, sig)
        # continue the history with the first order
        first = [FakeTaskEx(p, copy.deepcopy(inb[p]), copy.deepcopy(hist_pub(hist, p))) for p in orders[0]]
        in_ctx = data_flow.evaluate_upstream_context(first) if first else {}
        in_ctx = copy.deepcopy(in_ctx)
        in_ctx.pop('__task_execution', None)
        inb[t['name']] = in_ctx
        # ---- outbound
        tex = FakeTaskEx(t['name'], copy.deepcopy(in_ctx), copy.deepcopy(t['published']))
        b_in, b_pub = copy.deepcopy(tex.in_context), copy.deepcopy(tex.published)
        real_out = data_flow.evaluate_task_outbound_context(tex)
        if tex.in_context != b_in or tex.published != b_pub:
            ctx.violation('evaluate_task_outbound_context modified the stored context',
                          {'history': hist, 'task': t['name']},
                          {'kind': 'stored-context-mutated', 'fn': 'evaluate_task_outbound_context'})
        mo = drv.call('ctx.outbound', {'in': canon_ctx(in_ctx) if in_ctx else {'data': {}, 'vers': {}},
                                       'published': t['published']})
        io = canon_ctx(real_out)
        ctx.evaluated('ctx', [canon_ctx(in_ctx) if in_ctx else {}, t['published']], nontrivial=bool(t['published']))
        ctx.count('ctx', 'outbound')
        if norm(mo) != norm(io):
            ctx.disagree('ctx', {'fn': 'outbound', 'in': in_ctx, 'published': t['published']}, mo, io)
        outb[t['name']] = copy.deepcopy(real_out)
        # ---- C05 monitor: latest causal publisher wins
        check_latest(ctx, hist, t, in_ctx)
    tie_history(ctx, drv, hist, causal, inb, outb)
    tie_final(ctx, drv, hist, inb, outb)
    cfg.CONF.clear_override('hash_version_keys', group='context_versioning')
    return inb


class _StubWfEx(object):
    root_execution_id = None

    def __init__(self, env, context, input_):
        self.params = {'env': env}
        self.context = context
        self.input = input_


def end_tasks(hist):
    return [t['name'] for t in hist if not any(t['name'] in c['parents'] for c in hist)]


def final_plan(hist):
    """the order in which the database lists the end tasks and the batch size: a deterministic function of the
    history (replays reproduce it)"""
    import random
    r = random.Random(json.dumps(hist, sort_keys=True, default=str))
    ends = end_tasks(hist)
    r.shuffle(ends)
    return ends, r.choice([1, 2, 2, 3, 3, 4, 20])


def real_final_context(ends, size, inb, hist):
    """the REAL DirectWorkflowController.evaluate_workflow_final_context (and through it the real
    evaluate_upstream_context with `additive_context`); only the database read is replaced: the rows come in
    slices of `size` as get_completed_task_executions_as_batches yields them (20 in the code)"""
    from mistral.workflow import direct_workflow
    ctrl = object.__new__(direct_workflow.DirectWorkflowController)
    rows = [FakeTaskEx(e, copy.deepcopy(inb[e]), copy.deepcopy(hist_pub(hist, e))) for e in ends]
    ctrl._find_end_task_executions_as_batches = lambda: (rows[i:i + size] for i in range(0, len(rows), size))
    return ctrl.evaluate_workflow_final_context()


def tie_final(ctx, drv, hist, inb, outb):
    """Stream `final`: "... visible to a task AND TO THE WORKFLOW OUTPUT".  The real final context over the end
    tasks of the history, read in batches of 1..4 or 20 rows in a shuffled order, vs Hist.finalContext; the real
    evaluate_workflow_output vs Hist.workflowOutput; monitors: the final context is what a join of ALL the end
    tasks would see (leaf-granular causal monitor on a virtual task whose parents are the end tasks), every
    leaf published by an end task is in the output, and another batch size shows the same."""
    from mistral.workflow import data_flow
    ends, size = final_plan(hist)
    real = real_final_context(ends, size, inb, hist)
    outs = [canon_ctx(outb[e]) for e in ends]
    mo = drv.call('ctx.final', {'outs': outs, 'batch': size})
    io = canon_ctx(real) if real else {'data': {}, 'vers': {}}
    io['data'].pop('__task_execution', None)
    ctx.evaluated('final', [outs, size], nontrivial=len(ends) > size)
    ctx.count('final', 'ends:%d,batches:%d' % (min(len(ends), 8), min(-(-len(ends) // size), 4)))
    replay = {'history': hist, 'final': True, 'ends': ends, 'batch': size}
    if norm(mo) != norm(io):
        ctx.disagree('final', {'fn': 'final', 'outs': outs, 'batch': size}, mo, io)
    # ---- monitor: the final context = what a join of all the end tasks would see
    virt = hist + [{'name': '<workflow output>', 'parents': list(ends), 'published': {}}]
    causal = Causal(virt)
    check_leaves(ctx, 'final', causal, '<workflow output>', io['data'], replay)
    # ---- workflow output: default (whole final context) and variable references
    env, wctx, inp = {'x': 'env'}, {'w0': 'var', VARS[1]: 'wfvar'}, {VARS[0]: 'input', VARS[1]: 'input', 'x': 'in'}
    wf_ex = _StubWfEx(env, wctx, inp)
    layers = [{'__env': env}, wctx, inp]
    final_model = {'data': io['data'], 'vers': io['vers']}
    for spec in ({}, {'o0': VARS[0], 'o1': VARS[1]}, {'o0': 'x'}):
        try:
            out = data_flow.evaluate_workflow_output(wf_ex, {o: '<% $.' + v + ' %>' for o, v in spec.items()},
                                                     copy.deepcopy(real) if real else {})
        except Exception as e:
            out = 'error'
        if isinstance(out, dict):
            out = {k: v for k, v in out.items() if k != '__task_execution'}
        mo2 = drv.call('ctx.output', {'spec': [[o, v] for o, v in sorted(spec.items())], 'final': final_model,
                                      'layers': layers})
        ctx.evaluated('final', ['output', final_model, sorted(spec.items())], nontrivial=bool(spec))
        if norm(mo2) != norm(out):
            ctx.disagree('final', {'fn': 'output', 'spec': spec, 'final': final_model}, mo2, out)
        if not spec and isinstance(out, dict):
            # ---- monitor: every leaf published by an end task is in the output (an end task has no successor, so
            # nothing overrides it causally; a concurrent publisher of the same leaf may win, a leaf never vanishes)
            for e in ends:
                for v, leaves in causal.leaves[e].items():
                    others = [a for a in causal.anc['<workflow output>'] if v in causal.leaves[a]]
                    for p in leaves:
                        if any(p not in causal.leaves[a][v] for a in others):
                            continue        # the variable is also published with another shape: check_leaves decides
                        if lookup(out, p)[0] != 'leaf':
                            ctx.violation('end task %s published %s, the workflow output does not have it' % (e, '.'.join(p)),
                                          dict(replay, leaf=list(p), end_task=e),
                                          {'kind': 'end-task-publication-missing-from-output'})
    # ---- monitor: batch-size independence (when no two concurrent end branches publish the same variable)
    if len(ends) > 1 and not conflicting(virt, virt[-1]):
        other = real_final_context(ends, 20 if size != 20 else 2, inb, hist)
        oo = canon_ctx(other) if other else {'data': {}, 'vers': {}}
        oo['data'].pop('__task_execution', None)
        if norm(oo) != norm(io):
            sig = ({'kind': 'versioning-value-shape-change'} if shape_change(hist)
                   else {'kind': 'version-key-collision'} if key_collision(hist)
                   else {'kind': 'final-context-depends-on-batch-size'})
            ctx.violation('the final context depends on the batch size of the database reads', replay, sig)


def tie_history(ctx, drv, hist, causal, inb, outb):
    """Stream `hist`: the tie of Model/Hist.lean (the run the causal theorems are about).  The Lean run of the
    WHOLE history (parents in the listed order) must reproduce the inbound and the outbound context the real
    functions computed for every task, and the causal ancestors; and the decidable hypothesis of the theorems
    (shape-stable republication at a leaf path, `StableHist`) as evaluated by Lean must be what the monitor
    reads off the history."""
    idx = {t['name']: i for i, t in enumerate(hist)}
    tasks = [{'parents': [idx[p] for p in t['parents']], 'published': t['published']} for t in hist]
    rows = drv.call('ctx.run', {'tasks': tasks})
    for t, row in zip(hist, rows):
        real = {'in': canon_ctx(inb[t['name']] or {}), 'out': canon_ctx(outb[t['name']]),
                'anc': sorted(idx[a] for a in causal.anc[t['name']])}
        model = {'in': row['in'], 'out': row['out'], 'anc': sorted(set(row['anc']))}
        ctx.evaluated('hist', [tasks[:idx[t['name']] + 1]], nontrivial=len(t['parents']) >= 2 or bool(t['published']))
        if norm(model) != norm(real):
            ctx.disagree('hist', {'fn': 'run', 'history': hist, 'task': t['name']}, model, real)
    paths = set()
    for t in hist:
        for v in causal.leaves[t['name']]:
            paths |= set(causal.leaves[t['name']][v])
    for p in sorted(paths):
        mine = all(p in causal.leaves[t['name']][p[0]] for t in hist if p[0] in t['published']) and \
            not any(key_str(q) == key_str(p) and q != p for t in hist for v in causal.leaves[t['name']]
                    for q in causal.leaves[t['name']][v])
        lean = drv.call('ctx.stable', {'tasks': tasks, 'var': p[0], 'rest': list(p[1:])})
        ctx.evaluated('hist', ['stable', tasks, list(p)], nontrivial=True)
        ctx.count('hist', 'path:%s' % ('shape-stable(theorem applies)' if lean else 'republished-with-another-shape'))
        if bool(lean) != bool(mine):
            ctx.disagree('hist', {'fn': 'stable', 'history': hist, 'path': list(p)}, lean, mine)
        # the weaker hypotheses (Props.C05Drop): spine-stable = no publication CLASHES with the path;
        # DropsLow = a task that republishes the variable without the leaf saw a version <= 1 of it - read off
        # the REAL inbound contexts here, decided on the model run by Lean
        pubs = [t for t in hist if p[0] in t['published']]
        spine = not any(clashes(t['published'][p[0]], p[1:]) for t in pubs) and \
            not any(key_str(q) == key_str(p) and q != p for t in hist for v in causal.leaves[t['name']]
                    for q in causal.leaves[t['name']][v])
        drops = [t for t in pubs if lookup(t['published'], p)[0] == 'absent']      # as Hist.Drops
        low = all(canon_ctx(inb[t['name']] or {})['vers'].get(key_str(p), 0) <= 1 for t in drops)
        lean2 = drv.call('ctx.stable2', {'tasks': tasks, 'var': p[0], 'rest': list(p[1:])})
        ctx.evaluated('hist', ['stable2', tasks, list(p)], nontrivial=bool(drops))
        if not lean:
            ctx.count('hist', 'path:%s' % ('leaf dropped, weaker theorem applies' if lean2['spine'] and lean2['dropsLow']
                                           else 'outside the theorems (finding G territory)'))
        if norm(lean2) != norm({'spine': spine, 'dropsLow': low}):
            ctx.disagree('hist', {'fn': 'stable2', 'history': hist, 'path': list(p)}, lean2,
                         {'spine': spine, 'dropsLow': low})


def _h(*tasks):
    return [{'name': 't%d' % i, 'parents': ['t%d' % p for p in ps], 'published': pub} for i, (ps, pub) in enumerate(tasks)]


# the histories of the Lean examples (Props.C05Causal.exH, Props.C05Drop.exD) and of the counter-witness
# Props.C05Drop.exG (drop_after_two_generations_fails), with the expected visible d.x at the last join
WITNESSES = [
    ('exH', _h(([], {'d': {'x': 0, 'y': 0}}), ([0], {'d': {'x': 'A', 'y': 0}}), ([0], {}), ([0], {'w': 1}),
               ([2, 1], {}), ([4, 3], {})), 'A'),
    ('exD', _h(([], {'d': {'x': 0, 'y': 0}}), ([0], {'d': {'x': 'A', 'y': 0}}), ([0], {'d': {'y': 'B'}}), ([0], {}),
               ([1, 2], {}), ([4], {}), ([5, 3], {})), 'A'),
    ('exG', _h(([], {'d': {'x': 0, 'y': 0}}), ([0], {'d': {'x': 'A', 'y': 0}}), ([1], {'d': {'y': 'Z'}}), ([0], {}),
               ([1], {}), ([3, 2], {}), ([4, 5], {})), 0),
]


def run_witnesses(ctx):
    """the histories the Lean examples / the `_fails` theorem are about, on the REAL functions: exH and exD show
    the value the theorems give, exG shows the stale value (that is the replay of the counter-witness; the
    monitor files it under known finding G)"""
    for name, hist, want in WITNESSES:
        for hashed in (False, True):
            inb = run_history(ctx, copy.deepcopy(hist), hashed)
            got = lookup(inb[hist[-1]['name']], ('d', 'x'))
            ctx.evaluated('hist', ['witness', name, hashed], nontrivial=True)
            ctx.count('hist', 'witness:%s' % name)
            if got != ('leaf', want):
                ctx.disagree('hist', {'fn': 'witness', 'name': name, 'history': hist}, ['leaf', want], list(got))


def run_chunk(ctx, n_histories):
    rng = ctx.rng
    if getattr(ctx, 'chunk', 0) == 0:
        run_witnesses(ctx)
    for hi in range(n_histories):
        hashed = rng.random() < 0.5
        ctx.count('ctx', 'hashed-version-keys' if hashed else 'plain-version-keys')
        hist = gen_history(rng)
        inb = run_history(ctx, hist, hashed)
        tie_lookup(ctx, rng, inb[hist[-1]['name']])
        if rng.random() < 0.01:
            ctx.sample({'stream': 'ctx', 'history': hist, 'final_in': inb[hist[-1]['name']]})


def tie_lookup(ctx, rng, in_ctx):
    """the REAL ContextView over (inbound context, environment, workflow context = vars, input) vs
    Ctx.viewLookup: the value comes from the first layer that has the key ("falling back to workflow input,
    vars and environment"); and the view never modifies its layers"""
    from harness import boot
    boot.boot()
    from mistral.workflow import data_flow
    drv = ctx.driver()
    pool = VARS + ['x', 'w0']

    def layer():
        return {k: copy.deepcopy(rng.choice(VALS)) for k in rng.sample(pool, rng.randint(0, 3))}
    layers = [{k: v for k, v in (in_ctx or {}).items() if k != '__versions'}, {'__env': layer()}, layer(), layer()]
    before = copy.deepcopy(layers)
    view = data_flow.ContextView(*layers)
    for k in pool + ['__env']:
        try:
            real = {'found': view[k]}
        except KeyError:
            real = 'KeyError'
        if (k in view) != (real != 'KeyError') or view.get(k, '<d>') != (real['found'] if real != 'KeyError' else '<d>'):
            ctx.violation('ContextView.__contains__/get disagree with __getitem__', {'layers': layers, 'key': k},
                          {'kind': 'context-view-inconsistent'})
        # statement monitor: "falling back to workflow input, vars and environment" - the value is the one of
        # the FIRST of (inbound context, environment, workflow context, input) that has the variable
        first = next((d for d in before if k in d), None)
        exp = 'KeyError' if first is None else {'found': first[k]}
        if norm(exp) != norm(real):
            ctx.violation('ContextView lookup of %r does not return the value of the first layer that has it' % k,
                          {'lookup': True, 'layers': before, 'key': k, 'expected': exp, 'got': real},
                          {'kind': 'lookup-priority'})
        mo = drv.call('ctx.lookup', {'layers': layers, 'key': k})
        ctx.evaluated('lookup', [layers, k], nontrivial=sum(1 for d in layers if k in d) >= 2)
        ctx.count('lookup', 'found-in-layer:%s' % next((i for i, d in enumerate(layers) if k in d), 'none'))
        if norm(mo) != norm(real):
            ctx.disagree('lookup', {'layers': layers, 'key': k}, mo, real)
    if layers != before:
        ctx.violation('ContextView modified a layer', {'layers': before}, {'kind': 'stored-context-mutated', 'fn': 'ContextView'})


def replay_lookup(ctx, rep):
    from harness import boot
    boot.boot()
    from mistral.workflow import data_flow
    layers, k = rep['layers'], rep['key']
    view = data_flow.ContextView(*copy.deepcopy(layers))
    try:
        real = {'found': view[k]}
    except KeyError:
        real = 'KeyError'
    first = next((d for d in layers if k in d), None)
    exp = 'KeyError' if first is None else {'found': first[k]}
    if norm(exp) != norm(real):
        ctx.violation('ContextView lookup of %r does not return the value of the first layer that has it' % k,
                      dict(rep, got=real), {'kind': 'lookup-priority'})


def replay(ctx, rep):
    if rep.get('lookup'):
        return replay_lookup(ctx, rep)
    hist = rep['history']
    run_history(ctx, [{k: v for k, v in t.items() if k != 'hashed'} for t in hist], hist[0].get('hashed', True))


def hist_pub(hist, name):
    return [t for t in hist if t['name'] == name][0]['published']


def ancestors(hist, name):
    by = {t['name']: t for t in hist}
    seen = set()
    stack = list(by[name]['parents'])
    while stack:
        x = stack.pop()
        if x in seen:
            continue
        seen.add(x)
        stack += by[x]['parents']
    return seen


def conflicting(hist, t):
    """two publishers of the same variable among the ancestors that are not causally ordered"""
    anc = ancestors(hist, t['name'])
    by = {x['name']: x for x in hist}
    pubs = {}
    for a in anc:
        for v in by[a]['published']:
            pubs.setdefault(v, []).append(a)
    for v, ps in pubs.items():
        for a, b in itertools.combinations(ps, 2):
            if a not in ancestors(hist, b) and b not in ancestors(hist, a):
                return True
    return False


def leaf_paths(val, pre=''):
    if isinstance(val, dict):
        res = set()
        for k, v in val.items():
            res |= leaf_paths(v, pre + '.' + k)
        return frozenset(res)
    return frozenset([pre])


def key_collision(hist):
    """two different leaf paths of the history that the UNREPAIRED code keys alike (names joined by '.' as they
    are): the precondition of the dotted-name defect (repo patch 28)"""
    seen = {}
    for t in hist:
        for v, val in (t['published'] or {}).items():
            for p in leaf_map(val, (v,)):
                if seen.setdefault('.'.join(p), p) != p:
                    return True
    return False


def shape_change(hist):
    """does some variable get published with two different leaf-path sets (scalar vs dict, or dicts
    with different nested keys)?  The versioning scheme keys versions by the leaf paths of the NEW
    value, so such republishes are not ordered against the old leaves (known finding G)."""
    kinds = {}
    for t in hist:
        for v, val in t['published'].items():
            kinds.setdefault(v, set()).add(leaf_paths(val))
    return any(len(k) > 1 for k in kinds.values())


def check_latest(ctx, hist, t, in_ctx):
    anc = ancestors(hist, t['name'])
    by = {x['name']: x for x in hist}
    for v in VARS:
        ps = [a for a in anc if v in by[a]['published']]
        if not ps:
            if v in (in_ctx or {}):
                ctx.violation('variable visible although no ancestor published it',
                              {'history': hist, 'task': t['name'], 'var': v}, {'kind': 'phantom-variable'})
            continue
        # the causally latest publisher: one that has every other publisher as an ancestor
        latest = [p for p in ps if all(q == p or q in ancestors(hist, p) for q in ps)]
        if len(latest) != 1:
            continue        # concurrent publishers: outside the statement (conflicting branches)
        exp = by[latest[0]]['published'][v]
        got = (in_ctx or {}).get(v, '<missing>')
        ctx.count('ctx', 'latest-checked')
        if norm(got) != norm(exp):
            # nested dict values merge key-wise by design only when both sides are dicts
            # (finding G is about MERGES: with no join at or above the task a wrong value is never G)
            merged = any(len(by[a]['parents']) >= 2 for a in anc | {t['name']})
            sig = ({'kind': 'versioning-value-shape-change'} if shape_change(hist) and merged
                   else {'kind': 'version-key-collision'} if key_collision(hist) and merged
                   else {'kind': 'stale-value'})
            ctx.violation('a task does not see the value of the causally latest publisher',
                          {'history': hist, 'task': t['name'], 'var': v, 'expected': exp, 'got': got}, sig)


# ---------------------------------------------------------------------------------------------
# The LEAF-granular causal monitor (a direct reading of the statement at the granularity at which
# the code versions data: one version per leaf path of a published value).
#
# For a task t and a leaf path p = (var, k1, .., kn):
#   P  = the ancestors of t whose published value of `var` has p as a leaf      (publishers of p)
#   M  = the members of P that are not a strict causal ancestor of another one  (maximal publishers)
#   SC = the ancestors that publish `var` with a value in which p is NOT a leaf (they republish the
#        variable wholesale without p, or with another shape at/above p)
# "never replaced at a join by a stale copy another branch merely inherited": a leaf value visible to t
# is the value of a member of M - never only that of a publisher which is a strict ancestor of another
# publisher of p on a path to t.  "the one published by the latest task on the causal path": when M is a
# single task its value is the visible one.  A leaf that is not visible (absent, or a dict in its
# place) is legitimate only below a wholesale republication that no publisher of p causally follows.
# What the versioning scheme cannot order at all is a republication with ANOTHER SHAPE (versions are
# keyed by the leaf paths of the NEW value): such deviations carry the signature of known finding G.
def leaf_map(val, pre):
    if isinstance(val, dict):
        res = {}
        for k, x in val.items():
            res.update(leaf_map(x, pre + (k,)))
        return res
    return {pre: val}


def lookup(data, path):
    cur = data
    for i, k in enumerate(path):
        if not isinstance(cur, dict) or k not in cur:
            return ('absent', None)
        cur = cur[k]
    return ('dict', None) if isinstance(cur, dict) else ('leaf', cur)


def clashes(val, path):
    """the value has ANOTHER SHAPE at the path: a non-dict at a proper prefix of it, or a dict at it (as
    opposed to: dicts all the way down to a key that is simply missing)"""
    cur = val
    for k in path:
        if not isinstance(cur, dict):
            return True
        if k not in cur:
            return False
        cur = cur[k]
    return isinstance(cur, dict)


def two_generations(causal, P, d):
    """task d has two publishers of the leaf among its causal ancestors one of which follows the other"""
    above = [q for q in P if q in causal.anc[d]]
    return any(a in causal.anc[b] for a in above for b in above)


class Causal(object):
    """strict-ancestor sets and per-task leaf maps of a history [{'name','parents','published'}]"""

    def __init__(self, hist):
        self.by = {t['name']: t for t in hist}
        self.anc = {}
        for t in hist:          # histories are listed in a topological order
            a = set()
            for p in t['parents']:
                if p in self.anc:
                    a.add(p)
                    a |= self.anc[p]
            self.anc[t['name']] = a
        self.leaves = {t['name']: {v: leaf_map(val, (v,)) for v, val in (t['published'] or {}).items()}
                       for t in hist}
        self.collision = key_collision(hist)

    def before(self, a, b):
        """a is b or a strict causal ancestor of b"""
        return a == b or a in self.anc[b]


def hist_class(hist, causal):
    joins = [t for t in hist if len(t['parents']) >= 2]
    roots = [t for t in hist if not t['parents']]
    chained = any(any(j2['name'] in causal.anc[j['name']] for j2 in joins) for j in joins)
    nested = any(isinstance(v, dict) and v for t in hist for v in t['published'].values())
    return '%s%s%s%s' % ('nested,' if nested else 'flat,', 'chained-joins,' if chained else
                         ('join,' if joins else 'no-join,'), 'wide,' if any(len(j['parents']) >= 3 for j in joins)
                         else '', 'multi-root' if len(roots) > 1 else 'one-root')


def check_leaves(ctx, stream, causal, tname, data, replay, inputs=None):
    anc = causal.anc[tname]
    data = data or {}
    # finding G is about MERGES: with no join at or above the task no deviation is ever classified as G
    merged = any(len(causal.by[a]['parents']) >= 2 for a in anc | {tname})
    by_var = {}
    for a in anc:
        for v in causal.leaves[a]:
            by_var.setdefault(v, []).append(a)
    for v, pubs in sorted(by_var.items()):
        paths = set()
        for a in pubs:
            paths |= set(causal.leaves[a][v])
        for p in sorted(paths):
            P = [a for a in pubs if p in causal.leaves[a][v]]
            SC = [a for a in pubs if p not in causal.leaves[a][v]]
            M = [q for q in P if not any(q in causal.anc[q2] for q2 in P)]
            kind, x = lookup(data, p)
            ctx.count(stream, 'leaf-checked:%s%s' % ('unique-latest' if len(M) == 1 else 'concurrent',
                                                     ',republished-without' if SC else ''))
            what = sig = None
            if kind == 'leaf':
                if any(norm(x) == norm(causal.leaves[q][v][p]) for q in M):
                    continue
                cands = [w for w in P if norm(causal.leaves[w][v][p]) == norm(x)]
                if not cands:
                    what = 'the visible value of %s was published by no causal predecessor' % '.'.join(p)
                    sig = {'kind': 'leaf-value-from-nowhere'}
                else:
                    # known finding G needs a republication whose value CLASHES with the path (a non-dict above
                    # it, or a dict at it: any inherited copy of such a value is compared under another version
                    # key), or a wholesale republication WITHOUT the leaf by a task that has already seen TWO
                    # generations of it (its context keeps the version without the value and a staler copy
                    # inherits it at the next join).  Outside that (Props.C05Drop: spine-stable republication,
                    # DropsLow) the statement is a theorem of the model and a deviation is a violation.
                    g = any(clashes(causal.by[d]['published'][v], p[1:]) or two_generations(causal, P, d)
                            for d in SC)
                    what = ('task %s sees %s = %r, the copy of %s, although %s published it causally later'
                            % (tname, '.'.join(p), x, cands, M))
                    sig = {'kind': 'versioning-value-shape-change'} if g and merged else {'kind': 'stale-leaf-value'}
            else:
                if not SC:
                    what = ('every causal predecessor of %s that publishes %s publishes the leaf %s, yet it is '
                            'not visible (%s)' % (tname, v, '.'.join(p), kind))
                    sig = {'kind': 'leaf-lost'}
                elif any(not any(d in causal.anc[q] for q in P) for d in SC):
                    continue        # below a wholesale republication without p that no publisher of p follows
                else:
                    what = ('leaf %s is not visible to %s (%s) although %s published it after every '
                            'republication of another shape' % ('.'.join(p), tname, kind, M))
                    clash = any(clashes(causal.by[d]['published'][v], p[1:]) for d in SC)
                    sig = {'kind': 'versioning-value-shape-change'} if merged and clash else {'kind': 'leaf-lost'}
            if merged and causal.collision and sig['kind'] != 'versioning-value-shape-change':
                sig = {'kind': 'version-key-collision'}
            ctx.count(stream, 'leaf-monitor-hit:' + sig['kind'])
            ctx.violation(what, dict(replay, leaf=list(p), visible=[kind, x], publishers=sorted(P),
                                     maximal=sorted(M), other_shape=sorted(SC)), sig)
