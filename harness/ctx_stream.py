"""Stream `ctx`: the real context functions (context_versioning, data_flow) vs Mistral.Ctx on
generated publish histories over fork/join DAGs, in all row orders for small joins.

Also the C05 monitor: along a generated history the value a join sees for a variable is the one
published by the causally latest publisher among its ancestors (when that is unique), and the
stored contexts are never modified by evaluation."""
import copy
import itertools
import json

VALS = [0, 1, 2, 'a', 'b', None, True, [1, 2], {'k': 1}, {'k': 5}, {'k': {'m': 2}}, {'k': {'m': 7}}, {'k': 2, 'n': 3},
        {'k': 4, 'n': 9}, {}]
VARS = ['v0', 'v1', 'v2', 'v3']


class FakeTaskEx(object):
    def __init__(self, name, in_context, published, id_=None):
        self.name = name
        self.in_context = in_context
        self.published = published
        self.id = id_ or name


UNHASH = {}


def learn_paths(published):
    """remember md5(path) -> path for every leaf path of a published dict: the model keeps version
    keys as plain paths, the implementation (hash_version_keys, the default) as their md5; the
    comparison canonicalises real keys back to paths.  A real key that is not the md5 of a leaf
    path that was ever published stays as it is and shows up as a disagreement."""
    import hashlib
    for v, val in (published or {}).items():
        for lp in leaf_paths(val, v):
            UNHASH[hashlib.md5(lp.encode('utf-8')).hexdigest()] = lp


def canon_ctx(ctx):
    """{'data':..., 'vers':...} from a python context dict (sorted later by json dumps)"""
    d = {k: v for k, v in ctx.items() if k != '__versions'}
    return {'data': d, 'vers': {UNHASH.get(k, k): v for k, v in ctx.get('__versions', {}).items()}}


def norm(x):
    return json.loads(json.dumps(x, sort_keys=True))


def gen_history(rng, n=None):
    """A DAG of publishing tasks: task i has parents (earlier tasks); a task with >=2 parents is a join.
    returns list of {'name','parents':[names],'published':dict}"""
    n = n or rng.randint(2, 8)
    tasks = []
    # 75% of the histories keep the shape of every variable (where the property is claimed to
    # hold); the rest mix shapes freely (exercises known finding G)
    shapes = {} if rng.random() < 0.75 else None
    for i in range(n):
        k = 0 if i == 0 else rng.choice([1, 1, 1, 2, 2, 3])
        parents = sorted(rng.sample(range(i), min(k, i)))
        pub = {}
        for _ in range(rng.choice([0, 1, 1, 2])):
            v = rng.choice(VARS)
            if shapes is not None and rng.random() < 0.97:
                # shape-preserving republish: same leaf-path set as the first value of this variable
                cands = [x for x in VALS if leaf_paths(x) == shapes.setdefault(v, leaf_paths(rng.choice(VALS)))]
                pub[v] = copy.deepcopy(rng.choice(cands))
            else:
                pub[v] = copy.deepcopy(rng.choice(VALS))
        tasks.append({'name': 't%d' % i, 'parents': ['t%d' % p for p in parents], 'published': pub})
    return tasks


def run_history(ctx, hist, hashed):
    from harness import boot
    boot.boot()
    from oslo_config import cfg
    from mistral.workflow import data_flow
    drv = ctx.driver()
    cfg.CONF.set_override('hash_version_keys', hashed, group='context_versioning')
    for t in hist:
        learn_paths(t['published'])
    hist = [dict(t, hashed=hashed) if i == 0 else t for i, t in enumerate(hist)]   # replays carry the mode
    inb = {}
    outb = {}
    ok = True
    for t in hist:
        # ---- inbound context = upstream of the parents' outbound contexts (real code)
        parents = t['parents']
        orders = [list(parents)]
        if 2 <= len(parents) <= 4:
            orders = [list(p) for p in itertools.permutations(parents)]
        results = []
        for order in orders:
            execs = [FakeTaskEx(p, copy.deepcopy(inb[p]), copy.deepcopy(hist_pub(hist, p))) for p in order]
            before = [(copy.deepcopy(e.in_context), copy.deepcopy(e.published)) for e in execs]
            real = data_flow.evaluate_upstream_context(list(execs))
            # C05 monitor: evaluation never modifies the stored contexts
            for e, (bi, bp) in zip(execs, before):
                if e.in_context != bi:
                    ctx.violation('evaluate_upstream_context modified an inbound context object',
                                  {'history': hist, 'task': t['name'], 'order': order},
                                  {'kind': 'stored-context-mutated', 'fn': 'evaluate_upstream_context'})
                if e.published != bp:
                    # nested dicts of `published` are shared with the outbound context and merged
                    # in place; whether that reaches the DATABASE is decided by the engine-level
                    # monitor (committed `published` of a completed task never changes)
                    ctx.count('ctx', 'in-memory-published-object-mutated')
            outs = [canon_ctx(outb[p]) for p in order]
            mo = drv.call('ctx.upstream', {'outs': outs})
            io = canon_ctx(real) if real else {'data': {}, 'vers': {}}
            io['data'].pop('__task_execution', None)
            ctx.evaluated('ctx', [outs], nontrivial=len(parents) >= 2)
            ctx.count('ctx', 'upstream:%d' % len(parents))
            if norm(mo) != norm(io):
                ctx.disagree('ctx', {'fn': 'upstream', 'outs': outs}, mo, io)
                ok = False
            results.append(norm(io))
        # ---- C05 monitor: order independence when publishers are causally ordered or agree
        if len(results) > 1 and any(r != results[0] for r in results):
            conflict = conflicting(hist, t)
            ctx.count('ctx', 'order-dependent:' + ('conflict' if conflict else 'NO-CONFLICT'))
            if not conflict:
                sig = ({'kind': 'versioning-value-shape-change'} if shape_change(hist)
                       else {'kind': 'order-dependent-merge'})
                ctx.violation('upstream context depends on the order rows are listed although no '
                              'two concurrent branches publish the same variable',
                              {'history': hist, 'task': t['name'], 'results': results[:3]}, sig)
        # continue the history with the first order
        first = [FakeTaskEx(p, copy.deepcopy(inb[p]), copy.deepcopy(hist_pub(hist, p))) for p in orders[0]]
        in_ctx = data_flow.evaluate_upstream_context(first) if first else {}
        in_ctx = copy.deepcopy(in_ctx)
        in_ctx.pop('__task_execution', None)
        inb[t['name']] = in_ctx
        # ---- outbound
        tex = FakeTaskEx(t['name'], copy.deepcopy(in_ctx), copy.deepcopy(t['published']))
        b_in, b_pub = copy.deepcopy(tex.in_context), copy.deepcopy(tex.published)
        real_out = data_flow.evaluate_task_outbound_context(tex)
        if tex.in_context != b_in or tex.published != b_pub:
            ctx.violation('evaluate_task_outbound_context modified the stored context',
                          {'history': hist, 'task': t['name']},
                          {'kind': 'stored-context-mutated', 'fn': 'evaluate_task_outbound_context'})
        mo = drv.call('ctx.outbound', {'in': canon_ctx(in_ctx) if in_ctx else {'data': {}, 'vers': {}},
                                       'published': t['published']})
        io = canon_ctx(real_out)
        ctx.evaluated('ctx', [canon_ctx(in_ctx) if in_ctx else {}, t['published']], nontrivial=bool(t['published']))
        ctx.count('ctx', 'outbound')
        if norm(mo) != norm(io):
            ctx.disagree('ctx', {'fn': 'outbound', 'in': in_ctx, 'published': t['published']}, mo, io)
        outb[t['name']] = copy.deepcopy(real_out)
        # ---- C05 monitor: latest causal publisher wins
        check_latest(ctx, hist, t, in_ctx)
    cfg.CONF.clear_override('hash_version_keys', group='context_versioning')
    return inb


def run_chunk(ctx, n_histories):
    rng = ctx.rng
    for hi in range(n_histories):
        hashed = rng.random() < 0.5
        ctx.count('ctx', 'hashed-version-keys' if hashed else 'plain-version-keys')
        hist = gen_history(rng)
        inb = run_history(ctx, hist, hashed)
        if rng.random() < 0.01:
            ctx.sample({'stream': 'ctx', 'history': hist, 'final_in': inb[hist[-1]['name']]})


def replay(ctx, rep):
    hist = rep['history']
    run_history(ctx, [{k: v for k, v in t.items() if k != 'hashed'} for t in hist], hist[0].get('hashed', True))


def hist_pub(hist, name):
    return [t for t in hist if t['name'] == name][0]['published']


def ancestors(hist, name):
    by = {t['name']: t for t in hist}
    seen = set()
    stack = list(by[name]['parents'])
    while stack:
        x = stack.pop()
        if x in seen:
            continue
        seen.add(x)
        stack += by[x]['parents']
    return seen


def conflicting(hist, t):
    """two publishers of the same variable among the ancestors that are not causally ordered"""
    anc = ancestors(hist, t['name'])
    by = {x['name']: x for x in hist}
    pubs = {}
    for a in anc:
        for v in by[a]['published']:
            pubs.setdefault(v, []).append(a)
    for v, ps in pubs.items():
        for a, b in itertools.combinations(ps, 2):
            if a not in ancestors(hist, b) and b not in ancestors(hist, a):
                return True
    return False


def leaf_paths(val, pre=''):
    if isinstance(val, dict):
        res = set()
        for k, v in val.items():
            res |= leaf_paths(v, pre + '.' + k)
        return frozenset(res)
    return frozenset([pre])


def shape_change(hist):
    """does some variable get published with two different leaf-path sets (scalar vs dict, or dicts
    with different nested keys)?  The versioning scheme keys versions by the leaf paths of the NEW
    value, so such republishes are not ordered against the old leaves (known finding G)."""
    kinds = {}
    for t in hist:
        for v, val in t['published'].items():
            kinds.setdefault(v, set()).add(leaf_paths(val))
    return any(len(k) > 1 for k in kinds.values())


def check_latest(ctx, hist, t, in_ctx):
    anc = ancestors(hist, t['name'])
    by = {x['name']: x for x in hist}
    for v in VARS:
        ps = [a for a in anc if v in by[a]['published']]
        if not ps:
            if v in (in_ctx or {}):
                ctx.violation('variable visible although no ancestor published it',
                              {'history': hist, 'task': t['name'], 'var': v}, {'kind': 'phantom-variable'})
            continue
        # the causally latest publisher: one that has every other publisher as an ancestor
        latest = [p for p in ps if all(q == p or q in ancestors(hist, p) for q in ps)]
        if len(latest) != 1:
            continue        # concurrent publishers: outside the statement (conflicting branches)
        exp = by[latest[0]]['published'][v]
        got = (in_ctx or {}).get(v, '<missing>')
        ctx.count('ctx', 'latest-checked')
        if norm(got) != norm(exp):
            # nested dict values merge key-wise by design only when both sides are dicts
            sig = ({'kind': 'versioning-value-shape-change'} if shape_change(hist) else {'kind': 'stale-value'})
            ctx.violation('a task does not see the value of the causally latest publisher',
                          {'history': hist, 'task': t['name'], 'var': v, 'expected': exp, 'got': got}, sig)
