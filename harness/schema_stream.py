"""C14 Tie B, schema level: Lean `Mistral.Schema.validate` over the GENERATED schemas (Gen/LangSchemas.lean)
vs the real `BaseSpec.validate_schema` (= jsonschema.validate(data, cls.get_schema())) of the spec classes.

streams
  schema     (spec class, data) pairs.  Sources: (a) every call of `BaseSpec.validate_schema` the real parsers /
             services make while the C14 `lang` stream runs (a recorder around the base method: exactly the
             dicts mistral validates, injections included), (b) role-based extraction from every YAML document
             that parsed (each node against the spec classes of its role, raw and with the name/version/type
             injections; found also below a level the real run never reaches because it stopped at the first
             error), (c) cross pairs (random node x random class), (d) hand-written corner values.
             Compared: accept / reject, TypeError (non-string key reached) or not, and the multiset of
             (absolute path, failing keyword) of ALL top-level errors (`iter_errors` of the validator class
             `jsonschema.validate` picks).
  schema-re  Lean `Re.search` vs python `re.search` for every pattern of the schemas on keys / strings harvested
             from the documents, soups over a pattern-specific alphabet and non-ASCII word / space characters.
  schema-eq  Lean `equal` vs `jsonschema._utils.equal` on pairs of harvested nodes (enum / uniqueItems).

Monitor: the base `validate_schema` raises nothing but InvalidModelException (schema-level totality).
"""
import datetime
import hashlib
import json
import re

from harness import lang_env as E


class Untransportable(Exception):
    pass


# ------------------------------------------------------------------ transport
def key_repr(k):
    """canonical text of a non-string mapping key: python-equal keys (1, 1.0, True) get the same text."""
    if k is None:
        return 'None'
    if isinstance(k, (bool, int, float)):
        if isinstance(k, float) and k != k:
            return 'nan'
        if isinstance(k, float) and k in (float('inf'), float('-inf')):
            return repr(k)
        try:
            if k == int(k):
                return 'n:%d' % int(k)
        except (OverflowError, ValueError):
            pass
        return 'n:%r' % (k,)
    return '%s:%r' % (type(k).__name__, k)


def enc(v, depth=0):
    if depth > 200:
        raise Untransportable('too deep')
    if v is None or v is True or v is False:
        return v
    if isinstance(v, str):
        try:
            v.encode('utf-8')
        except UnicodeEncodeError:
            raise Untransportable('surrogate')
        if '\x00' in v:
            # lean's String is fine with it, the JSON line protocol too; keep
            pass
        return v
    if isinstance(v, int):
        return {'i': str(v)}
    if isinstance(v, float):
        if v != v:
            return {'f': 'nan'}
        if v == float('inf'):
            return {'f': 'inf'}
        if v == float('-inf'):
            return {'f': '-inf'}
        n, d = v.as_integer_ratio()
        return {'f': [str(n), str(d)]}
    if isinstance(v, list):
        return [enc(x, depth + 1) for x in v]
    if isinstance(v, dict):
        out = []
        for k, x in v.items():
            if isinstance(k, str):
                try:
                    k.encode('utf-8')
                except UnicodeEncodeError:
                    raise Untransportable('surrogate')
                out.append([k, enc(x, depth + 1)])
            else:
                out.append([{'ns': key_repr(k)}, enc(x, depth + 1)])
        return {'o': out}
    return {'x': '%s:%r' % (type(v).__name__, v)}


def has_nan_in_sortable_list(v):
    """`_utils.uniq` sorts first; with nan in an all-number list the adjacent-pairs pass is not a full
    uniqueness test (model: all pairs).  Such values are compared on the verdict only."""
    if isinstance(v, list):
        if any(isinstance(x, float) and x != x for x in v):
            return True
        return any(has_nan_in_sortable_list(x) for x in v)
    if isinstance(v, dict):
        return any(has_nan_in_sortable_list(x) for x in v.values())
    return False


def hkey(cls, t):
    return hashlib.sha1((cls + '\x00' + json.dumps(t, sort_keys=True)).encode('utf-8', 'surrogatepass')).hexdigest()


# ------------------------------------------------------------------ the real side
_R = {'enabled': False, 'installed': False, 'records': {}, 'seen': set(), 'order': [], 'calls': 0, 'undeclared': [], 'cap': 60000,
      'docs': [], 'doc_cap': 20000}


def spec_classes(st):
    """concrete spec classes by name (what instantiate_spec can instantiate)."""
    if 'schema_classes' in st:
        return st['schema_classes']
    import importlib
    import pkgutil
    import mistral.lang.v2 as v2
    base = st['lang_base']
    out = {}
    for m in pkgutil.iter_modules(v2.__path__):
        mod = importlib.import_module('mistral.lang.v2.' + m.name)
        if m.name == 'base':
            continue
        for cname, cls in vars(mod).items():
            if isinstance(cls, type) and issubclass(cls, base.BaseSpec) and cls.__module__ == mod.__name__:
                if '_polymorphic_key' in vars(cls) and not hasattr(cls, '_polymorphic_value'):
                    continue
                out[cname] = cls
    st['schema_classes'] = out
    return out


def _validator(st, cls):
    cache = st.setdefault('schema_validators', {})
    if cls not in cache:
        from jsonschema import validators
        schema = cls.get_schema()
        vcls = validators.validator_for(schema)
        cache[cls] = vcls(schema)
    return cache[cls]


def canon_path(instance, path):
    out = []
    cur = instance
    for p in path:
        while isinstance(cur, dict) and p not in cur and None in cur:
            cur = cur[None]                 # a key None was dropped from the path (see canon_model_path)
        if isinstance(cur, list):
            out.append('i:%d' % p)
            cur = cur[p]
        else:
            out.append('k:' + p if isinstance(p, str) else 'n:' + key_repr(p))
            cur = cur[p]
    return out


def real_errors(st, cls, data):
    """(sorted [(path, keyword)], crashed) of the validator `jsonschema.validate` would build."""
    v = _validator(st, cls)
    errs = []
    crashed = False
    try:
        for e in v.iter_errors(data):
            errs.append([canon_path(data, list(e.absolute_path)), e.validator])
    except TypeError:
        crashed = True
    return sorted(errs), crashed


def real_verdict(st, cls, data):
    """the base `validate_schema` exactly as a spec object runs it -> ok | invalid | undeclared:<exc>
    (whether the rejection came from a ValidationError or from the TypeError of a non-string key is compared through
    the `crash` flag of `real_errors`)"""
    base = st['lang_base']
    exc = st['exc']
    obj = cls.__new__(cls)
    obj._data = data
    obj._validate = True
    orig = _R.get('orig') or base.BaseSpec.validate_schema
    try:
        orig(obj)
        return 'ok', None
    except exc.InvalidModelException as e:
        return 'invalid', None
    except E.Hang:
        raise
    except E.WallTimeout:
        raise
    except Exception as e:
        (site, line), lib = E.site_of(e.__traceback__, st['pkg_dir'])
        return 'undeclared:' + type(e).__name__, {'exc': type(e).__name__, 'site': site, 'line': line, 'msg': str(e)[:200]}


def install(st):
    """wrap BaseSpec.validate_schema (the base method every subclass reaches through super()) with a recorder."""
    if _R['installed']:
        _R['enabled'] = True
        return
    base = st['lang_base']
    exc = st['exc']
    orig = base.BaseSpec.validate_schema
    _R['orig'] = orig
    classes = spec_classes(st)

    def validate_schema(self):
        if not _R['enabled']:
            return orig(self)
        cname = type(self).__name__
        rec = None
        if classes.get(cname) is type(self) and len(_R['records']) < _R['cap']:
            _R['calls'] += 1
            try:
                # cheap duplicate test first (repr is C speed); the transport form only for a new value
                h0 = hashlib.sha1((cname + '\x00' + repr(self._data)).encode('utf-8', 'surrogatepass')).digest()
                if h0 not in _R['seen']:
                    _R['seen'].add(h0)
                    t = enc(self._data)
                    k = hkey(cname, t)
                    if k not in _R['records']:
                        # the dict is modified later by the constructors (injections): keep a copy for iter_errors
                        rec = {'cls': cname, 'doc': t, 'src': 'recorded', 'py': _dcopy(self._data)}
                        _R['records'][k] = rec
            except Untransportable:
                pass
            except RecursionError:
                pass
        try:
            r = orig(self)
        except exc.InvalidModelException as e:
            if rec is not None:
                rec['verdict'] = 'invalid'
            raise
        except (E.Hang, E.WallTimeout):
            if rec is not None:
                rec['verdict'] = 'hang'
            raise
        except BaseException as e:
            if rec is not None:
                rec['verdict'] = 'undeclared:' + type(e).__name__
            raise
        if rec is not None:
            rec['verdict'] = 'ok'
        return r
    base.BaseSpec.validate_schema = validate_schema
    # every YAML document that parses is kept for the role-based extraction
    sp = st['sp']
    orig_parse = sp.parse_yaml

    def parse_yaml(text):
        d = orig_parse(text)
        if _R['enabled'] and len(_R['docs']) < _R['doc_cap']:
            try:
                h0 = hashlib.sha1(('\x00doc' + repr(d)).encode('utf-8', 'surrogatepass')).digest()
                if h0 not in _R['seen']:
                    _R['seen'].add(h0)
                    enc(d)                      # transportable at all?
                    _R['docs'].append(_dcopy(d))
            except (Untransportable, RecursionError):
                pass
        return d
    sp.parse_yaml = parse_yaml
    _R['installed'] = True
    _R['enabled'] = True


def pause():
    _R['enabled'] = False


def resume():
    if _R['installed']:
        _R['enabled'] = True


def _dcopy(v):
    if isinstance(v, dict):
        return {k: _dcopy(x) for k, x in v.items()}
    if isinstance(v, list):
        return [_dcopy(x) for x in v]
    return v


# ------------------------------------------------------------------ role-based extraction
POLICY_KEYS = ('retry', 'wait-before', 'wait-after', 'timeout', 'pause-before', 'concurrency', 'fail-on')
CLAUSES = ('on-complete', 'on-success', 'on-error', 'on-skip')


def inject(v, **kw):
    if not isinstance(v, dict):
        return None
    d = dict(v)
    d.update(kw)
    return d


def roles(d):
    """(class name, node) pairs: every node of the document against the spec classes of its role."""
    out = [('WorkflowListSpec', d), ('ActionListSpec', d), ('WorkbookSpec', d)]
    if not isinstance(d, dict):
        return out
    members = [(k, v) for k, v in d.items() if k != 'version']
    for sec in ('workflows', 'actions'):
        if isinstance(d.get(sec), dict):
            members += [(k, v) for k, v in d[sec].items() if k != 'version']
    for name, m in members:
        for c in ('DirectWorkflowSpec', 'ReverseWorkflowSpec', 'ActionSpec'):
            out.append((c, m))
            mi = inject(m, name=name, version='2.0')
            if mi is not None:
                out.append((c, mi))
        if not isinstance(m, dict):
            continue
        td = m.get('task-defaults')
        if td is not None:
            out.append(('TaskDefaultsSpec', td))
            out += sub_roles(td)
        tasks = m.get('tasks')
        if isinstance(tasks, dict):
            for tname, t in tasks.items():
                typ = m.get('type', 'direct')
                for c in ('DirectWorkflowTaskSpec', 'ReverseWorkflowTaskSpec'):
                    out.append((c, t))
                    ti = inject(t, type=typ if isinstance(typ, str) else 'direct', name=tname, version='2.0')
                    if ti is not None:
                        out.append((c, ti))
                out += sub_roles(t)
    return out


def sub_roles(t):
    out = []
    if not isinstance(t, dict):
        return out
    pol = {k: t[k] for k in POLICY_KEYS if k in t and t[k]}
    if pol:
        out.append(('PoliciesSpec', pol))
    if 'retry' in t:
        out.append(('RetrySpec', t['retry']))
    for c in CLAUSES:
        if c in t:
            out.append(('OnClauseSpec', t[c]))
            if isinstance(t[c], dict) and 'publish' in t[c]:
                out.append(('PublishSpec', t[c]['publish']))
    for p in ('publish', 'publish-on-error', 'publish-on-skip'):
        if p in t:
            out.append(('PublishSpec', {'branch': t[p]}))
    return out


def nodes(v, acc, depth=0):
    acc.append(v)
    if depth > 6:
        return
    if isinstance(v, dict):
        for x in v.values():
            nodes(x, acc, depth + 1)
    elif isinstance(v, list):
        for x in v:
            nodes(x, acc, depth + 1)


NAN = float('nan')
CORNER_VALUES = [
    None, True, False, 0, 1, -1, 2, 2.0, 2.5, -0.0, 0.0, -0.5, 1e300, float('inf'), float('-inf'), NAN, 10 ** 30, -10 ** 30,
    '', ' ', 'a', 'all', 'one', 'direct', 'reverse', '2.0', 'version', 't1', 't 1', 'fail msg=1', 'fail(msg=1)', 'a b c',
    'a\n', 'a\nb', '\n', 'ünï', 'a-b', '<% 1 %>', '<% 1 %> ', '<% 1 %>\n', '{{ 1 }}', '{{ 1 }} <% 2 %>', '<%%>', '<% 1 %> x',
    '{{ }}\n\n', 'x <% 1 %>', '{% if %}', [], [''], ['a'], ['a', 'a'], ['a', 'b'], [1], [1, 1.0], [True, 1], [False, 0],
    [NAN, NAN], [[1], [1.0]], ['a', {'a': 1}], [{'a': 1}, {'a': 1.0}], [{'a': 1}, {'a': True}], [{'a': 1, 'b': 2}],
    [{'a': NAN}, {'a': NAN}], [{}], [None], ['t1', {'t2': '<% 1 %>'}], [{'t2': '<% 1 %>'}, {'t2': '<% 1 %>'}],
    [{'t 2': 5}], {}, {'a': 1}, {'a': None}, {'a-b': 1}, {'a b': 1}, {'': 1}, {1: 'x'}, {'a': 1, 1: 'x'}, {1: 'x', 'a': 1},
    {None: 1}, {True: 1}, {2.5: 1}, {'a': {1: 2}}, {'a': datetime.date(2001, 1, 1)}, datetime.date(2001, 1, 1), b'ab',
    {'next': 't1'}, {'next': ['t1']}, {'next': {'t1': '<% 1 %>'}}, {'publish': {'branch': {'a': 1}}}, {'publish': {}},
    {'next': 't1', 'publish': {'global': {'a': 1}}, 'x': 1}, {'next': 't1', 1: 2}, {'t1': '<% 1 %>'}, {'t1': 'x'},
    {'t1': '<% 1 %>', 't2': '<% 1 %>'}, {'a b': '<% 1 %>'}, {'fail msg=1': '<% 1 %>'}, {'fail(msg=1)': '{{ 1 }}'},
    {'next': '<%1%>'}, {'count': 1, 'delay': 1}, {'count': 1}, {'count': 1, 'delay': 1, 'x': 1}, {'count': '<% 1 %>', 'delay': 0},
    {'count': -1, 'delay': 1}, {'count': 1.0, 'delay': 2.0}, {'count': 1.5, 'delay': 1}, {'count': True, 'delay': 1},
    {'count': 1, 'delay': 1, 'break-on': '<% 1 %>', 'continue-on': '{{ 1 }}'}, {'count': 1, 'delay': 1, 'break-on': 'x'},
    {'count': 1, 'delay': 1, 1: 2}, 'count=1 delay=2',
    {'version': '2.0'}, {'version': 2.0}, {'version': 2}, {'version': 2, 'wf': {'tasks': {'t': {'action': 'a'}}}},
    {'version': '2.0', 'wf': {}}, {'version': '2.0', 'wf': 1}, {'version': '2.0', 1: {'a': 1}}, {'version': True, 'wf': {'a': 1}},
    {'version': -1, 'wf': {'a': 1}}, {'version': '', 'wf': {'a': 1}}, {'version': NAN, 'wf': {'a': 1}}, {'wf': {'a': 1}},
    {'name': 'wb', 'version': '2.0'}, {'name': 'wb', 'version': 2}, {'name': 'wb', 'version': 2.0, 'workflows': {'w': 1}},
    {'name': 'wb', 'version': '2.0', 'workflows': {'version': '2.0'}}, {'name': 'wb', 'version': '2.0', 'workflows': {'version': 3}},
    {'name': 'wb', 'version': '2.0', 'actions': {'a-b': {}, 'version': 2.0}}, {'name': 'wb', 'version': '2.0', 'actions': {'a b': 1}},
    {'name': 'wb', 'version': '2.0', 'actions': {'a': None}}, {'name': 'wb', 'version': '2.0', 'actions': {1: 1}},
    {'name': 'wb', 'version': '2.0', 'workflows': {}}, {'name': 'wb', 'version': '2.0', 'x': 1}, {'name': '', 'version': '2.0'},
    {'name': 'wb', 'version': '2.0', 'tags': ['a', 'a']}, {'name': 'wb', 'version': '2.0', 'tags': []},
    {'name': 'wb', 'version': '2.0', 'workflows': {'version\n': 1}}, {'name': 'wb', 'version': '2.0', 'workflows': {'versio': 1}},
    {'tasks': {'t1': {'action': 'a'}}}, {'tasks': {}}, {'tasks': {'t1': {}}}, {'tasks': {'t-1': {'a': 1}}}, {'tasks': {'t-1': {}}},
    {'tasks': {'t-1': 'x'}}, {'tasks': {'t1': 'x'}}, {'tasks': {1: {'a': 1}}}, {'tasks': {'t-1': {'a': 1}, 1: {'a': 1}}},
    {'tasks': {'t1': {1: 2}}}, {'tasks': {'t-1': {1: 2}}}, {'tasks': [1]}, {'tasks': None}, {'tasks': {'t1': {'a': 1}}, 'type': 'x'},
    {'tasks': {'t1': {'a': 1}}, 'type': 'reverse', 'input': ['a', {'b': 1}], 'output': {'o': 1}, 'vars': {'v': None}},
    {'tasks': {'t1': {'a': 1}}, 'input': ['a', 'a']}, {'tasks': {'t1': {'a': 1}}, 'input': [{'a': 1, 'b': 2}]},
    {'tasks': {'t1': {'a': 1}}, 'task-defaults': {}}, {'tasks': {'t1': {'a': 1}}, 'zzz': 1, 1: 2},
    {'tasks': {'t1': {'a': 1}}, 'output': {'a-b': 1}}, {'tasks': {'version': {'a': 1}}},
    {'name': 't', 'version': '2.0'}, {'name': 't', 'version': '2.0', 'action': 'a', 'workflow': 'w'},
    {'name': 't', 'version': '2.0', 'action': 'a'}, {'name': 't', 'version': '2.0', 'workflow': 'w', 'join': 'all'},
    {'name': 't', 'version': '2.0', 'join': 0}, {'name': 't', 'version': '2.0', 'join': 2.0}, {'name': 't', 'version': '2.0', 'join': -1},
    {'name': 't', 'version': '2.0', 'join': True}, {'name': 't', 'version': '2.0', 'join': 'two'}, {'name': 't', 'version': '2.0', 'join': 1.5},
    {'name': 't', 'version': '2.0', 'type': 'direct'}, {'name': 't', 'version': '2.0', 'type': 'reverse'},
    {'name': 't', 'version': '2.0', 'requires': 'a'}, {'name': 't', 'version': '2.0', 'requires': ['a', 'b']},
    {'name': 't', 'version': '2.0', 'requires': []}, {'name': 't', 'version': '2.0', 'with-items': 'i in <% $.x %>'},
    {'name': 't', 'version': '2.0', 'with-items': ['i in [1]', 'j in [2]']}, {'name': 't', 'version': '2.0', 'with-items': []},
    {'name': 't', 'version': '2.0', 'input': 'x'}, {'name': 't', 'version': '2.0', 'input': {}}, {'name': 't', 'version': '2.0', 'input': {'a': 1}},
    {'name': 't', 'version': '2.0', 'input': {'a-b': 1}}, {'name': 't', 'version': '2.0', 'wait-before': 1, 'timeout': '<% 1 %>'},
    {'name': 't', 'version': '2.0', 'wait-before': -1}, {'name': 't', 'version': '2.0', 'wait-before': 'x'},
    {'name': 't', 'version': '2.0', 'pause-before': True, 'keep-result': '<% 1 %>', 'safe-rerun': False},
    {'name': 't', 'version': '2.0', 'pause-before': 1}, {'name': 't', 'version': '2.0', 'retry': 'count=1 delay=1'},
    {'name': 't', 'version': '2.0', 'retry': {'count': 1, 'delay': 1}}, {'name': 't', 'version': '2.0', 'retry': {'count': 1}},
    {'name': 't', 'version': '2.0', 'on-success': 't2', 'on-error': ['t3', {'t4': '<% 1 %>'}], 'on-complete': {'next': 't5'}},
    {'name': 't', 'version': '2.0', 'on-success': {'t 2': 5}}, {'name': 't', 'version': '2.0', 'on-success': {}},
    {'name': 't', 'version': '2.0', 'zzz': 1}, {'name': 't', 'version': '2.0', 1: 1}, {'name': '', 'version': '2.0'},
    {'name': 't'}, {'version': '2.0'}, {'name': 't', 'version': '2.0', 'publish': {'a': 1}, 'publish-on-error': {}},
    {'name': 't', 'version': '2.0', 'target': ''}, {'name': 't', 'version': '2.0', 'description': 'd', 'tags': ['x']},
    {'base': 'std.echo', 'name': 'a', 'version': '2.0'}, {'base': 'std.echo', 'name': 'a', 'version': '2.0', 'output': None},
    {'base': '', 'name': 'a', 'version': '2.0'}, {'name': 'a', 'version': '2.0'}, {'base': 'b', 'name': 'a', 'version': '2.0', 'x': 1},
    {'base': 'b', 'name': 'a', 'version': '2.0', 'base-input': {'a': 1}, 'input': ['x', {'y': 2}], 'output': '<% $ %>'},
    {'branch': {'a': 1}}, {'branch': {}}, {'global': {'a': 1}, 'atomic': {'b': 2}}, {'x': {'a': 1}}, {'branch': {1: 2}},
    {'retry': {'count': 1, 'delay': 1}, 'wait-before': 1}, {'retry': 'x'}, {'x': 1}, {'timeout': 2.0}, {'timeout': 2.5},
    {'concurrency': 10 ** 30}, {'fail-on': '<% 1 %>'}, {'fail-on': 'x'},
    {'on-success': 't1', 'requires': ['a'], 'safe-rerun': True}, {'requires': 'a', 'zzz': 1},
]


def collect(ctx, st, budget_pairs):
    """deduplicated (class, doc) records: recorded calls, role-based extraction, cross pairs, corner values."""
    rng = ctx.rng
    recs = dict(_R['records'])
    classes = spec_classes(st)
    names = sorted(classes)

    def add(cname, v, src):
        if len(recs) >= budget_pairs:
            return
        try:
            t = enc(v)
        except (Untransportable, RecursionError):
            ctx.count('schema', 'untransportable')
            return
        k = hkey(cname, t)
        if k in recs:
            return
        recs[k] = {'cls': cname, 'doc': t, 'src': src, 'py': v}
    for v in CORNER_VALUES:
        for c in names:
            add(c, v, 'corner')
    docs = list(_R['docs'])
    rng.shuffle(docs)
    allnodes = []
    for d in docs:
        for c, v in roles(d):
            if c in classes:
                add(c, v, 'role')
        if len(allnodes) < 40000:
            nodes(d, allnodes)
        if len(recs) >= budget_pairs:
            break
    n_cross = min(len(allnodes), ctx.n(1500, 30000))
    for _ in range(n_cross):
        add(rng.choice(names), rng.choice(allnodes), 'cross')
    return recs, allnodes


def run(ctx, st):
    """Seam: while this stream calls `validate_schema` on bare spec objects, `str(ValidationError)` is the bare
    message: the full text pretty-prints schema and instance (17 ms per rejected value, 95 % of the stream's time)
    and `validate_schema` only puts it into the text of the InvalidModelException.  The first 150 rejected values
    are run with the real `__str__`."""
    from jsonschema import exceptions as jexc
    pause()
    orig_str = jexc._Error.__str__
    _R['full_str'] = 150

    def cheap(self):
        if _R['full_str'] > 0:
            _R['full_str'] -= 1
            return orig_str(self)
        return self.message
    jexc._Error.__str__ = cheap
    try:
        _run(ctx, st)
    finally:
        jexc._Error.__str__ = orig_str
        resume()


def _run(ctx, st):
    import time
    t0 = time.time()
    drv = ctx.driver()
    classes = spec_classes(st)
    tables = drv.call('schema.tables', {})
    if isinstance(tables, str) or 'classes' not in tables:
        ctx.broken_tie('correspondence', 'schema', 'driver has no schema handler: %r' % (tables,))
        return
    # Tie A sanity: the generated table covers exactly the concrete spec classes of the running code
    if sorted(tables['classes']) != sorted(classes):
        ctx.disagree('schema', {'what': 'spec classes'}, sorted(tables['classes']), sorted(classes))
        return
    recs, allnodes = collect(ctx, st, ctx.n(40000, 400000))
    ctx.count('schema', 'validate_schema-calls-recorded', _R['calls'])
    ctx.count('schema', 'documents-parsed', len(_R['docs']))
    # order: corner values, then what the real parsers validated, then extracted / cross pairs (shuffled);
    # the real side is time-boxed, what does not fit is counted
    prio = {'corner': 0, 'recorded': 1, 'role': 2, 'cross': 2}
    pyvals = {}
    keys = list(recs)
    ctx.rng.shuffle(keys)
    keys.sort(key=lambda k: prio[recs[k]['src']])
    budget = ctx.n(12.0, 150.0)
    for i, k in enumerate(keys):
        r = recs[k]
        if time.time() - t0 > budget:
            ctx.count('schema', 'not-run-time-box', len(keys) - i)
            for k2 in keys[i:]:
                recs[k2]['verdict'] = 'skip'
                recs[k2].pop('py', None)
            break
        cls = classes[r['cls']]
        if 'py' not in r:
            r['verdict'] = 'skip'
            continue
        v = r.pop('py')
        r['pyv'] = v
        r['nan'] = has_nan_in_sortable_list(v)
        if 'verdict' not in r:
            # not validated by a real run: the base validate_schema on a bare spec object
            kind, det, res = E.guarded(lambda: real_verdict(st, cls, v), 1.0)
            if kind != 'ok':
                r['verdict'] = 'skip'
                ctx.count('schema', 'real-side-' + kind)
                continue
            r['verdict'], udet = res
            if udet:
                r['udet'] = udet
        if r['verdict'] in ('ok', 'invalid'):
            r['errs'], r['crash'] = real_errors(st, cls, v)
        if r['verdict'] == 'ok' and r['src'] != 'recorded':
            pyvals[k] = v
    todo = [k for k in keys if recs[k]['verdict'] != 'skip']
    outs = drv.batch('schema.validate', [{'cls': recs[k]['cls'], 'doc': recs[k]['doc']} for k in todo])
    for k, mo in zip(todo, outs):
        r = recs[k]
        cname = r['cls']
        if not isinstance(mo, dict) or 'errs' not in mo:
            ctx.disagree('schema', {'cls': cname, 'doc': r['doc']}, mo, r['verdict'])
            continue
        m_errs = sorted([[canon_model_path(p), kw] for p, kw in mo['errs']])
        m_verdict = 'invalid' if (mo['crash'] or m_errs) else 'ok'
        verdict = r['verdict']
        nontrivial = verdict != 'ok' or any(s in json.dumps(r['doc'])[:4000] for s in ('"o"',))
        ctx.evaluated('schema', k, nontrivial=nontrivial)
        ctx.count('schema', 'src:' + r['src'])
        ctx.count('schema', '%s:%s' % (cname, verdict.split(':')[0]))
        if verdict.startswith('undeclared'):
            det = r.get('udet') or {'exc': verdict.split(':', 1)[1], 'site': 'mistral/lang/base.py:validate_schema', 'line': '', 'msg': ''}
            ctx.violation('%s.validate_schema raises %s at %s [%s] instead of InvalidModelException: %s' % (
                cname, det['exc'], det['site'], det['line'], det['msg']),
                {'kind': 'schema', 'cls': cname, 'doc': r['doc']},
                {'kind': 'internal-error', 'exc': det['exc'], 'site': det['site'], 'line': det['line']})
            continue
        if verdict == 'hang':
            continue
        impl = {'verdict': verdict, 'crash': r.get('crash'), 'errs': r.get('errs')}
        model = {'verdict': m_verdict, 'crash': mo['crash'], 'errs': m_errs}
        if r.get('nan'):
            ctx.count('schema', 'nan-in-list-verdict-only')
            impl.pop('errs')
            model.pop('errs')
        elif mo['crash'] or r.get('crash'):
            # the errors yielded before the TypeError depend on the iteration order of a python *set*
            # (`additionalProperties` with a schema): only the TypeError itself is compared
            ctx.count('schema', 'typeerror-reached')
            impl.pop('errs')
            model.pop('errs')
        elif m_errs:
            for p, kw in m_errs:
                ctx.count('schema', 'kw:' + kw)
        if impl != model:
            ctx.disagree('schema', {'cls': cname, 'doc': r['doc'], 'src': r['src']}, model, impl)
    ctx.cov['schema_stream_s'] = round(time.time() - t0, 1)
    from harness import ctor_stream
    ctor_stream.run(ctx, st, recs, ctx.n(8.0, 60.0))
    run_re(ctx, st, tables, allnodes)
    run_eq(ctx, st, allnodes)
    ctx.cov['schema_streams_s'] = round(time.time() - t0, 1)


# ------------------------------------------------------------------ constructor monitor
NEEDS_NAME = ('DirectWorkflowSpec', 'ReverseWorkflowSpec', 'ActionSpec', 'WorkbookSpec')


def run_ctor(ctx, st, recs, pyvals, budget):
    """Real-code counterpart of the `*_accept_shape` theorems: a value the schema of a spec class accepts goes
    through the constructor (`cls(data, validate=True)`: validate_schema + __init__, sub-specifications
    included) and `validate_semantics` without any exception that is not a definition error.  Values without
    `name` are left out for the classes whose constructor reads data['name'] (the list / workbook constructors
    inject it before they instantiate a member)."""
    import time
    t0 = time.time()
    classes = spec_classes(st)
    keys = sorted(pyvals)
    ctx.rng.shuffle(keys)
    for i, k in enumerate(keys):
        if time.time() - t0 > budget:
            ctx.count('schema-ctor', 'not-run-time-box', len(keys) - i)
            break
        r = recs[k]
        cname = r['cls']
        v = _dcopy(pyvals[k])
        if cname in NEEDS_NAME and not (isinstance(v, dict) and 'name' in v):
            ctx.count('schema-ctor', 'skipped-no-name')
            continue
        if cname in ('DirectWorkflowSpec', 'ReverseWorkflowSpec') and not isinstance(v, dict):
            # instantiate_spec refuses a non-dict before any constructor runs
            ctx.count('schema-ctor', 'skipped-non-dict-polymorphic')
            continue
        cls = classes[cname]
        if hasattr(cls, '_polymorphic_value'):
            # instantiate_spec picks the concrete class by the polymorphic key: another value never reaches it
            key = cls._polymorphic_key
            kname, kdef = key if isinstance(key, tuple) else (key, None)
            if not isinstance(v, dict) or v.get(kname, kdef) != cls._polymorphic_value:
                ctx.count('schema-ctor', 'skipped-other-polymorphic-value')
                continue

        def build():
            spec = cls(v, True)
            spec.validate_semantics()
            return spec
        kind, det, _ = E.guarded(build, 1.0)
        ctx.evaluated('schema-ctor', k, nontrivial=True)
        ctx.count('schema-ctor', '%s:%s' % (cname, kind if kind != 'declared' else det['cls']))
        if kind == 'undeclared':
            ctx.violation('%s: the schema accepts a value on which the constructor / validate_semantics raises %s at %s '
                          '[%s]: %s' % (cname, det['exc'], det['site'], det['line'], det['msg']),
                          {'kind': 'schema-ctor', 'cls': cname, 'doc': r['doc']},
                          {'kind': 'internal-error', 'exc': det['exc'], 'site': det['site'], 'line': det['line']})
        elif kind == 'hang':
            ctx.violation('%s: constructor does not finish within %s s of CPU time' % (cname, det['limit_s']),
                          {'kind': 'schema-ctor', 'cls': cname, 'doc': r['doc']},
                          {'kind': 'hang', 'site': det['site'], 'line': det['line']})


class NSKey(object):
    """stand-in for a non-string mapping key of a replayed value."""
    def __init__(self, r):
        self.r = r

    def __repr__(self):
        return self.r

    def __hash__(self):
        return hash(self.r)

    def __eq__(self, o):
        return isinstance(o, NSKey) and o.r == self.r


def dec(t):
    """transport -> python value (replay): non-string keys None / integers are restored, others are stand-ins."""
    if t is None or t is True or t is False or isinstance(t, str):
        return t
    if isinstance(t, list):
        return [dec(x) for x in t]
    if 'i' in t:
        return int(t['i'])
    if 'f' in t:
        f = t['f']
        if isinstance(f, str):
            return float(f)
        return int(f[0]) / int(f[1])
    if 'x' in t:
        return NSKey(t['x'])
    out = {}
    for k, v in t['o']:
        if isinstance(k, dict):
            r = k['ns']
            k = None if r == 'None' else int(r[2:]) if re.match(r'^n:-?\d+$', r) else NSKey(r)
        out[k] = dec(v)
    return out


def replay(ctx, st, r):
    """re-run one (class, value) pair of the schema / schema-ctor streams on the real code and on the model."""
    classes = spec_classes(st)
    cls = classes[r['cls']]
    v = dec(r['doc'])
    verdict, udet = real_verdict(st, cls, _dcopy(v))
    errs, crash = real_errors(st, cls, _dcopy(v))
    mo = ctx.driver().call('schema.validate', {'cls': r['cls'], 'doc': r['doc']})
    print('replay schema: %s real verdict=%s crash=%s errs=%s' % (r['cls'], verdict, crash, errs))
    print('replay schema: model %s' % (mo,))
    if verdict.startswith('undeclared'):
        ctx.violation('%s.validate_schema raises %s' % (r['cls'], udet), r,
                      {'kind': 'internal-error', 'exc': udet['exc'], 'site': udet['site'], 'line': udet['line']})
    if verdict == 'ok':
        recs = {'k': {'cls': r['cls'], 'doc': r['doc']}}
        run_ctor(ctx, st, recs, {'k': v}, 60.0)


def search(ctx, st):
    """A schema theorem or the schema correspondence broke: look for a value that a schema accepts and on which
    the constructor fails with an internal error (widened: every node of every generated / mutated document
    against every spec class, raw and injected)."""
    import time
    from harness import lang_gen as G
    t0 = time.time()
    rng = ctx.rng
    classes = spec_classes(st)
    names = sorted(classes)
    pause()
    try:
        seen = set()
        pool = []
        for i in range(150):
            g = G.gen_wf_list(rng) if i % 3 else G.gen_workbook(rng)
            pool.append(g['dict'])
        vals = list(CORNER_VALUES)
        while time.time() - t0 < 150 and not ctx.violations:
            d = rng.choice(pool)
            if rng.random() < 0.8:
                d, _ = G.mutate_struct(d, rng)
            cands = roles(d)
            acc = []
            nodes(d, acc)
            cands += [(rng.choice(names), rng.choice(acc)) for _ in range(10)]
            if vals:
                v = vals.pop()
                cands += [(c, v) for c in names]
            pyvals = {}
            recs = {}
            for c, v in cands:
                if c not in classes:
                    continue
                try:
                    t = enc(v)
                except (Untransportable, RecursionError):
                    continue
                k = hkey(c, t)
                if k in seen:
                    continue
                seen.add(k)
                kind, det, res = E.guarded(lambda: real_verdict(st, classes[c], _dcopy(v)), 1.0)
                if kind != 'ok':
                    continue
                verdict, udet = res
                ctx.evaluated('schema-search', k, nontrivial=verdict == 'ok')
                if udet:
                    ctx.violation('%s.validate_schema raises %s at %s instead of InvalidModelException' % (
                        c, udet['exc'], udet['site']), {'kind': 'schema', 'cls': c, 'doc': t},
                        {'kind': 'internal-error', 'exc': udet['exc'], 'site': udet['site'], 'line': udet['line']})
                elif verdict == 'ok':
                    pyvals[k] = v
                    recs[k] = {'cls': c, 'doc': t}
            run_ctor(ctx, st, recs, pyvals, 30.0)
    finally:
        resume()


def canon_model_path(p):
    out = []
    for seg in p:
        if isinstance(seg, str):
            out.append('k:' + seg)
        elif isinstance(seg, dict):
            if seg['ns'] == 'None':
                # `descend(path=None)` means "no path element": jsonschema drops the key None (`~:`) from the path
                continue
            out.append('n:' + seg['ns'])
        else:
            out.append('i:%d' % seg)
    return out


# ------------------------------------------------------------------ regular expressions
def real_patterns(st):
    """every `pattern` / `patternProperties` key of the real class schemas."""
    pats = set()

    def walk(s):
        if isinstance(s, dict):
            for k, v in s.items():
                if k == 'pattern' and isinstance(v, str):
                    pats.add(v)
                elif k == 'patternProperties' and isinstance(v, dict):
                    pats.update(v)
                    for x in v.values():
                        walk(x)
                elif isinstance(v, dict):
                    if k in ('properties', 'definitions'):
                        for x in v.values():
                            walk(x)
                    else:
                        walk(v)
                elif isinstance(v, list):
                    for x in v:
                        walk(x)
    for cls in spec_classes(st).values():
        walk(cls.get_schema())
    return pats


RE_ALPHABET = ['a', 'b', 'Z', '_', '0', '9', '-', ' ', ' ', '=', '(', ')', '<', '%', '>', '{', '}', '\n', '\n', '\t', '\r', '.',
               'version', 'versio', 'n', '$', '^', '"', "'", 'é', 'ß', 'Ж', '中', '٣', '²', '½', 'ª', 'ⅷ', ' ', ' ',
               '　', '\x1c', '\x1f', '\x85', '​', '᠎', '﻿', '𝒜', '𝟘', '\U0001f600', 'ǅ', 'ʰ', '́', '‿',
               '\x0b', '\x0c', 'fail', 'msg', 't1']


def run_re(ctx, st, tables, allnodes):
    rng = ctx.rng
    drv = ctx.driver()
    pats = tables['patterns']
    real = real_patterns(st)
    if sorted(p for _, p in pats) != sorted(real):
        ctx.disagree('schema-re', {'what': 'pattern set'}, sorted(p for _, p in pats), sorted(real))
        return
    strs = set()
    for v in allnodes:
        if isinstance(v, str) and len(v) < 400:
            strs.add(v)
        elif isinstance(v, dict):
            for k in v:
                if isinstance(k, str) and len(k) < 400:
                    strs.add(k)
    strs = sorted(s for s in strs if _utf8(s))
    rng.shuffle(strs)
    strs = strs[:ctx.n(1500, 20000)]
    for _ in range(ctx.n(2500, 40000)):
        strs.append(''.join(rng.choice(RE_ALPHABET) for _ in range(rng.randint(0, 9))))
    # every code point class boundary once: word / space characters outside ASCII
    for _ in range(ctx.n(600, 6000)):
        c = chr(rng.choice([rng.randint(0x80, 0x2fff), rng.randint(0x3000, 0xffff), rng.randint(0x10000, 0x10ffff)]))
        if 0xd800 <= ord(c) <= 0xdfff:
            continue
        strs.append(rng.choice(['', 'a', 'a b=', 'f(x=']) + c + rng.choice(['', 'b', ')', '\n']))
    cases = []
    for name, ptext in pats:
        cre = re.compile(ptext)
        for s in strs:
            cases.append((name, ptext, s, cre.search(s) is not None))
    outs = drv.batch('schema.search', [{'pat': n, 's': s} for n, _, s, _ in cases])
    for (name, ptext, s, want), got in zip(cases, outs):
        ctx.evaluated('schema-re', [name, s], nontrivial=want)
        ctx.count('schema-re', '%s:%s' % (name, 'match' if want else 'no'))
        if got is not want:
            ctx.disagree('schema-re', {'pattern': ptext, 's': s}, got, want)


def _utf8(s):
    try:
        s.encode('utf-8')
        return True
    except UnicodeEncodeError:
        return False


# ------------------------------------------------------------------ equality
def run_eq(ctx, st, allnodes):
    from jsonschema import _utils
    rng = ctx.rng
    drv = ctx.driver()
    small = [v for v in allnodes if not isinstance(v, (dict, list)) or len(repr(v)) < 300]
    # bytes is a python Sequence (`_sequence_equal(b'a', [97])`): not a YAML/JSON notion, left out
    small += [v for v in CORNER_VALUES if not isinstance(v, bytes)]
    small = [v for v in small if not isinstance(v, bytes)]
    pairs = []
    for _ in range(ctx.n(3000, 40000)):
        a = rng.choice(small)
        b = rng.choice(small) if rng.random() < 0.7 else perturb(a, rng)
        pairs.append((a, b))
    args = []
    keep = []
    for a, b in pairs:
        try:
            args.append({'a': enc(a), 'b': enc(b)})
            keep.append((a, b))
        except (Untransportable, RecursionError):
            pass
    outs = drv.batch('schema.equal', args)
    for (a, b), arg, got in zip(keep, args, outs):
        want = bool(_utils.equal(a, b))
        ctx.evaluated('schema-eq', arg, nontrivial=want)
        ctx.count('schema-eq', 'equal' if want else 'different')
        if got is not want:
            ctx.disagree('schema-eq', arg, got, want)


def perturb(v, rng):
    if isinstance(v, bool):
        return int(v)
    if isinstance(v, int):
        return rng.choice([float(v) if abs(v) < 2 ** 53 else v, v + 1, bool(v) if v in (0, 1) else v])
    if isinstance(v, float):
        return rng.choice([int(v) if v == v and abs(v) != float('inf') and v == int(v) else v, v])
    if isinstance(v, list):
        w = [perturb(x, rng) if rng.random() < 0.3 else x for x in v]
        return w if rng.random() < 0.8 else w[::-1]
    if isinstance(v, dict):
        items = [(k, perturb(x, rng) if rng.random() < 0.3 else x) for k, x in v.items()]
        if rng.random() < 0.5:
            items = items[::-1]
        return dict(items)
    return v
