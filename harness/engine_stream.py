"""Stream `engine`: generated programs x result oracles x schedules on the REAL engine, with the
property monitors of engine_run evaluated on every trace.  One chunk = one worker process."""
import json

from harness import engine_run as er
from harness import wfgen

# monitors grouped by the property whose statement they read
MONITORS = {
    'C01': ['undeclared', 'stuck', 'exhausted'],
    'C02': ['paired'],
    'C03': ['wf_moves', 'task_success_final', 'accepted_once', 'finished_frozen'],
    'C04': ['join'],
    'C06': ['dup'],
    'C10': ['created_paused', 'pause_ack', 'resume_same'],
    'C11': ['created_final', 'finished_frozen', 'stop_state'],
}


def partial_joins(prog):
    inb = wfgen.inbound_counts(prog)
    res = set()
    for t in prog['tasks']:
        j = t.get('join')
        if j is None:
            continue
        need = inb[t['name']] if j == 'all' else (1 if j == 'one' else j)
        if need < inb[t['name']]:
            res.add(t['name'])
    return res


def classify(prop, kind, item, prog):
    """finding signature for a monitor hit (specific enough that a different violation of the
    same property gets a different signature)"""
    pj = partial_joins(prog)
    if kind == 'task_success_final' and item.get('task') in pj and item.get('to') in ('WAITING', 'RUNNING', 'SUCCESS', 'ERROR', 'DELAYED'):
        return {'kind': 'partial-join-reset-by-late-branch'}
    if kind == 'task_success_final' and item.get('after_rerun') and item.get('to') in ('WAITING', 'RUNNING') and \
            any(t['name'] == item.get('task') and t.get('join') is not None for t in prog['tasks']):
        # an explicit rerun of a failed task dispatches its on-clauses again: a join behind it that had already
        # run is deferred (Task.defer) and runs again - the rerun flavour of the finished-join reset
        return {'kind': 'finished-join-reopened-after-rerun'}
    if kind == 'join' and item.get('join') in pj and item.get('what') in (
            'more than one execution of a join', 'join started more than once'):
        return {'kind': 'partial-join-reset-by-late-branch'}
    if kind == 'action_twice' and item.get('task') in pj:
        return {'kind': 'partial-join-reset-by-late-branch'}
    if kind == 'undeclared':
        return {'kind': 'undeclared-error', 'type': item.get('type'), 'where': item.get('where', '').split(':')[0]}
    if kind == 'stuck':
        return {'kind': 'stuck', 'wf_state': item.get('state')}
    sig = {'kind': kind}
    for k in ('what', 'from', 'to', 'wf_state_before'):
        if k in item and isinstance(item[k], (str, int)):
            sig[k] = item[k]
    return sig


def eval_monitors(prog, tr, props, extra=None):
    """returns list of (prop, kind, item)"""
    hits = []

    def want(p):
        return p in props

    if want('C01'):
        for e in er.undeclared_errors(tr):
            hits.append(('C01', 'undeclared', {k: e[k] for k in ('where', 'type', 'msg', 'tb')}))
        for s in er.stuck(tr, paused_ok=bool(extra and extra.get('paused_ok'))):
            hits.append(('C01', 'stuck', s))
        if tr.exhausted:
            hits.append(('C01', 'exhausted', {'steps': tr.steps}))
    if want('C03'):
        for b in er.wf_moves(tr):
            hits.append(('C03', 'wf_moves', b))
        for b in er.task_success_final(tr):
            hits.append(('C03', 'task_success_final', b))
        for b in er.accepted_once(tr):
            hits.append(('C03', 'accepted_once', b))
        for b in er.finished_frozen(tr):
            hits.append(('C03', 'finished_frozen', b))
    if want('C04'):
        for b in er.join_checks(tr, prog):
            hits.append(('C04', 'join', b))
    if want('C10'):
        for b in er.created_while(tr, ('PAUSED',)):
            hits.append(('C10', 'created_paused', b))
    if want('C06'):
        for b in er.action_counts(tr, prog):
            hits.append(('C06', 'action_twice', b))
    if want('C11'):
        for b in er.created_while(tr, er.FINAL):
            hits.append(('C11', 'created_final', b))
        for b in er.finished_frozen(tr):
            hits.append(('C11', 'finished_frozen', b))
    return hits


def features(prog, tr):
    """what mechanisms a trace exercised (for the non-triviality rule and the distribution)"""
    f = set()
    names = {t['name']: t for t in prog['tasks']}
    for t in tr.final['tasks']:
        sp = names.get(t['name'])
        if not sp:
            continue
        if sp.get('join') is not None:
            f.add('join-' + ('err' if t['state'] == 'ERROR' else 'ran' if t['state'] in er.COMPLETED else 'waits'))
        if t['state'] == 'ERROR':
            f.add('task-error')
            if t['error_handled']:
                f.add('error-handled')
    for sp in prog['tasks']:
        for cl in ('on_success', 'on_error', 'on_complete'):
            for r in sp.get(cl) or []:
                if r.get('guard') is not None:
                    f.add('guard')
                if r['to'] in wfgen.ENGINE_CMDS:
                    f.add('engine-cmd')
    return f


def replay_obj(prog, yaml_text, table, policy, world, tr, extra=None):
    o = {'program': prog, 'yaml': yaml_text, 'oracle': table, 'policy': policy,
         'schedule_log': tr.log[:400], 'final': er.outcome(tr.final) if tr.final and tr.final['wfs'] else None}
    if extra:
        o.update(extra)
    return o


def run_corpus(ctx, props, mode='plain'):
    """minimised past failures run first (chunk 0 only)"""
    import glob
    import os
    from vlib import core
    for f in sorted(glob.glob(os.path.join(core.VERIF, 'corpus', 'engine', '*.json'))):
        c = json.load(open(f))
        ctx.count('engine', 'corpus')
        if c.get('ops'):
            run_fixed(ctx, c['program'], c['yaml'], c['oracle'], c['policy'], c['seed'], props, c['ops'],
                      c.get('mode', 'ops'), c.get('evict', False))
        else:
            run_one(ctx, c['program'], c['yaml'], c['oracle'], c['policy'], c['seed'], props, mode)


def deterministic_class(prog):
    """programs whose outcome the statement makes a function of definition/input/results:
    no engine command racing live branches, no partial join (known finding), no failing guard"""
    if partial_joins(prog):
        return False
    if 'bad' in json.dumps(prog) or '"nope"' in json.dumps(prog):
        return False        # a failing expression force-fails the workflow while other branches are live
    rc = wfgen.route_counts(prog)
    for t in prog['tasks']:
        if t.get('join') is None and rc[t['name']] > 1:
            return False        # a non-join task activated more than once: outside the statement's class
    if conflicting_publishes(prog):
        return False            # "parallel branches do not publish conflicting values"
    for t in prog['tasks']:
        for cl in ('on_success', 'on_error', 'on_complete'):
            for r in t.get(cl) or []:
                if r['to'] in wfgen.ENGINE_CMDS:
                    return False
    d = prog.get('defaults') or {}
    for cl in ('on_success', 'on_error', 'on_complete'):
        for r in d.get(cl) or []:
            if r['to'] in wfgen.ENGINE_CMDS:
                return False
    return True


def conflicting_publishes(prog):
    """two tasks that are not causally ordered publish the same variable"""
    succ = {t['name']: set(n for n in wfgen.out_names(prog, t)) for t in prog['tasks']}
    desc = {}

    def reach(n):
        if n in desc:
            return desc[n]
        desc[n] = set()
        acc = set()
        for m in succ.get(n, ()):
            if m in succ:
                acc.add(m)
                acc |= reach(m)
        desc[n] = acc
        return acc
    pubs = {}
    for t in prog['tasks']:
        keys = set((t.get('publish') or {}).keys()) | set((t.get('publish_on_error') or {}).keys())
        for k in keys:
            pubs.setdefault(k, []).append(t['name'])
    for k, ts in pubs.items():
        for i in range(len(ts)):
            for j in range(i + 1, len(ts)):
                a, b = ts[i], ts[j]
                if b not in reach(a) and a not in reach(b):
                    return True
    return False


def run_chunk(ctx, n_programs, props, mode='plain', gen_kw=None, p_err=0.08):
    from harness.engine_driver import EngineWorld
    rng = ctx.rng
    if getattr(ctx, 'chunk', 0) == 0:
        run_corpus(ctx, props, mode)
    for i in range(n_programs):
        prog = wfgen.gen_program(rng, **(gen_kw or {}))
        y = wfgen.render_yaml(prog)
        table = wfgen.gen_oracle_table(rng, prog, p_err=p_err)
        policy = rng.choice(['random', 'random', 'fifo', 'lifo'])
        seed = rng.getrandbits(32)
        if mode == 'plain':
            run_one(ctx, prog, y, table, policy, seed, props, mode)
        else:
            run_perturbed(ctx, prog, y, table, policy, seed, props, mode)


def run_fixed(ctx, prog, y, table, policy, seed, props, ops, mode, evict=False):
    """a recorded perturbed case (corpus / replay): same seed, same operator commands"""
    import random
    from harness.engine_driver import EngineWorld
    w = EngineWorld(seed=seed)
    tr = er.run_case(w, [y], 'wf', {}, er.Oracle(table), random.Random(seed), policy=policy, ops=ops, evict=evict)
    extra = {'ops': ops, 'seed': seed, 'policy': policy, 'evict': evict, 'mode': mode}
    for (p, kind, item) in eval_monitors(prog, tr, props):
        sig = classify(p, kind, item, prog)
        if kind == 'stuck':
            sig = classify_stuck(prog, tr, item)
        ctx.count('engine', 'hit:%s:%s' % (p, sig['kind']))
        if p == ctx.prop:
            ctx.violation('%s monitor %s: %s' % (p, kind, json.dumps(item, default=str)[:300]),
                          replay_obj(prog, y, table, policy, w, tr, dict(extra, hit=item)), sig)
    return tr


def search_from_core(ctx, props, mode):
    """failing-input search, first step: the cases on which the engine model and the real engine disagreed
    (stream core) are run to the end on the real engine, with the operator commands of the case, under the
    statement monitors of `props` (for pause/stop/paired modes against the unperturbed reference run)"""
    seen = set()
    for b in list(ctx.broken):
        if b.get('kind') != 'correspondence' or b.get('name') != 'core':
            continue
        c = (b.get('detail') or {}).get('case') or {}
        if not c.get('prog') or c.get('oracle') is None:
            continue
        key = json.dumps([c['yaml'], c['oracle'], c.get('ops'), c['seed']], sort_keys=True, default=str)
        if key in seen:
            continue
        seen.add(key)
        table = {k: v for k, v in c['oracle'].items()} if isinstance(c['oracle'], dict) else c['oracle']
        ops = [dict(o) for o in (c.get('ops') or [])]
        ctx.count('engine', 'search-from-core')
        try:
            if mode == 'plain' or not ops:
                run_fixed(ctx, c['prog'], c['yaml'], table, c['policy'], c['seed'], props, ops, 'ops')
            else:
                run_perturbed(ctx, c['prog'], c['yaml'], table, c['policy'], c['seed'], props, mode,
                              fixed={'ops': ops})
        except Exception as e:       # the search must not turn a broken tie into an infrastructure error
            ctx.count('engine', 'search-from-core-error:' + type(e).__name__)


def run_perturbed(ctx, prog, y, table, policy, seed, props, mode, fixed=None):
    """reference run, then the same program with operator commands / another schedule"""
    import random
    from harness.engine_driver import EngineWorld
    ref = run_one(ctx, prog, y, table, policy, seed, [], 'plain')
    if ref is None:
        return
    rng = random.Random(seed + 1)
    n = max(1, ref.steps)
    ops = []
    policy2, seed2, evict = policy, seed, False
    if fixed is not None:
        ops = fixed['ops']
    elif mode == 'pause':
        k1 = rng.randint(0, n)
        k2 = rng.choice([rng.randint(k1, n + 5), 10 ** 6])     # resume later, or only at quiescence
        ops = [{'at': k1, 'op': 'pause'}, {'at': k2, 'op': 'resume'}]
        if rng.random() < 0.25:
            k3 = rng.randint(min(k2, n), n + 5)
            ops += [{'at': k3, 'op': 'pause'}, {'at': 10 ** 6, 'op': 'resume'}]
    elif mode == 'stop':
        ops = [{'at': rng.randint(0, n), 'op': 'stop', 'state': rng.choice(['SUCCESS', 'ERROR', 'CANCELLED']),
                'msg': 'stopped by harness'}]
        if rng.random() < 0.3:
            ops = [{'at': max(0, ops[0]['at'] - 1), 'op': 'pause'}] + ops
    elif mode == 'ops':
        for _ in range(rng.randint(1, 4)):
            k = rng.randint(0, n + 3)
            o = rng.choice(['pause', 'resume', 'resume', 'stop', 'rerun', 'skip', 'restart'])
            d = {'at': k, 'op': o}
            if o == 'stop':
                d['state'] = rng.choice(['SUCCESS', 'ERROR', 'CANCELLED'])
            if o == 'rerun':
                d['reset'] = rng.choice([True, False])
            ops.append(d)
        ops.append({'at': 10 ** 6, 'op': 'resume'})
    elif mode == 'paired':
        policy2 = rng.choice(['random', 'fifo', 'lifo'])
        seed2 = seed + 7
        evict = rng.random() < 0.5
        if rng.random() < 0.2:
            ops = [{'at': rng.randint(0, n), 'op': 'restart'}]
    w = EngineWorld(seed=seed2)
    srng = random.Random(seed2)
    tr = er.run_case(w, [y], 'wf', {}, er.Oracle(table), srng, policy=policy2, ops=ops, evict=evict)
    ctx.count('engine', 'mode:' + mode)
    for o in ops:
        ctx.count('engine', 'op:' + o['op'] + (':' + o['state'] if o.get('state') else ''))
    key = [y, table, policy2, seed2, ops, evict]
    ctx.evaluated('engine', key, nontrivial=True)
    extra = {'ops': ops, 'seed': seed2, 'policy': policy2, 'evict': evict, 'mode': mode}
    hits = eval_monitors(prog, tr, props, extra={'paused_ok': False})
    det = deterministic_class(prog)
    # ---- mode-specific monitors
    if mode == 'pause' and 'C10' in props:
        for i, (desc, s) in enumerate(tr.events):
            if desc[0] == 'op' and desc[1] == 'pause':
                before = tr.events[i - 1][1]
                for wb in before['wfs']:
                    wa = [x for x in s['wfs'] if x['ord'] == wb['ord']]
                    if wb['state'] == 'RUNNING' and wa and wa[0]['state'] != 'PAUSED':
                        hits.append(('C10', 'pause_ack', {'wf': wb['ord'], 'after': wa[0]['state']}))
        if det and not tr.exhausted and not ref.exhausted:
            a, b = er.outcome(ref.final), er.outcome(tr.final)
            if a != b:
                hits.append(('C10', 'resume_same', {'unpaused': a, 'paused': b,
                                                    'stuck': er.stuck(tr)[:1]}))
    if mode == 'stop' and 'C11' in props:
        for i, (desc, s) in enumerate(tr.events):
            if desc[0] == 'op' and desc[1] == 'stop':
                before = tr.events[i - 1][1]
                wb, wa = before['wfs'][0], s['wfs'][0]
                if wb['state'] in ('RUNNING', 'PAUSED') and wa['state'] != desc[2] and \
                        not (wb['state'] == 'PAUSED' and desc[2] == 'SUCCESS'):
                    hits.append(('C11', 'stop_state', {'before': wb['state'], 'requested': desc[2],
                                                        'after': wa['state'], 'from': wb['state']}))
    if mode == 'paired' and 'C02' in props and det and not tr.exhausted and not ref.exhausted:
        a, b = er.outcome(ref.final), er.outcome(tr.final)
        if a != b:
            hits.append(('C02', 'paired', {'first': a, 'second': b, 'evict': evict}))
    for (p, kind, item) in hits:
        sig = classify(p, kind, item, prog)
        if kind == 'stuck' and mode in ('pause', 'ops'):
            sig = classify_stuck(prog, tr, item)
        if kind == 'resume_same' and item.get('stuck'):
            sig = classify_stuck(prog, tr, item['stuck'][0])
        ctx.count('engine', 'hit:%s:%s' % (p, sig['kind']))
        if p == ctx.prop:
            ctx.violation('%s monitor %s: %s' % (p, kind, json.dumps(item, default=str)[:300]),
                          replay_obj(prog, y, table, policy2, w, tr, dict(extra, hit=item)), sig)
    return tr


def classify_stuck(prog, tr, item):
    """a RUNNING workflow at quiescence whose only unfinished tasks are WAITING joins created by a
    resume (known finding A) is told apart from every other way of getting stuck"""
    pend = [t for t in item.get('tasks', []) if t[1] not in er.COMPLETED]
    names = {t['name']: t for t in prog['tasks']}
    if pend and all(s == 'WAITING' and names.get(n, {}).get('join') is not None for n, s in pend):
        # was the join created by a resume operation?
        created_by = {}
        for desc, before, t in er.creations(tr):
            created_by[t['name']] = desc
        if all(created_by.get(n, [''])[0] == 'op' and created_by[n][1] == 'resume' for n, s in pend):
            return {'kind': 'join-created-on-resume-never-refreshed'}
    return {'kind': 'stuck', 'wf_state': item.get('state')}


def run_one(ctx, prog, y, table, policy, seed, props, mode='plain'):
    import random
    from harness.engine_driver import EngineWorld
    w = EngineWorld(seed=seed)
    srng = random.Random(seed)
    try:
        tr = er.run_case(w, [y], 'wf', {}, er.Oracle(table), srng, policy=policy)
    except Exception as e:
        # definition rejected (or the harness could not even start the run)
        from mistral import exceptions as exc
        if isinstance(e, exc.MistralException):
            ctx.count('engine', 'rejected:' + type(e).__name__)
            return None
        raise
    f = features(prog, tr)
    for x in f:
        ctx.count('engine', 'feat:' + x)
    ctx.count('engine', 'final:' + tr.final['wfs'][0]['state'])
    ctx.count('engine', 'policy:' + policy)
    key = [y, table, policy, seed]
    ctx.evaluated('engine', key, nontrivial=bool(f & {'join-ran', 'join-err', 'guard', 'error-handled', 'engine-cmd'}))
    if ctx.rng.random() < 0.01:
        ctx.sample({'stream': 'engine', 'yaml': y, 'oracle': table, 'policy': policy,
                    'outcome': er.outcome(tr.final)})
    for (p, kind, item) in eval_monitors(prog, tr, props):
        sig = classify(p, kind, item, prog)
        ctx.count('engine', 'hit:%s:%s' % (p, sig['kind']))
        if p == ctx.prop:
            ctx.violation('%s monitor %s: %s' % (p, kind, json.dumps(item, default=str)[:300]),
                          replay_obj(prog, y, table, policy, w, tr, {'seed': seed, 'hit': item}), sig)
    return tr


def replay(ctx, rep, props):
    """re-execute a replay file written by this stream"""
    r = rep['replay']
    if r.get('ops') is not None and r.get('mode', 'plain') != 'plain':
        tr = run_fixed(ctx, r['program'], r['yaml'], r['oracle'], r['policy'], r['seed'], props, r['ops'],
                       r.get('mode', 'ops'), r.get('evict', False))
    else:
        tr = run_one(ctx, r['program'], r['yaml'], r['oracle'], r['policy'], r['seed'], props, 'plain')
    if tr is not None:
        print('replay: final state %s, %d steps, %d errors' % (tr.final['wfs'][0]['state'], tr.steps, len(tr.errors)))
