"""Stream `engine`: generated programs x result oracles x schedules on the REAL engine, with the
property monitors of engine_run evaluated on every trace.  One chunk = one worker process."""
import json

from harness import engine_run as er
from harness import wfgen

# monitors grouped by the property whose statement they read
MONITORS = {
    'C01': ['undeclared', 'stuck', 'exhausted'],
    'C02': ['paired'],
    'C03': ['wf_moves', 'task_success_final', 'accepted_once', 'finished_frozen'],
    'C04': ['join'],
    'C06': ['dup'],
    'C10': ['created_paused', 'pause_ack', 'resume_same'],
    'C11': ['created_final', 'finished_frozen', 'stop_state'],
}


def partial_joins(prog):
    inb = wfgen.inbound_counts(prog)
    res = set()
    for t in prog['tasks']:
        j = t.get('join')
        if j is None:
            continue
        need = inb[t['name']] if j == 'all' else (1 if j == 'one' else j)
        if need < inb[t['name']]:
            res.add(t['name'])
    return res


def classify(prop, kind, item, prog):
    """finding signature for a monitor hit (specific enough that a different violation of the
    same property gets a different signature)"""
    pj = partial_joins(prog)
    if kind == 'task_success_final' and item.get('task') in pj and item.get('to') in ('WAITING', 'RUNNING', 'SUCCESS', 'ERROR', 'DELAYED'):
        return {'kind': 'partial-join-reset-by-late-branch'}
    if kind == 'join' and item.get('join') in pj and item.get('what') in (
            'more than one execution of a join', 'join started more than once'):
        return {'kind': 'partial-join-reset-by-late-branch'}
    if kind == 'undeclared':
        return {'kind': 'undeclared-error', 'type': item.get('type'), 'where': item.get('where', '').split(':')[0]}
    if kind == 'stuck':
        return {'kind': 'stuck', 'wf_state': item.get('state')}
    sig = {'kind': kind}
    for k in ('what', 'from', 'to', 'wf_state_before'):
        if k in item and isinstance(item[k], (str, int)):
            sig[k] = item[k]
    return sig


def eval_monitors(prog, tr, props, extra=None):
    """returns list of (prop, kind, item)"""
    hits = []

    def want(p):
        return p in props

    if want('C01'):
        for e in er.undeclared_errors(tr):
            hits.append(('C01', 'undeclared', {k: e[k] for k in ('where', 'type', 'msg', 'tb')}))
        for s in er.stuck(tr, paused_ok=bool(extra and extra.get('paused_ok'))):
            hits.append(('C01', 'stuck', s))
        if tr.exhausted:
            hits.append(('C01', 'exhausted', {'steps': tr.steps}))
    if want('C03'):
        for b in er.wf_moves(tr):
            hits.append(('C03', 'wf_moves', b))
        for b in er.task_success_final(tr):
            hits.append(('C03', 'task_success_final', b))
        for b in er.accepted_once(tr):
            hits.append(('C03', 'accepted_once', b))
        for b in er.finished_frozen(tr):
            hits.append(('C03', 'finished_frozen', b))
    if want('C04'):
        for b in er.join_checks(tr, prog):
            hits.append(('C04', 'join', b))
    if want('C10'):
        for b in er.created_while(tr, ('PAUSED',)):
            hits.append(('C10', 'created_paused', b))
    if want('C11'):
        for b in er.created_while(tr, er.FINAL):
            hits.append(('C11', 'created_final', b))
        for b in er.finished_frozen(tr):
            hits.append(('C11', 'finished_frozen', b))
    return hits


def features(prog, tr):
    """what mechanisms a trace exercised (for the non-triviality rule and the distribution)"""
    f = set()
    names = {t['name']: t for t in prog['tasks']}
    for t in tr.final['tasks']:
        sp = names.get(t['name'])
        if not sp:
            continue
        if sp.get('join') is not None:
            f.add('join-' + ('err' if t['state'] == 'ERROR' else 'ran' if t['state'] in er.COMPLETED else 'waits'))
        if t['state'] == 'ERROR':
            f.add('task-error')
            if t['error_handled']:
                f.add('error-handled')
    for sp in prog['tasks']:
        for cl in ('on_success', 'on_error', 'on_complete'):
            for r in sp.get(cl) or []:
                if r.get('guard') is not None:
                    f.add('guard')
                if r['to'] in wfgen.ENGINE_CMDS:
                    f.add('engine-cmd')
    return f


def replay_obj(prog, yaml_text, table, policy, world, tr, extra=None):
    o = {'program': prog, 'yaml': yaml_text, 'oracle': table, 'policy': policy,
         'schedule_log': tr.log[:400], 'final': er.outcome(tr.final) if tr.final and tr.final['wfs'] else None}
    if extra:
        o.update(extra)
    return o


def run_corpus(ctx, props, mode='plain'):
    """minimised past failures run first (chunk 0 only)"""
    import glob
    import os
    from vlib import core
    for f in sorted(glob.glob(os.path.join(core.VERIF, 'corpus', 'engine', '*.json'))):
        c = json.load(open(f))
        ctx.count('engine', 'corpus')
        run_one(ctx, c['program'], c['yaml'], c['oracle'], c['policy'], c['seed'], props, mode)


def run_chunk(ctx, n_programs, props, mode='plain', gen_kw=None):
    from harness.engine_driver import EngineWorld
    rng = ctx.rng
    if getattr(ctx, 'chunk', 0) == 0:
        run_corpus(ctx, props, mode)
    for i in range(n_programs):
        prog = wfgen.gen_program(rng, **(gen_kw or {}))
        y = wfgen.render_yaml(prog)
        table = wfgen.gen_oracle_table(rng, prog, p_err=0.08)
        policy = rng.choice(['random', 'random', 'fifo', 'lifo'])
        seed = rng.getrandbits(32)
        run_one(ctx, prog, y, table, policy, seed, props, mode)


def run_one(ctx, prog, y, table, policy, seed, props, mode='plain'):
    import random
    from harness.engine_driver import EngineWorld
    w = EngineWorld(seed=seed)
    srng = random.Random(seed)
    try:
        tr = er.run_case(w, [y], 'wf', {}, er.Oracle(table), srng, policy=policy)
    except Exception as e:
        # definition rejected (or the harness could not even start the run)
        from mistral import exceptions as exc
        if isinstance(e, exc.MistralException):
            ctx.count('engine', 'rejected:' + type(e).__name__)
            return None
        raise
    f = features(prog, tr)
    for x in f:
        ctx.count('engine', 'feat:' + x)
    ctx.count('engine', 'final:' + tr.final['wfs'][0]['state'])
    ctx.count('engine', 'policy:' + policy)
    key = [y, table, policy, seed]
    ctx.evaluated('engine', key, nontrivial=bool(f & {'join-ran', 'join-err', 'guard', 'error-handled', 'engine-cmd'}))
    if ctx.rng.random() < 0.01:
        ctx.sample({'stream': 'engine', 'yaml': y, 'oracle': table, 'policy': policy,
                    'outcome': er.outcome(tr.final)})
    for (p, kind, item) in eval_monitors(prog, tr, props):
        sig = classify(p, kind, item, prog)
        ctx.count('engine', 'hit:%s:%s' % (p, sig['kind']))
        if p == ctx.prop:
            ctx.violation('%s monitor %s: %s' % (p, kind, json.dumps(item, default=str)[:300]),
                          replay_obj(prog, y, table, policy, w, tr, {'seed': seed, 'hit': item}), sig)
    return tr
