"""Support tooling for the liveness clause of C01 (NOT the verdict): exhaustive exploration of the
engine MODEL on small definitions.

For every generated small direct workflow (<= 5 tasks: forks, joins all/one/N, on-error /
on-complete routes, guards that do not fire, optional task-defaults, optional multiple activation)
the compiled Lean driver (`enginelive.explore`) enumerates EVERY reachable world of
`Mistral.Engine` (all delivery orders, both results of every action, pause / resume / stop at every
point) and evaluates the executable forms of the invariants of `Mistral.Lemmas.EngineLive`, first
of all `no_stuck` (RUNNING with nothing pending).  A hit is printed with the event list that
reaches it; `harness/live_replay.py` replays such an event list on the REAL engine.

  /venv/bin/python -m harness.live_explore --n 400 --seed 0 --max-tasks 4 [--no-ops] [--loss]
                                           [--multi] [--cyclic] [--jobs 6] [--max-states 150000]
"""
import argparse
import json
import multiprocessing
import os
import random
import sys

sys.path.insert(0, os.path.dirname(os.path.dirname(os.path.abspath(__file__))))

CLAUSES = ('on_success', 'on_error', 'on_complete')


def gen_small(rng, max_tasks=4, multi=False, cyclic=False, p_defaults=0.1):
    """a small program in the format of harness/wfgen.py (data-free: guards are literals)"""
    n = rng.randint(2, max_tasks)
    names = ['t%d' % i for i in range(n)]
    tasks = [{'name': nm, 'action': ['noop'], 'join': None, 'on_success': [], 'on_error': [], 'on_complete': []}
             for nm in names]
    for i in range(1, n):
        k = rng.choice([0, 1, 1, 1, 2, 2, 3])
        for s in rng.sample(range(i), min(k, i)):
            cl = rng.choice(['on_success', 'on_success', 'on_success', 'on_error', 'on_complete'])
            if not any(r['to'] == names[i] for r in tasks[s][cl]):
                tasks[s][cl].append({'to': names[i], 'guard': None if rng.random() < 0.75 else ['lit', False]})
    if cyclic and rng.random() < 0.5:
        a, b = sorted(rng.sample(range(n), 2))
        cl = rng.choice(CLAUSES)
        tasks[b][cl].append({'to': names[a], 'guard': None})
    inb = {nm: 0 for nm in names}
    for t in tasks:
        for cl in CLAUSES:
            for r in t[cl]:
                inb[r['to']] += 1
    for t in tasks:
        k = inb[t['name']]
        if k >= 2:
            if not multi or rng.random() < 0.8:
                t['join'] = rng.choice(['all', 'all', 'all', 'one', 2, k])
        elif k == 1 and rng.random() < 0.15:
            t['join'] = rng.choice(['all', 'one'])
    prog = {'name': 'wf', 'type': 'direct', 'tasks': tasks}
    if rng.random() < p_defaults:
        tgt = rng.choice(names[1:])
        prog['defaults'] = {rng.choice(CLAUSES): [{'to': tgt, 'guard': None}]}
        for cl in CLAUSES:
            prog['defaults'].setdefault(cl, [])
    return prog


HAND = [
    # fork / join all
    {'name': 'wf', 'type': 'direct', 'tasks': [
        {'name': 'a', 'action': ['noop'], 'join': None, 'on_success': [{'to': 'b', 'guard': None}, {'to': 'c', 'guard': None}], 'on_error': [], 'on_complete': []},
        {'name': 'b', 'action': ['noop'], 'join': None, 'on_success': [{'to': 'j', 'guard': None}], 'on_error': [], 'on_complete': []},
        {'name': 'c', 'action': ['noop'], 'join': None, 'on_success': [{'to': 'j', 'guard': None}], 'on_error': [], 'on_complete': []},
        {'name': 'j', 'action': ['noop'], 'join': 'all', 'on_success': [], 'on_error': [], 'on_complete': []}]},
    # join fed through a row-less intermediate task (indirect wake-up)
    {'name': 'wf', 'type': 'direct', 'tasks': [
        {'name': 'a', 'action': ['noop'], 'join': None, 'on_success': [{'to': 'm', 'guard': None}], 'on_error': [], 'on_complete': []},
        {'name': 'm', 'action': ['noop'], 'join': None, 'on_success': [{'to': 'j', 'guard': None}], 'on_error': [], 'on_complete': []},
        {'name': 'b', 'action': ['noop'], 'join': None, 'on_success': [{'to': 'j', 'guard': None}], 'on_error': [], 'on_complete': []},
        {'name': 'j', 'action': ['noop'], 'join': 'all', 'on_success': [], 'on_error': [], 'on_complete': []}]},
    # join one with a successor (re-run by the late branch)
    {'name': 'wf', 'type': 'direct', 'tasks': [
        {'name': 'a', 'action': ['noop'], 'join': None, 'on_success': [{'to': 'j', 'guard': None}], 'on_error': [], 'on_complete': []},
        {'name': 'b', 'action': ['noop'], 'join': None, 'on_success': [{'to': 'j', 'guard': None}], 'on_error': [], 'on_complete': []},
        {'name': 'j', 'action': ['noop'], 'join': 'one', 'on_success': [{'to': 'k', 'guard': None}], 'on_error': [{'to': 'e', 'guard': None}], 'on_complete': []},
        {'name': 'k', 'action': ['noop'], 'join': None, 'on_success': [], 'on_error': [], 'on_complete': []},
        {'name': 'e', 'action': ['noop'], 'join': None, 'on_success': [], 'on_error': [], 'on_complete': []}]},
    # a partial join re-run by its late branch WHILE PAUSED keeps the stale `processed` flag of its first
    # completion: the successors of the second completion are never dispatched, a later join waits for them
    {'name': 'wf', 'type': 'direct', 'tasks': [
        {'name': 'a', 'action': ['noop'], 'join': None, 'on_success': [{'to': 'j', 'guard': None}], 'on_error': [], 'on_complete': []},
        {'name': 'b', 'action': ['noop'], 'join': None, 'on_success': [{'to': 'j', 'guard': None}], 'on_error': [], 'on_complete': []},
        {'name': 'j', 'action': ['noop'], 'join': 'one', 'on_success': [{'to': 'k', 'guard': None}], 'on_error': [{'to': 'e', 'guard': None}], 'on_complete': []},
        {'name': 'k', 'action': ['noop'], 'join': None, 'on_success': [{'to': 'z', 'guard': None}], 'on_error': [], 'on_complete': []},
        {'name': 'e', 'action': ['noop'], 'join': None, 'on_success': [{'to': 'z', 'guard': None}], 'on_error': [], 'on_complete': []},
        {'name': 'z', 'action': ['noop'], 'join': 'all', 'on_success': [], 'on_error': [], 'on_complete': []}]},
]


def out_edges(prog):
    """edges of the graph the join logic sees (own clause if non-empty, else task-defaults minus self)"""
    d = prog.get('defaults') or {}
    res = {}
    for t in prog['tasks']:
        outs = []
        for cl in CLAUSES:
            own = [r['to'] for r in t.get(cl) or []]
            outs += own if own else [r['to'] for r in d.get(cl) or [] if r['to'] != t['name']]
        res[t['name']] = outs
    return res


def acyclic(prog):
    e = out_edges(prog)
    state = {}

    def visit(n):
        if state.get(n) == 1:
            return False
        if state.get(n) == 2:
            return True
        state[n] = 1
        ok = all(visit(m) for m in e.get(n, []))
        state[n] = 2
        return ok
    return all(visit(n) for n in e)


def spec_json(prog):
    from harness import core_stream
    return core_stream.spec_json(prog)


def _worker(args):
    seeds, opt = args
    from vlib import core
    drv = core.Driver()
    out = []
    for kind, s in seeds:
        if kind == 'hand':
            prog = HAND[s]
        else:
            prog = gen_small(random.Random(s), opt['max_tasks'], opt['multi'], opt['cyclic'])
            if opt.get('acyclic_only') and not acyclic(prog):
                continue
        r = drv.call('enginelive.walk' if opt.get('walks') else 'enginelive.explore', {
            'walks': opt.get('walks') or 0, 'maxLen': 400, 'seed': s if isinstance(s, int) else 0,'spec': spec_json(prog), 'ops': opt['ops'], 'loss': opt['loss'],
                                            'maxStates': opt['max_states'], 'maxPauses': opt['max_pauses'],
                                            'clean': opt['clean'], 'dfs': opt['dfs']})
        out.append((kind, s, prog, r))
    return out


def main():
    ap = argparse.ArgumentParser()
    ap.add_argument('--n', type=int, default=200)
    ap.add_argument('--seed', type=int, default=0)
    ap.add_argument('--max-tasks', type=int, default=4)
    ap.add_argument('--no-ops', action='store_true')
    ap.add_argument('--loss', action='store_true')
    ap.add_argument('--multi', action='store_true', help='allow non-join tasks with several inbound routes')
    ap.add_argument('--cyclic', action='store_true')
    ap.add_argument('--jobs', type=int, default=6)
    ap.add_argument('--max-states', type=int, default=150000)
    ap.add_argument('--max-pauses', type=int, default=2)
    ap.add_argument('--hand-only', action='store_true')
    ap.add_argument('--clean', action='store_true', help='do not check / expand worlds outside pausedClean')
    ap.add_argument('--dfs', action='store_true')
    ap.add_argument('--walks', type=int, default=0, help='random deep walks per spec instead of the exhaustive search')
    ap.add_argument('--acyclic-only', action='store_true')
    ap.add_argument('--out', default=None)
    ap.add_argument('--show', type=int, default=3)
    a = ap.parse_args()
    opt = {'max_tasks': a.max_tasks, 'ops': not a.no_ops, 'loss': a.loss, 'multi': a.multi, 'cyclic': a.cyclic,
           'max_states': a.max_states, 'max_pauses': a.max_pauses, 'clean': a.clean, 'dfs': a.dfs,
           'acyclic_only': a.acyclic_only, 'walks': a.walks}
    seeds = [('hand', i) for i in range(len(HAND))] + ([] if a.hand_only else [('gen', a.seed * 1000003 + i) for i in range(a.n)])
    chunks = [(seeds[i::a.jobs], opt) for i in range(a.jobs)]
    with multiprocessing.Pool(a.jobs) as pool:
        res = [x for part in pool.map(_worker, chunks) for x in part]
    total = sum(r['states'] for _, _, _, r in res if isinstance(r, dict) and 'states' in r)
    trunc = sum(1 for _, _, _, r in res if isinstance(r, dict) and r.get('truncated'))
    bad = [x for x in res if not isinstance(x[3], dict) or 'states' not in x[3]]
    hits = {}
    for kind, s, prog, r in res:
        if not isinstance(r, dict):
            continue
        for v in r.get('violations', []):
            hits.setdefault(v['inv'] + ('' if acyclic(prog) else ' [CYCLIC spec]'), []).append({'kind': kind, 'seed': s, 'prog': prog, 'events': v['events'],
                                                  'world': v['world']})
    excl = sum(r.get('excluded', 0) for _, _, _, r in res if isinstance(r, dict))
    print('specs %d  worlds %d  truncated %d  excluded-worlds %d  driver-errors %d' % (len(res), total, trunc, excl, len(bad)))
    for b in bad[:3]:
        print('  ERR', b[3])
    for inv, hs in sorted(hits.items()):
        hs.sort(key=lambda h: (len(h['prog']['tasks']), len(h['events'])))
        print('VIOLATED %s: %d specs' % (inv, len(hs)))
        for h in hs[:a.show]:
            from harness import wfgen
            print('--- seed', h['kind'], h['seed'])
            print(wfgen.render_yaml(h['prog']))
            print('  events:', ' ; '.join(fmt_ev(e) for e in h['events']))
            print('  world :', json.dumps(h['world']))
    if a.out:
        with open(a.out, 'w') as f:
            json.dump(hits, f)
    return 1 if hits else 0


def fmt_ev(e):
    if e['ev'] == 'deliver':
        i = e['item']
        s = i['k'] + ((':%s#%d' % (i['t'], i.get('occ', 0))) if 't' in i else '')
        if 'firstRun' in i:
            s += ':' + str(i['firstRun'])[0]
        if 'ok' in i:
            s += ':' + str(i['ok'])[0]
        return s
    if e['ev'] == 'execute':
        return 'execute:%s#%d:%s' % (e['t'], e.get('occ', 0), str(e['ok'])[0])
    if e['ev'] == 'stop':
        return 'stop:' + e['state']
    return e['ev']


if __name__ == '__main__':
    sys.exit(main())
