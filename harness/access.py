"""C15 harness: the real db-api (mistral.db.v2.api) on in-memory sqlite with
auth_enable=True, a fixed multi-tenant population, per-case rollback, snapshots.

Nothing here knows the Lean model; props/C15.py compares."""
import datetime
import inspect

PROJECTS = ['pA', 'pO', 'pMp', 'pMa', 'pMr', 'pC', 'pADM']   # ordinals 1..7 ; 0 = NULL/unknown
ADMIN = 'pADM'
REL = {'pA': 'owner', 'pO': 'other', 'pMp': 'member-pending', 'pMa': 'member-accepted',
       'pMr': 'member-rejected', 'pC': 'third', 'pADM': 'admin'}

_state = {}


def pord(p):
    return PROJECTS.index(p) + 1 if p in PROJECTS else 0


def setup():
    if _state:
        return _state
    from harness import boot
    boot.boot()
    from oslo_config import cfg
    from mistral import context as auth_context
    from mistral.db.v2 import api as db_api
    from mistral.db.sqlalchemy import base as b
    from mistral.db.v2.sqlalchemy import models
    from mistral import exceptions as exc
    cfg.CONF.set_default('connection', 'sqlite://', group='database')
    cfg.CONF.set_default('max_overflow', -1, group='database')
    cfg.CONF.set_default('max_pool_size', 1000, group='database')
    cfg.CONF.set_default('auth_enable', True, group='pecan')
    db_api.setup_db()
    _state.update(cfg=cfg, auth=auth_context, db_api=db_api, b=b, models=models, exc=exc)
    return _state


def ctx_for(project, admin=None):
    st = setup()
    return st['auth'].MistralContext.from_dict({
        'user_name': 'u-' + str(project), 'user': 'u-' + str(project), 'tenant': project,
        'project_id': project, 'project_name': str(project),
        'is_admin': (project == ADMIN) if admin is None else admin})


def as_actor(project, admin=None):
    st = setup()
    st['auth'].set_ctx(ctx_for(project, admin))


# --------------------------------------------------------------------- population
DT = datetime.datetime(2030, 1, 1)

# model -> (create fn, values(name, scope, refs), data column)
TYPES = {
    'Workbook': ('create_workbook', lambda n, s, r: {
        'name': n, 'definition': 'd0', 'spec': {}, 'scope': s, 'tags': [], 'namespace': ''}, 'definition'),
    'WorkflowDefinition': ('create_workflow_definition', lambda n, s, r: {
        'name': n, 'definition': 'd0', 'spec': {}, 'scope': s, 'tags': [], 'namespace': ''}, 'definition'),
    'ActionDefinition': ('create_action_definition', lambda n, s, r: {
        'name': n, 'definition': 'x', 'description': 'd0', 'spec': {}, 'scope': s, 'tags': [],
        'namespace': '', 'action_class': 'a.b.C', 'attributes': {}, 'input': ''}, 'description'),
    'CodeSource': ('create_code_source', lambda n, s, r: {
        'name': n, 'content': 'd0', 'version': 1, 'scope': s, 'namespace': '', 'tags': []}, 'content'),
    'DynamicActionDefinition': ('create_dynamic_action_definition', lambda n, s, r: {
        'name': n, 'class_name': 'd0', 'scope': s, 'namespace': '', 'code_source_id': r['cs'],
        'code_source_name': 'ref_cs'}, 'class_name'),
    'Environment': ('create_environment', lambda n, s, r: {
        'name': n, 'description': 'd0', 'variables': {'k': 'v'}, 'scope': s}, 'description'),
    'CronTrigger': ('create_cron_trigger', lambda n, s, r: {
        'name': n, 'pattern': '%d * * * *' % r['seq'], 'workflow_name': 'ref_wf', 'workflow_id': r['wf'],
        'workflow_input': {}, 'workflow_params': {'d': 'd0'}, 'next_execution_time': DT,
        'remaining_executions': 5, 'scope': s, 'trust_id': None}, 'workflow_params'),
    'EventTrigger': ('create_event_trigger', lambda n, s, r: {
        'name': n, 'workflow_id': r['wf'], 'exchange': 'd0', 'topic': 't%d' % r['seq'], 'event': 'e',
        'workflow_input': {}, 'workflow_params': {}, 'scope': s, 'trust_id': None}, 'exchange'),
    'WorkflowExecution': ('create_workflow_execution', lambda n, s, r: {
        'name': n, 'description': 'd0', 'workflow_name': 'ref_wf', 'workflow_id': r['wf'], 'spec': {},
        'state': 'SUCCESS', 'scope': s, 'context': {'glob': 'secret-' + n}, 'input': {}, 'params': {},
        'updated_at': DT},
        'description'),
    'TaskExecution': ('create_task_execution', lambda n, s, r: {
        'name': n, 'description': 'd0', 'workflow_execution_id': r['wfex'], 'workflow_name': 'ref_wf',
        'workflow_id': r['wf'], 'spec': {}, 'state': 'SUCCESS', 'type': 'ACTION', 'scope': s,
        'published': {}, 'in_context': {}, 'runtime_context': {}, 'updated_at': DT}, 'description'),
    'ActionExecution': ('create_action_execution', lambda n, s, r: {
        'name': n, 'description': 'd0', 'task_execution_id': r['task'], 'workflow_name': 'ref_wf',
        'spec': {}, 'state': 'SUCCESS', 'scope': s, 'input': {}, 'output': {'result': 1},
        'accepted': True}, 'description'),
}
ORDER = ['WorkflowDefinition', 'Workbook', 'ActionDefinition', 'CodeSource', 'DynamicActionDefinition',
         'Environment', 'CronTrigger', 'EventTrigger', 'WorkflowExecution', 'TaskExecution',
         'ActionExecution']
SHARE_TAG = {'WorkflowDefinition': 'workflow', 'Workbook': 'workbook'}
SYSTEM_TYPES = ('Workbook', 'WorkflowDefinition', 'ActionDefinition')

# (owner, name, scope)
LAYOUT = [
    ('pA', 'a_priv', 'private'), ('pA', 'a_pub', 'public'), ('pA', 'a_shared', 'private'),
    ('pA', 'col', 'private'), ('pA', 'colp', 'public'),
    ('pO', 'o_priv', 'private'), ('pO', 'o_pub', 'public'), ('pO', 'col', 'private'),
    ('pO', 'colp', 'private'),
    ('pMa', 'col', 'private'), ('pMa', 'ma_priv', 'private'),
    ('pADM', 'adm_priv', 'private'),
]
REF_OWNERS = ['pA', 'pO', 'pMa', 'pADM']       # projects that own dependent rows
SHARED_NAMES = ('a_shared', 'col', 'x_shared')  # pA's rows with member rows
# real workflows (valid definition + spec) for the service-level "execute" operations
WF_TEXT = "version: '2.0'\n%s:\n  type: direct\n  tasks:\n    t1:\n      action: std.noop\n"
EXEC_WFS = (('x_priv', 'private'), ('x_pub', 'public'), ('x_shared', 'private'))


def data_of(model, row):
    col = TYPES[model][2]
    v = getattr(row, col)
    if isinstance(v, dict):
        v = v.get('d', 'd0')
    return v


def data_num(v):
    try:
        return int(str(v)[1:]) if str(v).startswith('d') else 999999
    except ValueError:
        return 999999


class World(object):
    """the population; ids <-> ordinals"""

    def __init__(self):
        self.st = setup()
        self.ids = {}       # uuid -> ordinal
        self.rev = {}
        self.rows = []      # dicts of the population
        self.refs = {}
        self.seq = 0
        self.build()

    def oid(self, uuid):
        if uuid not in self.ids:
            self.ids[uuid] = len(self.ids) + 1
            self.rev[self.ids[uuid]] = uuid
        return self.ids[uuid]

    def build(self):
        db_api = self.st['db_api']
        # reference rows (excluded from the targets): workflow, code source, wf execution, task
        for p in REF_OWNERS:
            as_actor(p, admin=False)
            with db_api.transaction():
                wf = db_api.create_workflow_definition(TYPES['WorkflowDefinition'][1]('ref_wf', 'private', {}))
                cs = db_api.create_code_source(TYPES['CodeSource'][1]('ref_cs', 'private', {}))
                r = {'wf': wf.id, 'cs': cs.id, 'seq': 0}
                wx = db_api.create_workflow_execution(TYPES['WorkflowExecution'][1]('ref_ex', 'private', r))
                r['wfex'] = wx.id
                tk = db_api.create_task_execution(TYPES['TaskExecution'][1]('ref_task', 'private', r))
                r['task'] = tk.id
                self.refs[p] = r
                for x in (wf, cs, wx, tk):
                    self.oid(x.id)
        for model in ORDER:
            fn, mk, _ = TYPES[model]
            for (owner, name, scope) in LAYOUT:
                as_actor(owner, admin=False)
                self.seq += 1
                r = dict(self.refs[owner], seq=self.seq)
                with db_api.transaction():
                    row = getattr(db_api, fn)(mk(name, scope, r))
                    self.oid(row.id)
            if model in SYSTEM_TYPES:
                as_actor('pA', admin=False)
                with db_api.transaction():
                    v = mk('sys', 'public', dict(self.refs['pA'], seq=0))
                    v['is_system'] = True
                    row = getattr(db_api, fn)(v)
                    self.oid(row.id)
        from mistral.services import workflows as wf_service
        as_actor('pA', admin=False)
        for name, scope in EXEC_WFS:
            for wf in wf_service.create_workflows(WF_TEXT % name, scope=scope):
                self.oid(wf.id)
        # member rows: pA shares a_shared and col (workflow, workbook) with pMp/pMa/pMr
        as_actor('pA', admin=False)
        snap = self.snapshot()
        with db_api.transaction():
            for r in snap['resources']:
                if r['t'] in SHARE_TAG and r['p'] == pord('pA') and r['n'] in SHARED_NAMES:
                    for member, status in (('pMp', 'pending'), ('pMa', 'accepted'), ('pMr', 'rejected')):
                        db_api.create_resource_member({
                            'resource_id': self.rev[r['id']], 'resource_type': SHARE_TAG[r['t']],
                            'member_id': member, 'status': status})
                # a membership of the wrong type must not grant anything
                if r['t'] == 'WorkflowDefinition' and r['p'] == pord('pA') and r['n'] == 'a_priv':
                    db_api.create_resource_member({
                        'resource_id': self.rev[r['id']], 'resource_type': 'workbook',
                        'member_id': 'pO', 'status': 'accepted'})
        self.base = self.snapshot()

    # ---------------------------------------------------------------- snapshots
    def snapshot(self):
        """all tenant rows + member rows as the admin sees them through a plain query in the
        current session (flushes pending changes first)."""
        b, models = self.st['b'], self.st['models']
        own_tx = b._get_thread_local_session() is None
        if own_tx:
            self.st['db_api'].start_tx()
        try:
            ses = b._get_thread_local_session()
            ses.flush()
            res = []
            for model in ORDER:
                M = getattr(models, model)
                cols = [M.id, M.name, M.project_id, M.scope, getattr(M, TYPES[model][2])]
                has_sys = hasattr(M, 'is_system')
                if has_sys:
                    cols.append(M.is_system)
                for tup in ses.query(*cols).all():
                    d = tup[4]
                    if isinstance(d, dict):
                        d = d.get('d', 'd0')
                    res.append({'t': model, 'id': self.oid(tup[0]), 'n': tup[1] or '',
                                'p': pord(tup[2]), 's': 'public' if tup[3] == 'public' else 'private',
                                'sys': bool(tup[5]) if has_sys else False, 'd': data_num(d)})
            mem = []
            RM = models.ResourceMember
            for tup in ses.query(RM.resource_id, RM.resource_type, RM.project_id, RM.member_id,
                                 RM.status).all():
                mem.append({'res': self.ids.get(tup[0], 0), 'rt': tup[1], 'owner': pord(tup[2]),
                            'member': pord(tup[3]), 'status': tup[4]})
            res.sort(key=lambda r: r['id'])
            mem.sort(key=lambda m: (m['res'], m['rt'], m['member'], m['owner']))
            return {'resources': res, 'members': mem}
        finally:
            if own_tx:
                self.st['db_api'].rollback_tx()
                self.st['db_api'].end_tx()

    def targets(self, model):
        return [r for r in self.base['resources'] if r['t'] == model and not r['n'].startswith('ref_')]

    # ---------------------------------------------------------------- one case
    def run_case(self, project, fn_name, call_args, call_kwargs, after=True):
        """run db_api.<fn>(*args, **kwargs) as `project` inside a transaction that is rolled
        back; returns (observation, snapshot after or None)."""
        db_api, exc = self.st['db_api'], self.st['exc']
        as_actor(project)
        db_api.start_tx()
        try:
            try:
                ret = getattr(db_api, fn_name)(*call_args, **call_kwargs)
                obs = self.observe(ret)
            except exc.DBEntityNotFoundError:
                obs = {'k': 'notFound'}
            except exc.NotAllowedException:
                obs = {'k': 'notAllowed'}
            except exc.InvalidActionException:
                obs = {'k': 'systemProtected'}
            except Exception as e:     # undeclared for this harness
                obs = {'k': 'exc', 'type': type(e).__name__, 'msg': str(e)[:160]}
                try:
                    db_api.rollback_tx()
                except Exception:
                    pass
            snap = None
            if after:
                try:
                    snap = self.snapshot()
                except Exception as e:
                    obs = {'k': 'exc', 'type': 'flush:' + type(e).__name__, 'msg': str(e)[:160]}
                    try:
                        db_api.rollback_tx()
                    except Exception:
                        pass
            return obs, snap
        finally:
            try:
                db_api.rollback_tx()
            finally:
                db_api.end_tx()
                # forget ordinals of rows that were rolled back
                for u in [u for u, o in self.ids.items() if o > self.n_base]:
                    del self.ids[u]
                self.rev = {o: u for u, o in self.ids.items()}

    def freeze(self):
        self.n_base = len(self.ids)

    def observe(self, ret):
        models = self.st['models']
        if ret is None:
            return {'k': 'nothing'}
        if isinstance(ret, tuple) and ret and hasattr(ret[0], 'id'):
            ret = ret[0]           # update_cron_trigger returns (row, count)
        if isinstance(ret, bool):
            return {'k': 'value', 'v': ret}
        if isinstance(ret, int):
            return {'k': 'count', 'n': ret}
        if hasattr(ret, 'all') and hasattr(ret, 'filter'):
            ret = ret.all()
        if isinstance(ret, (list, tuple)):
            return {'k': 'rows', 'ids': sorted(self.oid(x.id) for x in ret),
                    'projects': sorted({pord(getattr(x, 'project_id', None)) for x in ret})}
        if hasattr(ret, 'id'):
            return {'k': 'row', 'id': self.oid(ret.id), 'project': pord(getattr(ret, 'project_id', None)),
                    'scope': getattr(ret, 'scope', None)}
        return {'k': 'value', 'v': repr(ret)[:80]}


_world = []


def get_world():
    """the population lives in the process-wide in-memory database: build it once"""
    if not _world:
        w = World()
        w.freeze()
        _world.append(w)
    return _world[0]


def facade_signature(fn_name):
    st = setup()
    f = getattr(st['db_api'], fn_name, None)
    if f is None:
        return None
    return inspect.signature(f)


KEY_PARAMS = ('id', 'identifier', 'name')


def build_call(fn_name, key, values=None, insecure=None, filters=None):
    """positional args / kwargs for the facade function from its real signature.
    key: ('id', uuid) | ('name', str) | None.  Returns None if the signature has a required
    parameter this harness does not know."""
    sig = facade_signature(fn_name)
    if sig is None:
        return None
    args, kwargs = [], {}
    for pname, p in sig.parameters.items():
        if p.kind == p.VAR_KEYWORD:
            kwargs.update(filters or {})
            if insecure is not None and 'insecure' not in sig.parameters:
                kwargs['insecure'] = insecure
            continue
        if p.kind == p.VAR_POSITIONAL:
            return None
        if pname in KEY_PARAMS:
            if key is None:
                return None
            args.append(key[1])
        elif pname == 'namespace':
            args.append('')
        elif pname == 'values':
            args.append(dict(values or {}))
        elif pname == 'insecure':
            if insecure is not None:
                kwargs['insecure'] = insecure
        elif p.default is not p.empty:
            if filters and pname in filters:
                kwargs[pname] = filters[pname]
            continue
        else:
            return None
    return args, kwargs
