"""Stream `join`: the real DirectWorkflowController._get_join_logical_state on generated specs
with synthetic task rows (inserted in sqlite) vs Mistral.Join.joinLogicalState."""
import ast
import re

from harness import wfgen

STATES_DONE = ['SUCCESS', 'ERROR', 'CANCELLED', 'SKIPPED']
STATES_LIVE = ['RUNNING', 'IDLE', 'WAITING', 'DELAYED', 'PAUSED']


def gen_rows(rng, prog):
    """Synthetic rows: for each task none / live / completed with a plausible or odd next_tasks."""
    rows = []
    for t in prog['tasks']:
        r = rng.random()
        if r < 0.30:
            continue
        reps = 2 if rng.random() < 0.05 else 1     # a second execution of the same task (cycles/reruns)
        for _ in range(reps):
            if rng.random() < 0.25:
                rows.append({'name': t['name'], 'state': rng.choice(STATES_LIVE), 'nextTasks': []})
                continue
            state = rng.choice(['SUCCESS', 'SUCCESS', 'SUCCESS', 'ERROR', 'ERROR', 'CANCELLED', 'SKIPPED'])
            outs = []
            for clause, ev in (('on_success', 'on-success'), ('on_error', 'on-error'), ('on_complete', 'on-complete')):
                for rt in (t.get(clause) or []):
                    outs.append((rt['to'], ev))
            for rt_clause, ev in (('on_success', 'on-success'), ('on_error', 'on-error'), ('on_complete', 'on-complete')):
                if not (t.get(rt_clause)) and prog.get('defaults', {}) and prog['defaults'].get(rt_clause):
                    for rt in prog['defaults'][rt_clause]:
                        if rt['to'] != t['name']:
                            outs.append((rt['to'], ev))
            outs = [o for o in outs if o[0] not in wfgen.ENGINE_CMDS]
            if state == 'SUCCESS':
                cand = [o for o in outs if o[1] in ('on-success', 'on-complete')]
            elif state == 'ERROR':
                cand = [o for o in outs if o[1] in ('on-error', 'on-complete')]
            else:
                cand = []
            nt = [list(o) for o in cand if rng.random() < 0.8]
            if rng.random() < 0.05 and outs:
                nt.append(list(rng.choice(outs)))      # inconsistent / duplicated entry
            rows.append({'name': t['name'], 'state': state, 'nextTasks': nt})
    rng.shuffle(rows)
    return rows


class JoinImpl(object):
    """Holds a real workflow execution row + controller for one program."""

    def __init__(self, world, prog):
        from mistral.lang import parser as spec_parser
        from mistral.db.v2 import api as db_api
        from mistral.workflow import base as wf_base
        self.db_api = db_api
        self.world = world
        self.yaml = wfgen.render_yaml(prog)
        self.wf_spec = spec_parser.get_workflow_list_spec_from_yaml(self.yaml).get_workflows()[0]
        with db_api.transaction():
            self.wf_ex = db_api.create_workflow_execution({
                'name': 'wf', 'workflow_name': 'wf', 'spec': self.wf_spec.to_dict(),
                'state': 'RUNNING', 'params': {}, 'input': {}, 'context': {}, 'output': {}})
            self.wf_ex_id = self.wf_ex.id
        self.wf_base = wf_base

    def set_rows(self, rows):
        db_api = self.db_api
        with db_api.transaction():
            db_api.delete_task_executions()
            self.ids = {}
            for r in rows:
                t = db_api.create_task_execution({
                    'name': r['name'], 'workflow_execution_id': self.wf_ex_id, 'workflow_name': 'wf',
                    'state': r['state'], 'next_tasks': [tuple(x) for x in r['nextTasks']],
                    'spec': {}, 'in_context': {}, 'published': {}, 'runtime_context': {}})
                self.ids[t.id] = r['name']

    def db_order_rows(self, rows):
        """rows in the order the DB lists them (by id) - what the dict comprehension sees"""
        db_api = self.db_api
        with db_api.transaction(read_only=True):
            lst = db_api.get_task_executions(workflow_execution_id=self.wf_ex_id, sort_keys=[])
            return [{'name': t.name, 'state': t.state,
                     'nextTasks': [list(x) for x in (t.next_tasks or [])]} for t in lst]

    def logical(self, join_name):
        db_api = self.db_api
        with db_api.transaction(read_only=True):
            wf_ex = db_api.get_workflow_execution(self.wf_ex_id)
            ctrl = self.wf_base.get_controller(wf_ex, self.wf_spec)
            ts = self.wf_spec.get_tasks()[join_name]
            try:
                ls = ctrl._get_join_logical_state(ts)
            except RecursionError:
                return 'recursion'
            info = ls.state_info or ''
            blocked, failed = [], []
            m = re.match(r'Blocked by tasks: (.*)$', info)
            if m:
                blocked = ast.literal_eval(m.group(1))
            m = re.match(r'Failed by tasks: (.*)$', info)
            if m:
                failed = ast.literal_eval(m.group(1))
            return {'state': ls.state, 'cardinality': ls.cardinality,
                    'triggeredBy': [[self.ids.get(x['task_id'], '?'), x['event']] for x in ls.triggered_by],
                    'blockedBy': blocked, 'failedBy': failed}

    def inbound(self, name):
        ts = self.wf_spec.get_tasks()[name]
        return [t.get_name() for t in self.wf_spec.find_inbound_task_specs(ts)]


def run_chunk(ctx, n_programs, rows_per_program):
    from harness import engine_driver
    world = engine_driver.EngineWorld(seed='%s-%s' % (ctx.seed, ctx.chunk))
    return run(ctx, world, n_programs, rows_per_program)


def run(ctx, world, n_programs, rows_per_program):
    """returns number of join calls made"""
    drv = ctx.driver()
    calls = 0
    for pi in range(n_programs):
        prog = wfgen.gen_dag(ctx.rng, p_cycle=0.25, p_defaults=0.25, p_cmd=0.1)
        joins = [t for t in prog['tasks'] if t.get('join') is not None]
        try:
            impl = JoinImpl(world, prog)
        except Exception as e:
            ctx.count('join', 'invalid-def:' + type(e).__name__)
            continue
        if not joins:
            ctx.count('join', 'no-join')
        g = wfgen.graph_json(prog)
        # graph functions: inbound of every task
        for t in prog['tasks']:
            mo = drv.call('join.inbound', {'graph': g, 'name': t['name']})
            io = impl.inbound(t['name'])
            ctx.evaluated('join', None)
            if mo != io:
                ctx.disagree('join', {'fn': 'inbound', 'yaml': impl.yaml, 'task': t['name']}, mo, io)
        for ri in range(rows_per_program if joins else 0):
            rows = gen_rows(ctx.rng, prog)
            impl.set_rows(rows)
            dbrows = impl.db_order_rows(rows)
            for j in joins:
                mo = drv.call('join.logicalState', {'graph': g, 'rows': dbrows, 'fuel': 200,
                                                    'join': j['name'], 'kind': j['join']})
                io = impl.logical(j['name'])
                calls += 1
                st = io if isinstance(io, str) else io['state']
                ctx.count('join', 'verdict:' + st)
                ctx.count('join', 'kind:' + str(j['join'] if not isinstance(j['join'], int) else 'N'))
                ctx.evaluated('join', [g, dbrows, j['name']], nontrivial=True)
                if ctx.rng.random() < 0.002:
                    ctx.sample({'stream': 'join', 'yaml': impl.yaml, 'rows': dbrows, 'join': j['name'], 'impl': io})
                if mo != io:
                    ctx.disagree('join', {'fn': 'logicalState', 'yaml': impl.yaml, 'graph': g, 'rows': dbrows,
                                          'join': j['name'], 'kind': j['join']}, mo, io)
    return calls
