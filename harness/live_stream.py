"""Stream `live` (C01, liveness clause): the tie between the theorem `no_stuck_acyclic`
(Mistral.Props.C01) and the real engine.

* corpus/C01/*.json: event lists found on the MODEL (theorem counter-witnesses); replayed event by
  event on the REAL engine with harness/live_replay (rows + multiset of pending deliveries equal
  after every event); a replay that ends RUNNING with nothing deliverable is a C01 violation with the
  signature of its class.
* generated: small acyclic direct workflows of harness/live_explore.gen_small (forks, joins
  all/one/N with successors, guards that do not fire, on-error / on-complete routes, optionally a
  non-join task with several inbound routes) run on the REAL engine under a random schedule with
  pause / resume at random points (harness/core_stream.run_case); the model follows event by event
  (`engine.run`) and must agree after every event; the model also evaluates on every prefix the
  invariants of the theorem (`enginelive.check`).
  MONITOR (a direct reading of the statement): when the real run is quiescent the execution must not
  be RUNNING (a stuck run would contradict theorem + tie).
* search_corpus (failing-input search of props/C01.search): the histories on which the real engine got
  stuck before a fix are replayed on the real engine alone.
"""
import glob
import json
import os
import random

from harness import core_stream as cs
from harness import live_explore as le
from harness import live_replay as lr
from harness import wfgen

# signature of the (fixed) finding "a re-opened join completed while PAUSED is never continued"
REOPENED_SIG = {'kind': 'stuck', 'wf_state': 'RUNNING', 'cause': 'reopened-join-completed-while-paused'}
STUCK_SIG = {'kind': 'stuck', 'wf_state': 'RUNNING'}


def gen_indirect(rng):
    """a join fed through a chain of tasks that have no row yet when another branch has already created
    the join: the shape on which the forward walk of find_indirectly_affected_task_executions (passing
    THROUGH row-less tasks) decides whether the join is woken up"""
    def task(n, succ=(), err=(), join=None):
        return {'name': n, 'action': ['noop'], 'join': join,
                'on_success': [{'to': x, 'guard': None} for x in succ],
                'on_error': [{'to': x, 'guard': None} for x in err], 'on_complete': []}
    chain = rng.randint(1, 2)
    names = ['c%d' % i for i in range(chain + 1)]
    tasks = [task(names[i], succ=[names[i + 1]]) for i in range(chain)]
    tasks.append(task(names[-1], succ=['j']))
    tasks.append(task('b', succ=['j']))
    tasks.append(task('j', join=rng.choice(['all', 'all', 'one', 2]),
                      succ=['k'] if rng.random() < 0.5 else []))
    if any(r['to'] == 'k' for r in tasks[-1]['on_success']):
        tasks.append(task('k'))
    # one link of the chain may not fire (guard false) or be an on-error route
    t = tasks[rng.randrange(chain + 1)]
    mode = rng.choice(['fires', 'fires', 'guard-false', 'on-error'])
    if mode == 'guard-false':
        t['on_success'][0]['guard'] = ['lit', False]
    elif mode == 'on-error':
        t['on_error'], t['on_success'] = t['on_success'], []
    return {'name': 'wf', 'type': 'direct', 'tasks': tasks}


def corpus_files():
    from vlib import core
    return sorted(glob.glob(os.path.join(core.VERIF, 'corpus', 'C01', '*.json')))


def _events(c, key='events'):
    evs = c[key]
    if evs and isinstance(evs[0], str):
        evs = lr.parse_events(evs)
    return evs


def run_corpus(ctx):
    """regressions: a recorded model history is replayed on the real engine (model = real after every event),
    then the real engine is drained with the model following; the run must reach a final state"""
    drv = ctx.driver()
    for f in corpus_files():
        c = json.load(open(f))
        ctx.count('live', 'corpus')
        r = lr.replay(c['prog'], _events(c), drv=drv, drain=True)
        ctx.evaluated('live', ['corpus', os.path.basename(f)], nontrivial=True)
        if not r['ok']:
            ctx.disagree('live', {'corpus': os.path.basename(f), 'at': r['diverged_at']}, 'model event list', r['why'])
            continue
        if r['stuck']:
            ctx.count('live', 'hit:stuck')
            ctx.violation('C01 monitor stuck: RUNNING with nothing deliverable after the recorded history %s: %s' % (
                os.path.basename(f), json.dumps(r['final']['tasks'])[:200]),
                {'stream': 'live', 'prog': c['prog'], 'events': r.get('events', c['events']), 'final': r['final']},
                dict(c.get('signature') or STUCK_SIG))


def search_corpus(ctx):
    """failing-input search: the histories on which the real engine got stuck before a fix, real engine only"""
    for f in corpus_files():
        c = json.load(open(f))
        if not c.get('stuck_events_before_fix'):
            continue
        evs = _events(c, 'stuck_events_before_fix')
        r = lr.replay(c['prog'], evs, compare=False)
        ctx.count('live', 'search-corpus')
        if r['ok'] and r['stuck']:
            ctx.violation('C01 monitor stuck: the real execution is RUNNING with nothing deliverable after the recorded '
                          'history %s: %s' % (os.path.basename(f), json.dumps(r['final']['tasks'])[:200]),
                          {'stream': 'live', 'prog': c['prog'], 'events': c['stuck_events_before_fix'], 'final': r['final'],
                           'real_only': True},
                          dict(c.get('signature') or STUCK_SIG))


def run_chunk(ctx, n_programs, max_tasks=5):
    drv = ctx.driver()
    rng = ctx.rng
    if getattr(ctx, 'chunk', 0) == 0:
        run_corpus(ctx)
    done = 0
    tries = 0
    while done < n_programs and tries < 20 * n_programs:
        tries += 1
        if rng.random() < 0.3:
            prog = gen_indirect(random.Random(rng.getrandbits(48)))
            ctx.count('live', 'shape:indirect-join')
        else:
            prog = le.gen_small(random.Random(rng.getrandbits(48)), max_tasks, multi=rng.random() < 0.3, cyclic=False)
        if not le.acyclic(prog):
            continue
        done += 1
        for t in prog['tasks']:
            if rng.random() < 0.15:
                t['action'] = ['fail']
        table = wfgen.gen_oracle_table(rng, prog, p_err=0.15)
        policy = rng.choice(['random', 'random', 'fifo', 'lifo'])
        seed = rng.getrandbits(32)
        ops = []
        k = 0
        for _ in range(rng.choice([0, 1, 1, 2])):
            k1 = k + rng.randint(0, 18)
            k2 = rng.choice([k1 + rng.randint(0, 14), k1 + rng.randint(0, 14), 10 ** 6])
            ops += [{'at': k1, 'op': 'pause'}, {'at': k2, 'op': 'resume'}]
            if k2 >= 10 ** 6:
                break
            k = k2
        try:
            r = cs.run_case(ctx, prog, table, policy, seed, ops=[dict(o) for o in ops])
        except Exception as e:
            from mistral import exceptions as exc
            if isinstance(e, exc.MistralException):
                ctx.count('live', 'rejected:' + type(e).__name__)
                continue
            raise
        if r['unsupported']:
            ctx.count('live', 'unsupported-item')
            continue
        spec = cs.spec_json(prog)
        mo = drv.call('engine.run', {'spec': spec, 'events': r['events']})
        joins = [t.get('join') for t in prog['tasks'] if t.get('join') is not None]
        ctx.count('live', 'policy:' + policy)
        ctx.count('live', 'events', len(r['events']))
        ctx.count('live', 'pauses:%d' % (len(ops) // 2))
        for j in joins:
            ctx.count('live', 'join:%s' % ('all' if j == 'all' else 'partial'))
        ctx.evaluated('live', [r['yaml'], table, policy, seed, ops], nontrivial=bool(joins) or bool(ops))
        if not isinstance(mo, list):
            ctx.disagree('live', {'yaml': r['yaml'], 'events': r['events']}, mo, 'model refused the input')
            continue
        bad = False
        for kk, (m, real) in enumerate(zip(mo, r['real'])):
            mm = cs.model_obs(m)
            if mm != real:
                diff = {key: [mm[key], real[key]] for key in mm if mm[key] != real[key]}
                ctx.disagree('live', {'yaml': r['yaml'], 'oracle': table, 'policy': policy, 'seed': seed, 'ops': ops,
                                      'step': kk, 'event': r['events'][kk]},
                             {k2: v[0] for k2, v in diff.items()}, {k2: v[1] for k2, v in diff.items()})
                bad = True
                break
        if bad:
            continue
        # the invariants of the liveness theorem hold in the model on every prefix of the real history
        chk = drv.call('enginelive.check', {'spec': spec, 'events': r['events']})
        for kk, c in enumerate(chk):
            if c['failed']:
                ctx.disagree('live', {'yaml': r['yaml'], 'events': r['events'][:kk + 1]},
                             {'invariants violated in the model': c['failed']}, 'theorem live_inv / no_stuck_acyclic')
                break
        final = r['real'][-1]
        if not r['exhausted'] and final['wf'] == 'RUNNING' and not final['pending']:
            ctx.count('live', 'hit:stuck')
            ctx.violation('C01 monitor stuck: the real execution is RUNNING with nothing pending: %s' % (
                json.dumps(final['tasks'])[:200]),
                {'stream': 'live', 'prog': prog, 'events': r['events'], 'oracle': table, 'policy': policy,
                 'seed': seed, 'ops': ops, 'final': final}, dict(STUCK_SIG))
        if ctx.rng.random() < 0.01:
            ctx.sample({'stream': 'live', 'yaml': r['yaml'], 'events': len(r['events']), 'final': final['wf']})


def replay(ctx, rep):
    r = rep['replay']
    evs = r['events']
    if evs and isinstance(evs[0], str):
        evs = lr.parse_events(evs)
    out = lr.replay(r['prog'], evs, compare=not r.get('real_only'))
    print('replay: model/real agree on every event: %s; real final %s, pending %s, stuck %s' % (
        out['ok'] if not r.get('real_only') else 'n/a (real engine only)', out['final']['wf'], out['final']['pending'],
        out['stuck']))
    if out['stuck']:
        ctx.violation('C01 monitor stuck (replay)', r, dict(STUCK_SIG))
