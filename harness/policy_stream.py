"""Stream `policy`: one policy-bearing task (t1) plus a follow-up (t2) on the REAL engine under a chosen
schedule with a virtual clock, compared event by event with Mistral.Policy (Lean, through the driver),
plus the C08 monitors that read the property statement directly on the engine's committed rows.

A case = {'pol': {'task': {...}, 'defaults': {...}}, 'input': {...}, 'follow': .., 'oracle': [...],
          'tick_bias': p, 'seed': n}
  policy values are ['lit', v] | ['yaql', var] | ['jinja', var] (expressions over the workflow input),
  retry = {'count':.., 'delay':.., 'break-on': bool, 'continue-on': bool, 'oneline': bool}
  oracle[k] = [outcome 'success'|'error', c, b]  (k-th action execution of t1; the continue-on /
  break-on expressions read the flags from the action result)
"""
import copy
import json
import random

T1 = 't1'
T2 = 't2'
POLICY_JOBS = {'_continue_task': 'continue', '_complete_task': 'complete', '_fail_task_if_incomplete': 'timeout'}
NUMERIC = ['wait-before', 'wait-after', 'timeout', 'concurrency']
BOOLEAN = ['pause-before', 'fail-on']
CONTINUE_ON = "<% task().result in ['c1b0', 'c1b1'] %>"
BREAK_ON = "<% task().result in ['c0b1', 'c1b1'] %>"
COMPLETED = ('SUCCESS', 'ERROR')


# ----------------------------------------------------------------------------------- rendering
def _val_yaml(spec):
    kind, v = spec
    if kind == 'lit':
        return json.dumps(v)
    if kind == 'yaql':
        return '<% $.' + v + ' %>'
    if kind == 'jinja':
        return '"{{ _.' + v + ' }}"'
    raise ValueError(spec)


def _policy_lines(pol, indent):
    pad = ' ' * indent
    out = []
    for k in NUMERIC + BOOLEAN:
        if k in pol:
            out.append('%s%s: %s' % (pad, k, _val_yaml(pol[k])))
    r = pol.get('retry')
    if r:
        if r.get('oneline'):
            # one-line form: only literals / yaql
            out.append('%sretry: count=%s delay=%s' % (pad, _val_yaml(r['count']), _val_yaml(r['delay'])))
        else:
            out.append('%sretry:' % pad)
            out.append('%s  count: %s' % (pad, _val_yaml(r['count'])))
            out.append('%s  delay: %s' % (pad, _val_yaml(r['delay'])))
            if r.get('continue-on'):
                out.append('%s  continue-on: %s' % (pad, CONTINUE_ON))
            if r.get('break-on'):
                out.append('%s  break-on: %s' % (pad, BREAK_ON))
    return out


def render_yaml(case):
    lines = ["version: '2.0'", 'wf:']
    inp = sorted(case['input'].keys())
    if inp:
        lines.append('  input:')
        for k in inp:
            lines.append('    - %s' % k)
    d = case['pol'].get('defaults') or {}
    if d:
        lines.append('  task-defaults:')
        lines += _policy_lines(d, 4)
    lines.append('  tasks:')
    lines.append('    t1:')
    lines.append('      action: std.noop')
    lines += _policy_lines(case['pol'].get('task') or {}, 6)
    f = case['follow']
    if f != 'none':
        lines.append('      %s: [t2]' % {'onSuccess': 'on-success', 'onError': 'on-error', 'onComplete': 'on-complete'}[f])
    if f != 'none':          # (a task without inbound transitions would be a second start task)
        lines.append('    t2:')
        lines.append('      action: std.noop')
        if 'pause-before' in d:
            # the follow-up must not pause the workflow itself (it would inherit the default)
            lines.append('      pause-before: <% false %>')
    return '\n'.join(lines) + '\n'


# ----------------------------------------------------------------------------------- parameters
def _present(spec):
    """does a task-level / defaults value produce a policy object (build_*_policy)?  _group_spec drops
    falsy literals; a string (expression) always builds one."""
    if spec is None:
        return False
    kind, v = spec
    if kind != 'lit':
        return True
    return bool(v)


def effective_raw(case, key):
    t = (case['pol'].get('task') or {}).get(key)
    if _present(t):
        return t
    d = (case['pol'].get('defaults') or {}).get(key)
    if _present(d):
        return d
    return None


def evaluate(case, spec):
    kind, v = spec
    if kind == 'lit':
        return v
    return case['input'].get(v)


def pval(v):
    if isinstance(v, bool):
        return 'num'
    if isinstance(v, int):
        return ['int', v]
    if isinstance(v, float):
        return ['int', int(v)] if v == int(v) else 'num'
    return 'other'


def pbool(v):
    if isinstance(v, bool):
        return ['bool', v]
    return ['other', bool(v)]


def model_params(case):
    p = {}
    for k, name in (('wait-before', 'waitBefore'), ('wait-after', 'waitAfter'), ('timeout', 'timeout'),
                    ('concurrency', 'concurrency')):
        raw = effective_raw(case, k)
        p[name] = ['int', 0] if raw is None else pval(evaluate(case, raw))
    for k, name in (('pause-before', 'pauseBefore'), ('fail-on', 'failOn')):
        raw = effective_raw(case, k)
        p[name] = ['bool', False] if raw is None else pbool(evaluate(case, raw))
    r = (case['pol'].get('task') or {}).get('retry') or (case['pol'].get('defaults') or {}).get('retry')
    if r:
        p['retry'] = {'count': pval(evaluate(case, r['count'])), 'delay': pval(evaluate(case, r['delay'])),
                      'hasContinueOn': bool(r.get('continue-on')) and not r.get('oneline'),
                      'hasBreakOn': bool(r.get('break-on')) and not r.get('oneline')}
    else:
        p['retry'] = None
    # RegularTask._get_timeout reads the TASK-LEVEL timeout only
    tl = (case['pol'].get('task') or {}).get('timeout')
    raises = False
    if tl is not None and _present(tl) and tl[0] != 'lit':
        v = evaluate(case, tl)
        raises = not isinstance(v, (int, float))     # bool is an int
    p['execTimeoutRaises'] = raises
    p['follow'] = case['follow']
    return p


def valid_nat(pv):
    return isinstance(pv, list) and pv[0] == 'int' and pv[1] >= 0


def nat(pv):
    return pv[1] if valid_nat(pv) else 0


def params_valid(p):
    ok = all(valid_nat(p[k]) for k in ('waitBefore', 'waitAfter', 'timeout', 'concurrency'))
    ok = ok and p['pauseBefore'][0] == 'bool'
    if p['retry']:
        ok = ok and valid_nat(p['retry']['count']) and valid_nat(p['retry']['delay'])
    return ok


# ----------------------------------------------------------------------------------- generation
GOOD = {'wait-before': [0, 1, 2, 3, 5], 'wait-after': [0, 1, 2, 4], 'timeout': [0, 1, 2, 3, 4, 6, 10],
        'concurrency': [0, 1, 2], 'count': [0, 1, 1, 2, 2, 3], 'delay': [0, 1, 2, 3]}
BAD_NUM = ['abc', -1, -3, 1.5, True, None, 2.0, [1]]
BAD_BOOL = [1, 'yes', 0, None, '']


def _mk_val(rng, case, key, good, bad_p, allow_expr=True):
    """a policy value spec; registers an input variable for expressions"""
    bad = rng.random() < bad_p
    v = rng.choice(BAD_NUM) if bad else rng.choice(good)
    form = rng.choice(['lit', 'lit', 'yaql', 'yaql', 'jinja']) if allow_expr else 'lit'
    if bad or form != 'lit':
        if not allow_expr:
            return ['lit', rng.choice(good)]
        if form == 'lit':
            form = 'yaql'
        var = 'v%d' % len(case['input'])
        case['input'][var] = v
        return [form, var]
    return ['lit', v]


def _mk_bool(rng, case, p_true, bad_p):
    bad = rng.random() < bad_p
    v = rng.choice(BAD_BOOL) if bad else (rng.random() < p_true)
    form = rng.choice(['lit', 'yaql', 'yaql', 'jinja'])
    if bad or form != 'lit':
        if form == 'lit':
            form = 'yaql'
        var = 'v%d' % len(case['input'])
        case['input'][var] = v
        return [form, var]
    return ['lit', v]


def gen_case(rng, bad_p=None):
    if bad_p is None:
        bad_p = rng.choice([0.0, 0.0, 0.0, 0.12])
    case = {'pol': {'task': {}, 'defaults': {}}, 'input': {}, 'follow': rng.choice(['onSuccess', 'onSuccess', 'onError', 'onComplete', 'none'])}
    profile = rng.choice(['retry', 'retry', 'waits', 'timeout', 'mixed', 'mixed', 'pause', 'failon'])
    want = {
        'retry': {'retry': 1.0, 'wait-after': 0.3, 'wait-before': 0.2, 'timeout': 0.15, 'fail-on': 0.2, 'pause-before': 0.05},
        'waits': {'retry': 0.3, 'wait-after': 0.8, 'wait-before': 0.8, 'timeout': 0.2, 'fail-on': 0.1, 'pause-before': 0.1},
        'timeout': {'retry': 0.35, 'wait-after': 0.3, 'wait-before': 0.3, 'timeout': 1.0, 'fail-on': 0.1, 'pause-before': 0.1},
        'mixed': {'retry': 0.6, 'wait-after': 0.5, 'wait-before': 0.5, 'timeout': 0.5, 'fail-on': 0.3, 'pause-before': 0.25, 'concurrency': 0.2},
        'pause': {'retry': 0.4, 'wait-after': 0.3, 'wait-before': 0.5, 'timeout': 0.3, 'fail-on': 0.1, 'pause-before': 1.0},
        'failon': {'retry': 0.5, 'wait-after': 0.3, 'wait-before': 0.1, 'timeout': 0.1, 'fail-on': 1.0, 'pause-before': 0.05},
    }[profile]
    case['profile'] = profile
    for k in NUMERIC:
        if rng.random() < want.get(k, 0.0):
            where = rng.choice(['task', 'task', 'defaults', 'both'])
            for wh in (['task', 'defaults'] if where == 'both' else [where]):
                case['pol'][wh][k] = _mk_val(rng, case, k, GOOD[k], bad_p)
    for k in BOOLEAN:
        if rng.random() < want.get(k, 0.0):
            where = rng.choice(['task', 'task', 'defaults', 'both'])
            for wh in (['task', 'defaults'] if where == 'both' else [where]):
                case['pol'][wh][k] = _mk_bool(rng, case, 0.75, bad_p)
    if rng.random() < want.get('retry', 0.0):
        where = rng.choice(['task', 'task', 'defaults', 'both'])
        for wh in (['task', 'defaults'] if where == 'both' else [where]):
            oneline = rng.random() < 0.12
            r = {'count': _mk_val(rng, case, 'count', GOOD['count'], bad_p), 'delay': _mk_val(rng, case, 'delay', GOOD['delay'], bad_p),
                 'continue-on': rng.random() < 0.3, 'break-on': rng.random() < 0.3, 'oneline': oneline}
            if oneline:
                for f in ('count', 'delay'):
                    if r[f][0] == 'jinja':
                        r[f][0] = 'yaql'
            case['pol'][wh]['retry'] = r
    p_err = rng.choice([0.2, 0.5, 0.5, 0.8, 1.0])
    case['oracle'] = [[('error' if rng.random() < p_err else 'success'), rng.random() < 0.6, rng.random() < 0.3] for _ in range(6)]
    case['tick_bias'] = rng.choice([0.0, 0.0, 0.1, 0.3, 0.6])
    case['seed'] = rng.getrandbits(32)
    return case


def enum_cases(rng, max_count=3, limit=None):
    """count <= max_count x all attempt-outcome sequences x timer positions (a timeout that expires before /
    between / after the attempts), with and without wait-after and fail-on; literal parameters."""
    out = []
    for count in range(0, max_count + 1):
        for mask in range(1 << (count + 1)):
            outs = ['success' if (mask >> i) & 1 else 'error' for i in range(count + 1)]
            for timeout in (0, 1, 2, 4, 9):
                for wa in (0, 2):
                    for fail_on in (False, True):
                        case = {'pol': {'task': {}, 'defaults': {}}, 'input': {}, 'follow': 'onComplete', 'profile': 'enum'}
                        t = case['pol']['task']
                        if count:
                            t['retry'] = {'count': ['lit', count], 'delay': ['lit', 2], 'continue-on': False, 'break-on': False, 'oneline': False}
                        if timeout:
                            t['timeout'] = ['lit', timeout]
                        if wa:
                            t['wait-after'] = ['lit', wa]
                        if fail_on:
                            t['fail-on'] = ['lit', True]
                        case['oracle'] = [[o, False, False] for o in outs] + [['success', False, False]] * 3
                        case['tick_bias'] = rng.choice([0.0, 0.2, 0.5])
                        case['seed'] = rng.getrandbits(32)
                        out.append(case)
    if limit is not None and len(out) > limit:
        out = rng.sample(out, limit)
    return out


# ----------------------------------------------------------------------------------- running
def classify_msg(info):
    if not info:
        return 'none'
    if info.startswith('Task timed out'):
        return 'timeout'
    if info.startswith("Failed by 'fail-on'"):
        return 'failOn'
    if info.startswith("Delayed by 'wait-before'"):
        return 'waitBefore'
    if info.startswith("Delayed by 'wait-after'"):
        return 'waitAfter'
    if info.startswith("Delayed by 'retry'"):
        return 'retry'
    if info.startswith("Set by 'pause-before'"):
        return 'pauseBefore'
    if info.startswith('Failed to '):
        return 'forced'
    return 'actionErr'


def wf_class(state):
    return {'RUNNING': 'running', 'PAUSED': 'paused', 'IDLE': 'running'}.get(state, 'done')


class Runner(object):
    def __init__(self, case):
        from harness.engine_driver import EngineWorld
        self.case = case
        self.w = EngineWorld(seed=case['seed'])
        self.rng = random.Random(case['seed'])
        self.steps = []        # {'clock','desc','ev','obs','raw'}
        self.t1_id = None
        self.exhausted = False
        self.rejected = None
        self.script_failed = None

    # -- observation
    def t1_jobs(self):
        res = []
        for j in self.w.jobs():
            fn = j.func_name.split('.')[-1]
            if fn in POLICY_JOBS and (j.func_args or {}).get('task_ex_id') == self.t1_id:
                res.append(j)
        return res

    def observe(self):
        s = self.w.snapshot()
        t1 = [t for t in s['tasks'] if t['name'] == T1]
        wf = s['wfs'][0]
        if not t1:
            return None, s
        t = t1[0]
        self.t1_id = t['id']
        rt = t['rt'] or {}
        acts = [a for a in s['actions'] if a['task'] == t['ord']]
        jobs = []
        for j in self.t1_jobs():
            kind = POLICY_JOBS[j.func_name.split('.')[-1]]
            due = int((j.execute_at - self.w.now()).total_seconds()) + self.w.clock
            if kind == 'complete':
                jobs.append([kind, due, j.func_args.get('state'), classify_msg(j.func_args.get('state_info'))])
            else:
                jobs.append([kind, due])
        obs = {
            'now': self.w.clock, 'st': t['state'], 'msg': classify_msg(t['state_info']), 'wf': wf_class(wf['state']),
            'retryNo': (rt.get('retry_task_policy') or {}).get('retry_no', 0),
            'wbSkip': bool((rt.get('wait_before_policy') or {}).get('skip')),
            'waSkip': bool((rt.get('wait_after_policy') or {}).get('skip')),
            'acts': [[{'SUCCESS': 'success', 'ERROR': 'error'}.get(a['state']), a['accepted']] for a in acts],
            'jobs': jobs, 'processed': t['processed'],
            'followUps': len([x for x in s['tasks'] if x['name'] == T2]),
            'crashes': len([e for e in self.w.errors if not e['declared']]),
        }
        if len(t1) > 1:
            obs['extra_t1_rows'] = len(t1)
        return obs, s

    def oracle(self, world, d):
        from mistral.db.v2 import api as db_api
        with db_api.transaction(read_only=True):
            a = db_api.load_action_execution(d['action_ex_id'])
            tname = a.task_execution.name if a is not None and a.task_execution else '?'
            if tname != T1:
                return ('run', None)
            mine = sorted([x.id for x in a.task_execution.executions], key=lambda i: world.id_ord.get(i, 0))
            k = mine.index(a.id)
        o, c, b = self.case['oracle'][k] if k < len(self.case['oracle']) else ['success', False, False]
        val = 'c%db%d' % (1 if c else 0, 1 if b else 0)
        return ('value', val) if o == 'success' else ('error', val)

    # -- the mapping real event -> model event
    def map_event(self, item, before_snap):
        w = self.w
        kind, x = item
        if kind == 'job':
            fn = x.func_name.split('.')[-1]
            if fn in POLICY_JOBS and (x.func_args or {}).get('task_ex_id') == self.t1_id:
                idx = [j.id for j in self.t1_jobs()].index(x.id)
                return ['fire', idx]
            return None
        p = x
        if p.kind == 'rpc':
            m = p.data['method']
            kw = p.data['kwargs']
            if m == 'start_task' and kw.get('task_ex_id') == self.t1_id:
                return ['startNew'] if kw.get('first_run') else ['startExisting']
            if m == 'on_action_complete':
                aid = kw.get('action_ex_id')
                t1ord = [t['ord'] for t in before_snap['tasks'] if t['name'] == T1][0]
                acts = [a for a in before_snap['actions'] if a['task'] == t1ord]
                ids = [a['id'] for a in acts]
                if aid in ids:
                    res = kw['result']
                    o = 'error' if res.is_error() else 'success'
                    val = res.error if res.is_error() else res.data
                    c = isinstance(val, str) and val in ('c1b0', 'c1b1')
                    b = isinstance(val, str) and val in ('c0b1', 'c1b1')
                    return ['result', ids.index(aid), o, c, b]
        return None

    def run(self, max_steps=160):
        from mistral import exceptions as exc
        w = self.w
        case = self.case
        try:
            w.create_workflows(render_yaml(case))
        except exc.MistralException as e:
            self.rejected = type(e).__name__ + ': ' + str(e)[:200]
            return self
        self.root = w.start_workflow('wf', dict(case['input']))
        obs, snap = self.observe()
        self.steps.append({'clock': w.clock, 'desc': ['start'], 'ev': None, 'obs': obs})
        n = 0
        resumes = 0
        while n < max_steps:
            en = [e for e in w.enabled()
                  if not (e[0] == 'job' and e[1].func_name.endswith('_check_and_fix_integrity'))]
            und = [j for j in w.undue_jobs() if not j.func_name.endswith('_check_and_fix_integrity')]
            paused = snap['wfs'][0]['state'] == 'PAUSED'
            choice = None
            script = case.get('script') or []
            if n < len(script):
                # a scripted schedule (corpus / theorem witnesses): 'tick:N' | 'resume' | a substring of the
                # description of an enabled delivery
                sel = script[n]
                if sel.startswith('tick:'):
                    choice = ('tick', int(sel[5:]))
                elif sel == 'resume':
                    choice = ('resume', None)
                else:
                    m = [e for e in en if sel in json.dumps(w.describe(e))]
                    if not m:
                        self.script_failed = [n, sel, [w.describe(e) for e in en]]
                        break
                    choice = ('deliver', m[0])
            elif und and (not en or self.rng.random() < case['tick_bias']):
                nxt = min(j.execute_at for j in und)
                dt = int((nxt - w.now()).total_seconds())
                if en and dt > 1 and self.rng.random() < 0.3:
                    dt = self.rng.randint(1, dt)
                choice = ('tick', dt)
            elif paused and resumes < 3 and (not en or self.rng.random() < 0.25):
                choice = ('resume', None)
            elif en:
                choice = ('deliver', self.rng.choice(en))
            else:
                break
            n += 1
            before = snap
            if choice[0] == 'tick':
                w.tick(choice[1])
                ev = ['tick', choice[1]]
                desc = ['tick', choice[1]]
            elif choice[0] == 'resume':
                resumes += 1
                w.op('resume_workflow', self.root)
                ev = ['resume']
                desc = ['op', 'resume']
            else:
                item = choice[1]
                desc = w.describe(item)
                ev = self.map_event(item, before)
                w.deliver(item, oracle=self.oracle)
            obs, snap = self.observe()
            self.steps.append({'clock': w.clock, 'desc': desc, 'ev': ev, 'obs': obs})
        else:
            self.exhausted = True
        self.final = snap
        self.errors = list(w.errors)
        return self

    # -- model events (with the environment events wfDone) and the observation to compare after each
    def model_events(self):
        evs = []
        prev = self.steps[0]['obs']
        for st in self.steps[1:]:
            o = st['obs']
            if st['ev'] is not None:
                evs.append((st['ev'], None if (st['ev'][0] == 'resume' and o['wf'] == 'done' and prev['wf'] != 'done') else o, st))
                if st['ev'][0] == 'resume' and o['wf'] == 'done' and prev['wf'] != 'done':
                    evs.append((['wfDone'], o, st))
            else:
                if o['wf'] == 'done' and prev['wf'] == 'running':
                    evs.append((['wfDone'], o, st))
                else:
                    evs.append((None, o, st))      # unmapped: t1 must not change
            prev = o
        return evs


# monitors whose verdict depends on the history of the run (a stale job / late result acting on a task that
# moved on — the known findings — can cause them); the others judge one step and are never excused
TRACE_LEVEL = ('attempt-after-final', 'attempt-after-stop', 'follow-up-started-twice', 'final-state-not-last-attempt',
               'retry-too-early', 'wait-after-not-respected', 'wait-before-not-respected', 'action-while-paused-before',
               'attempts-exceed-count', 'follow-up-lost', 'task-lost', 'task-final-without-attempt',
               'timeout-did-not-fail-incomplete-task', 'bad-parameter-not-error')
CMP_KEYS = ['now', 'st', 'msg', 'wf', 'retryNo', 'wbSkip', 'waSkip', 'acts', 'jobs', 'processed', 'followUps', 'crashes']


def compare(ctx, runner):
    """model vs implementation after every event; returns the first difference or None"""
    params = model_params(runner.case)
    mev = runner.model_events()
    evs = [e for (e, _, _) in mev if e is not None]
    out = ctx.driver().call('policy.trace', {'params': params, 'events': evs})
    if not isinstance(out, list):
        return {'what': 'driver refused', 'out': out, 'params': params, 'events': evs}
    k = 0
    last_model = None
    prev_obs = runner.steps[0]['obs']
    for i, (e, o, st) in enumerate(mev):
        if e is not None:
            last_model = out[k]
            k += 1
            if o is None:
                continue
        if last_model is None:
            # nothing happened to the model yet: the implementation must still be in the initial state
            m = {'now': o['now'], 'st': 'IDLE', 'msg': 'none', 'wf': 'running', 'retryNo': 0, 'wbSkip': False, 'waSkip': False,
                 'acts': [], 'jobs': [], 'processed': False, 'followUps': 0, 'crashes': 0}
        else:
            m = last_model
        diff = {kk: [m.get(kk), o.get(kk)] for kk in CMP_KEYS if m.get(kk) != o.get(kk)}
        if 'extra_t1_rows' in o:
            diff['extra_t1_rows'] = [1, o['extra_t1_rows']]
        if diff:
            return {'what': 'model and engine differ', 'step': i, 'event': e, 'desc': st['desc'], 'diff': diff,
                    'params': params, 'events': evs[:k]}
    return None


# ----------------------------------------------------------------------------------- monitors
def taint_index(runner):
    """first step at which the timeout timer fired on an incomplete t1 that still had outstanding work (a
    pending continue/complete job, a start still to come because the task is IDLE under pause-before, or a
    running action that the timer did not end), or at which t1 was
    force-failed while a policy job of it was pending: after that a stale job / late result may act
    on a task that has moved on (known findings)."""
    prev = runner.steps[0]['obs']
    for i, st in enumerate(runner.steps[1:], 1):
        o = st['obs']
        ev = st['ev']
        if ev and ev[0] == 'fire' and prev['jobs'][ev[1]][0] == 'timeout' and prev['st'] not in COMPLETED:
            others = [j for k, j in enumerate(prev['jobs']) if k != ev[1] and j[0] in ('continue', 'complete')]
            running = [a for a in prev['acts'] if a[0] is None]
            if others or prev['st'] == 'IDLE' or (running and o['st'] not in COMPLETED):
                return i, 'timeout-with-outstanding-work'
        if o['msg'] == 'forced' and prev['msg'] != 'forced' and [j for j in o['jobs'] if j[0] in ('continue', 'complete')]:
            return i, 'forced-failure-with-pending-job'
        prev = o
    return None, None


def monitors(runner):
    """[(kind, detail)] — each is a direct reading of a clause of the C08 statement on the engine's rows"""
    case = runner.case
    p = model_params(case)
    valid = params_valid(p)
    hits = []
    steps = runner.steps
    retry = p['retry']
    count = nat(retry['count']) if retry else 0
    rdelay = nat(retry['delay']) if retry else 0
    fail_on = p['failOn'][1]
    quiescent = (not runner.exhausted) and runner.w.quiescent()
    final = steps[-1]['obs']

    # crash = an exception that is not one of the service's declared error types escaped
    for e in runner.errors:
        if not e['declared']:
            hits.append(('crash', {'where': e['where'], 'type': e['type'], 'msg': e['msg'][:160]}))

    # --- attempts <= count + 1
    if valid and len(final['acts']) > count + 1:
        hits.append(('attempts-exceed-count', {'attempts': len(final['acts']), 'count': count}))

    prev = steps[0]['obs']
    start_clock = None
    first_completion_clock = None
    completed_seen = None
    stop_after = None          # (attempt index, reason) after which no further attempt may start
    retry_sched = {}           # number of attempts at scheduling time -> clock when the retry was scheduled
    paused_by_policy = False
    for i, st in enumerate(steps[1:], 1):
        o = st['obs']
        ev = st['ev']
        new_acts = len(o['acts']) - len(prev['acts'])
        # --- nothing starts after the task is final / after a stopping attempt
        if completed_seen is not None and (new_acts > 0 or o['st'] != completed_seen[1]):
            hits.append(('attempt-after-final', {'final': completed_seen[1], 'at': completed_seen[0], 'step': i,
                                                 'new_state': o['st'], 'new_actions': new_acts, 'event': st['desc']}))
            completed_seen = None
        if stop_after is not None and new_acts > 0:
            hits.append(('attempt-after-stop', {'attempt': stop_after[0], 'reason': stop_after[1], 'step': i, 'event': st['desc'],
                                                'job_was_pending': stop_after[2]}))
            stop_after = None
        if o['st'] in COMPLETED and completed_seen is None:
            completed_seen = (i, o['st'])
        if o['st'] not in COMPLETED:
            completed_seen = None
        # --- delays
        for j in o['jobs']:
            if j not in prev['jobs']:
                if j[0] == 'timeout':
                    want = nat(p['timeout'])
                elif j[0] == 'complete':
                    want = nat(p['waitAfter'])
                elif ev and ev[0] == 'startNew':
                    want = nat(p['waitBefore'])
                else:
                    want = rdelay
                if valid and j[1] - st['clock'] != want:
                    hits.append(('delay-not-exact', {'job': j, 'scheduled_at': st['clock'], 'configured': want, 'event': st['desc']}))
                if j[0] == 'continue' and not (ev and ev[0] == 'startNew'):
                    retry_sched[len(o['acts'])] = st['clock']
        if new_acts > 0:
            n_before = len(prev['acts'])
            if n_before in retry_sched and valid and st['clock'] - retry_sched[n_before] < rdelay:
                hits.append(('retry-too-early', {'attempt': n_before, 'waited': st['clock'] - retry_sched[n_before], 'delay': rdelay}))
            if n_before == 0 and start_clock is not None and valid and not p['pauseBefore'][1] \
                    and st['clock'] - start_clock < nat(p['waitBefore']):
                hits.append(('wait-before-not-respected', {'waited': st['clock'] - start_clock, 'delay': nat(p['waitBefore'])}))
            if o['wf'] == 'paused' and paused_by_policy:
                hits.append(('action-while-paused-before', {'step': i, 'event': st['desc']}))
        if ev and ev[0] == 'startNew':
            start_clock = st['clock']
            # --- pause-before
            if valid and p['pauseBefore'] == ['bool', True]:
                paused_by_policy = True
                if not (o['wf'] == 'paused' and o['acts'] == [] and o['st'] == 'IDLE'):
                    hits.append(('pause-before-not-before-action', {'wf': o['wf'], 'acts': o['acts'], 'st': o['st']}))
            # --- wait-before: postponed, not lost
            if valid and not p['pauseBefore'][1] and nat(p['waitBefore']) > 0:
                cj = [j for j in o['jobs'] if j[0] == 'continue']
                if not (o['st'] == 'DELAYED' and len(cj) == 1 and o['acts'] == []):
                    hits.append(('wait-before-not-postponed', {'st': o['st'], 'jobs': o['jobs'], 'acts': o['acts']}))
        if ev and ev[0] == 'resume':
            paused_by_policy = False
        # --- results: stop conditions, fail-on
        if ev and ev[0] == 'result' and prev['st'] not in COMPLETED and valid:
            _, idx, oc, c, b = ev
            counts_success = (oc == 'success') and not fail_on
            reason = None
            if retry and count > 0:
                if counts_success and not retry['hasContinueOn']:
                    reason = 'first-success'
                elif retry['hasContinueOn'] and not c:
                    reason = 'continue-on-false'
                elif not counts_success and retry['hasBreakOn'] and b:
                    reason = 'break-on-true'
            if reason and idx == len(o['acts']) - 1:
                stop_after = (idx, reason, bool([j for j in prev['jobs'] if j[0] == 'continue']))
            if first_completion_clock is None:
                first_completion_clock = st['clock']
        if o['msg'] == 'failOn' and prev['msg'] != 'failOn':
            last_res = [a[0] for a in o['acts'] if a[0] is not None]
            if not last_res or (ev and ev[0] == 'result' and ev[2] != 'success') or not fail_on:
                hits.append(('fail-on-misapplied', {'event': st['desc'], 'acts': o['acts']}))
        # --- timeout timer
        if ev and ev[0] == 'fire' and prev['jobs'][ev[1]][0] == 'timeout':
            if prev['st'] in COMPLETED:
                a = {k: v for k, v in prev.items() if k not in ('jobs', 'now')}
                b2 = {k: v for k, v in o.items() if k not in ('jobs', 'now')}
                if a != b2:
                    hits.append(('timeout-touched-completed-task', {'before': prev['st'], 'after': o['st'], 'msg': o['msg']}))
            else:
                if first_completion_clock is None:
                    first_completion_clock = st['clock']
                ok = (o['st'] == 'ERROR' and o['msg'] == 'timeout') or \
                     (o['st'] == 'DELAYED' and o['msg'] == 'retry' and retry is not None) or \
                     (o['st'] == 'DELAYED' and o['msg'] == 'waitAfter' and nat(p['waitAfter']) > 0) or \
                     (not valid and o['st'] == 'ERROR' and o['msg'] == 'forced')
                if not ok:
                    hits.append(('timeout-did-not-fail-incomplete-task', {'before': prev['st'], 'after': o['st'], 'msg': o['msg']}))
        # --- wait-after: follow-ups postponed
        if o['followUps'] > prev['followUps']:
            if valid and first_completion_clock is not None and st['clock'] - first_completion_clock < nat(p['waitAfter']):
                hits.append(('wait-after-not-respected', {'waited': st['clock'] - first_completion_clock, 'delay': nat(p['waitAfter'])}))
            if o['followUps'] > 1:
                hits.append(('follow-up-started-twice', {'count': o['followUps'], 'event': st['desc']}))
        prev = o

    # --- end of the run
    if quiescent and final['wf'] != 'paused':
        if not valid:
            if final['st'] != 'ERROR':
                hits.append(('bad-parameter-not-error', {'st': final['st'], 'params': p}))
        else:
            if final['st'] not in COMPLETED:
                hits.append(('task-lost', {'st': final['st'], 'msg': final['msg'], 'jobs': final['jobs']}))
            else:
                res = [a[0] for a in final['acts']]
                timed_out = final['msg'] == 'timeout'
                if not timed_out:
                    if not res:
                        hits.append(('task-final-without-attempt', {'st': final['st']}))
                    else:
                        want = 'SUCCESS' if (res[-1] == 'success' and not fail_on) else 'ERROR'
                        if final['st'] != want:
                            hits.append(('final-state-not-last-attempt', {'final': final['st'], 'last_attempt': res[-1],
                                                                          'fail_on': fail_on, 'attempts': res}))
                f = case['follow']
                due = (f == 'onComplete') or (f == 'onSuccess' and final['st'] == 'SUCCESS') or (f == 'onError' and final['st'] == 'ERROR')
                if due and final['followUps'] == 0:
                    hits.append(('follow-up-lost', {'st': final['st'], 'follow': f}))
    if runner.exhausted:
        hits.append(('run-did-not-end', {'steps': len(steps)}))
    return hits


def features(runner):
    f = set()
    p = model_params(runner.case)
    for st in runner.steps:
        o = st['obs']
        ev = st['ev']
        if o['msg'] in ('retry', 'waitBefore', 'waitAfter', 'timeout', 'failOn', 'pauseBefore', 'forced'):
            f.add('msg-' + o['msg'])
        if ev and ev[0] == 'resume':
            f.add('resume')
    prev = runner.steps[0]['obs']
    for st in runner.steps[1:]:
        ev = st['ev']
        if ev and ev[0] == 'fire' and prev['jobs'][ev[1]][0] == 'timeout':
            f.add('timer-on-completed' if prev['st'] in COMPLETED else 'timer-on-incomplete')
        prev = st['obs']
    final = runner.steps[-1]['obs']
    f.add('attempts-%d' % min(len(final['acts']), 4))
    if p['retry'] and len(final['acts']) == nat(p['retry']['count']) + 1 and len(final['acts']) > 1:
        f.add('retry-exhausted')
    if not params_valid(p):
        f.add('bad-param')
    if runner.case['pol'].get('defaults'):
        f.add('task-defaults')
    if any(v[0] != 'lit' for d in (runner.case['pol']['task'], runner.case['pol']['defaults'])
           for k, v in d.items() if k != 'retry'):
        f.add('expr-param')
    return f


def replay_obj(runner, extra=None):
    o = {'stream': 'policy', 'case': runner.case, 'yaml': render_yaml(runner.case), 'params': model_params(runner.case),
         'trace': [[s['clock'], s['desc'], s['ev'], s['obs']] for s in runner.steps][:200]}
    if extra:
        o.update(extra)
    return o


def run_one(ctx, case, count_features=True):
    runner = Runner(case).run()
    if runner.rejected:
        ctx.count('policy', 'rejected-definition')
        return runner
    f = features(runner)
    if count_features:
        for x in f:
            ctx.count('policy', 'feat:' + x)
        ctx.count('policy', 'profile:' + case.get('profile', '?'))
        ctx.count('policy', 'final:' + runner.steps[-1]['obs']['st'])
    nontrivial = bool(f & {'msg-retry', 'msg-waitBefore', 'msg-waitAfter', 'msg-timeout', 'msg-failOn', 'msg-pauseBefore',
                           'msg-forced', 'timer-on-completed'})
    ctx.evaluated('policy', [case['pol'], case['input'], case['follow'], case['oracle'], case['seed']], nontrivial=nontrivial)
    d = compare(ctx, runner)
    if d is not None:
        ctx.count('policy', 'disagreement')
        ctx.disagree('policy', replay_obj(runner), d.get('diff'), d)
    t_idx, via = taint_index(runner)
    if via:
        ctx.count('policy', 'tainted:' + via)
    for kind, detail in monitors(runner):
        sig = {'kind': kind, 'via': (via or 'none') if kind in TRACE_LEVEL else 'none'}
        if kind == 'crash':
            sig = {'kind': 'crash', 'type': detail['type'], 'where': detail['where'].split(':')[0],
                   'via': 'exec-timeout-of-bad-type' if model_params(case)['execTimeoutRaises'] else 'none'}
        ctx.count('policy', 'hit:%s:%s' % (sig['kind'], sig['via']))
        ctx.violation('C08 monitor %s: %s' % (kind, json.dumps(detail, default=str)[:300]),
                      replay_obj(runner, {'hit': [kind, detail], 'taint': [t_idx, via]}), sig)
    if ctx.rng.random() < 0.01:
        ctx.sample({'stream': 'policy', 'yaml': render_yaml(case), 'input': case['input'],
                    'final': runner.steps[-1]['obs'], 'events': [s['ev'] for s in runner.steps if s['ev']][:30]})
    return runner


def run_corpus(ctx):
    import glob
    import os
    from vlib import core
    for f in sorted(glob.glob(os.path.join(core.VERIF, 'corpus', 'C08', '*.json'))):
        c = json.load(open(f))
        ctx.count('policy', 'corpus')
        run_one(ctx, c['case'])


def run_chunk(ctx, n_random, n_enum, bad_p=None):
    rng = ctx.rng
    if getattr(ctx, 'chunk', 0) == 0:
        run_corpus(ctx)
    for i in range(n_random):
        run_one(ctx, gen_case(rng, bad_p=bad_p))
    if n_enum:
        for case in enum_cases(rng, limit=n_enum):
            run_one(ctx, case)


def run_enum_slice(ctx, k, nslices, repeats=1):
    """thorough tier: the whole enumeration, slice k of nslices, each case under `repeats` schedules"""
    rng = ctx.rng
    base = random.Random('enum')
    cases = enum_cases(base)
    for i, case in enumerate(cases):
        if i % nslices != k:
            continue
        for r in range(repeats):
            c = copy.deepcopy(case)
            c['seed'] = rng.getrandbits(32)
            c['tick_bias'] = [0.0, 0.2, 0.5, 0.8][r % 4]
            run_one(ctx, c)
