"""Stream `heartbeat` (C20): the REAL action-heartbeat checker service (start / _loop /
handle_expired_actions), engine.process_action_heartbeats, engine.on_action_complete and the
_check_and_fix_integrity job, driven on generated workflows whose executors go silent, under a
virtual clock placed at the expiry threshold -1 / 0 / +1, interleaved with heartbeats, late and
early genuine results, direct DB completions, lost jobs / messages, with every [action_heartbeat]
and integrity setting including 0 / disabled.

Tie B: before every C20-relevant transaction the committed rows are abstracted to a
Mistral.Heartbeat.World, the Lean model's `step` is run on it (compiled driver) and its result is
compared with the rows the real transaction committed (action state / accepted / last_heartbeat,
task state / pending completion job, raised?, integrity rescheduled?).

Monitors (direct reading of the statement, independent of the model; own bookkeeping of creation
times and processed heartbeats): see `Runner.mon_*`.
"""
import datetime
import json
import random
import types

from harness import engine_driver as ed

COMPLETED = ('SUCCESS', 'ERROR', 'CANCELLED', 'SKIPPED')
HB_MSG = "Heartbeat wasn't received."
OPTS = ('max_missed_heartbeats', 'check_interval', 'first_heartbeat_timeout', 'batch_size')

ADHOC_YAML = """
version: '2.0'
myact:
  base: std.noop
"""

FLAVORS = ['plain', 'plain', 'race', 'race', 'stuck', 'stuck', 'poison', 'taskless', 'disabled', 'batch',
           'intbatch', 'boundary', 'boundary']
KINDS = ['sync', 'sync', 'sync', 'echo', 'async', 'withitems', 'subwf', 'retry', 'adhoc']


# =========================================================================== scenario generation
def gen_scenario(rng, flavor=None):
    flavor = flavor or rng.choice(FLAVORS)
    nb = rng.randint(1, 4)
    branches = []
    for i in range(nb):
        kind = rng.choice(KINDS)
        if kind == 'adhoc' and flavor != 'poison':
            kind = 'sync'
        br = {'name': 'b%d' % i, 'kind': kind,
              'on_error': rng.random() < 0.5 and kind not in ('retry',),
              'on_success': rng.random() < 0.3,
              'retry': {'count': rng.randint(1, 2), 'delay': rng.randint(1, 3)} if kind == 'retry' else None,
              'items': rng.randint(2, 3) if kind == 'withitems' else 0}
        branches.append(br)
    if flavor == 'poison' and not any(b['kind'] == 'adhoc' for b in branches):
        branches[rng.randrange(nb)]['kind'] = 'adhoc'
        if nb == 1:
            branches.append({'name': 'b1', 'kind': 'sync', 'on_error': True, 'on_success': False, 'retry': None, 'items': 0})
    if flavor == 'stuck' and not any(b['kind'] in ('sync', 'async', 'echo', 'withitems', 'subwf') for b in branches):
        branches[0].update(kind='async', retry=None)
    if flavor == 'boundary':
        branches = [{'name': 'b%d' % i, 'kind': rng.choice(['sync', 'sync', 'echo', 'async']),
                     'on_error': rng.random() < 0.5, 'on_success': False, 'retry': None, 'items': 0}
                    for i in range(rng.randint(1, 4))]
    if flavor == 'intbatch':
        # several long-running asynchronous tasks beside one that gets stuck
        branches = [{'name': 'b%d' % i, 'kind': 'async', 'on_error': False, 'on_success': False, 'retry': None,
                     'items': 0} for i in range(rng.randint(2, 4))]
    mm = rng.choice([1, 1, 2, 3])
    ci = rng.choice([1, 2, 5, 20])
    ft = rng.choice([0, 0, 3, 7, 60])
    bs = rng.choice([0, 1, 2, 10])
    if flavor == 'disabled':
        if rng.random() < 0.5:
            mm = 0
        else:
            ci = 0
        if rng.random() < 0.2:
            mm = ci = 0
    if flavor == 'batch':
        bs = rng.choice([1, 2])
    idelay = rng.choice([0, 1, 3, 5, 20, 20, -1])
    ibatch = rng.choice([1, 1, 2, 5]) if flavor == 'intbatch' else rng.choice([2, 5, 5])
    return {'flavor': flavor, 'branches': branches,
            'cfg': {'maxMissed': mm, 'checkInterval': ci, 'firstTimeout': ft, 'batchSize': bs,
                    'integrityDelay': idelay, 'integrityBatch': ibatch},
            'steps': rng.randint(10, 22)}


def render_yaml(sc):
    out = ["version: '2.0'", 'wf:', '  tasks:']
    need_sub = False
    for b in sc['branches']:
        n = b['name']
        out.append('    %s:' % n)
        k = b['kind']
        if k in ('sync', 'retry'):
            out.append('      action: std.noop')
        elif k == 'echo':
            out.append('      action: std.echo output="x"')
        elif k == 'async':
            out.append('      action: std.async_noop')
        elif k == 'adhoc':
            out.append('      action: myact')
        elif k == 'withitems':
            out.append('      with-items: x in %s' % json.dumps(list(range(b['items']))))
            out.append('      action: std.echo output=<%% $.x %%>')
        elif k == 'subwf':
            out.append('      workflow: sub')
            need_sub = True
        if b['retry']:
            out += ['      retry:', '        count: %d' % b['retry']['count'], '        delay: %d' % b['retry']['delay']]
        if b['on_error']:
            out.append('      on-error: %se' % n)
        if b['on_success']:
            out.append('      on-success: %ss' % n)
    for b in sc['branches']:
        if b['on_error']:
            out += ['    %se:' % b['name'], '      action: std.noop']
        if b['on_success']:
            out += ['    %ss:' % b['name'], '      action: std.noop']
    if need_sub:
        out += ['sub:', '  tasks:', '    s0:', '      action: std.noop']
    return '\n'.join(out) + '\n'


# =========================================================================== the runner
class Stop(Exception):
    pass


class Runner(object):
    def __init__(self, ctx, sc, seed, drv=None, record_only=False):
        self.ctx = ctx
        self.sc = sc
        self.seed = seed
        self.rng = random.Random('hb-%s' % seed)
        self.drv = drv
        self.cfgj = sc['cfg']
        self.events = []          # replayable log of what was done
        self.hits = []            # monitor hits: (what, signature, detail)
        self.diffs = []           # model/impl disagreements
        self.created = {}         # action id -> clock when first seen RUNNING (creation)
        self.last_hb = {}         # action id -> clock of the last processed heartbeat
        self.failed_by_checker = {}   # action id -> clock
        self.result_done = {}     # action id -> clock a result was accepted (genuine)
        self.db_done = {}         # action id -> clock of the direct DB completion
        self.fate = {}            # action id -> 'lost' | 'held'
        self.delivered = set()    # action ids whose run_action request was handed to the executor
        self.async_ids = set()
        self.def_deleted = False
        self.taskless = []
        self.dropped_tasks = set()
        self.feat = set()
        self.task_left_running = {}   # task id -> number of times it left RUNNING
        self.integrity_fixed = {}
        self.stats = {}

    # ------------------------------------------------------------------ setup
    def setup(self):
        c = self.cfgj
        self.w = ed.EngineWorld(seed=self.seed)     # first: boots mistral in the right import order
        from oslo_config import cfg
        from mistral.db.v2 import api as db_api
        from mistral.services import adhoc_actions
        CONF = cfg.CONF
        CONF.set_override('max_missed_heartbeats', c['maxMissed'], group='action_heartbeat')
        CONF.set_override('check_interval', c['checkInterval'], group='action_heartbeat')
        CONF.set_override('first_heartbeat_timeout', c['firstTimeout'], group='action_heartbeat')
        CONF.set_override('batch_size', c['batchSize'], group='action_heartbeat')
        CONF.set_override('execution_integrity_check_delay', c['integrityDelay'], group='engine')
        CONF.set_override('execution_integrity_check_batch_size', c['integrityBatch'], group='engine')
        try:
            db_api.delete_action_definition('myact')
        except Exception:
            pass
        if any(b['kind'] == 'adhoc' for b in self.sc['branches']):
            adhoc_actions.create_actions(ADHOC_YAML)
        self.yaml = render_yaml(self.sc)
        self.w.create_workflows(self.yaml)
        self.owner_project = self.w.ctx.project_id
        self.root = self.w.start_workflow('wf', {})
        if self.root is None:
            raise Stop('workflow did not start: %s' % self.w.errors[-1:])
        self.drain()

    def teardown(self):
        from oslo_config import cfg
        from mistral.db.v2 import api as db_api
        CONF = cfg.CONF
        for o in OPTS:
            CONF.clear_override(o, group='action_heartbeat')
        CONF.clear_override('execution_integrity_check_delay', group='engine')
        CONF.clear_override('execution_integrity_check_batch_size', group='engine')
        try:
            from mistral import context as auth_context
            auth_context.set_ctx(self.w.ctx)
            db_api.delete_action_definition('myact')
        except Exception:
            pass

    # ------------------------------------------------------------------ observation (all projects)
    def observe(self):
        from mistral.db.v2 import api as db_api
        from mistral.db.v2.sqlalchemy import models
        from mistral.db.sqlalchemy import base as b
        from mistral import context as auth_context
        auth_context.set_ctx(self.w.ctx)
        o = self.w.id_ord

        def sec(t):
            return None if t is None else int((t - ed.BASE_TIME).total_seconds())

        with db_api.transaction(read_only=True):
            acts = [{'id': a.id, 'ord': o.get(a.id, 0), 'name': a.name, 'state': a.state, 'is_sync': a.is_sync,
                     'lh': sec(a.last_heartbeat), 'accepted': bool(a.accepted), 'task': a.task_execution_id,
                     'upd': sec(a.updated_at or a.created_at), 'project': a.project_id,
                     'out': (a.output or {}).get('result') if isinstance(a.output, dict) else None,
                     'index': (a.runtime_context or {}).get('index')}
                    for a in b.model_query(models.ActionExecution).all()]
            tasks = [{'id': t.id, 'ord': o.get(t.id, 0), 'name': t.name, 'state': t.state, 'wf': t.workflow_execution_id,
                      'upd': sec(t.updated_at or t.created_at), 'project': t.project_id,
                      'with_items': bool((t.spec or {}).get('with-items')),
                      'retry': bool((t.spec or {}).get('retry')), 'processed': bool(t.processed),
                      'state_info': t.state_info}
                     for t in b.model_query(models.TaskExecution).all()]
            wfs = [{'id': x.id, 'ord': o.get(x.id, 0), 'name': x.workflow_name, 'state': x.state,
                    'task': x.task_execution_id, 'upd': sec(x.updated_at or x.created_at), 'project': x.project_id,
                    'accepted': bool(x.accepted)}
                   for x in b.model_query(models.WorkflowExecution).all()]
            jobs = [{'id': j.id, 'fn': j.func_name.split('.')[-1], 'key': j.key, 'at': sec(j.execute_at)}
                    for j in b.model_query(models.ScheduledJob).all()]
        acts.sort(key=lambda a: a['ord'])
        tasks.sort(key=lambda t: t['id'])
        wfs.sort(key=lambda x: x['ord'])
        return {'now': self.w.clock, 'acts': acts, 'tasks': tasks, 'wfs': wfs, 'jobs': jobs}

    def abstract(self, obs, integ_wf=None):
        """rows -> (Mistral.Heartbeat.World json, child ids in model order, task ids in model order)"""
        integ_wf = integ_wf or self.root
        tids = [t['id'] for t in obs['tasks']]
        tix = {t: i for i, t in enumerate(tids)}
        wfids = {x['id'] for x in obs['wfs']}
        twf = {t['id']: t['wf'] for t in obs['tasks']}
        macts = []
        cids = []
        for a in obs['acts']:
            has_parent = a['task'] is not None and a['task'] in tix and twf.get(a['task']) in wfids
            macts.append({'state': a['state'], 'isSync': a['is_sync'] is True, 'isWf': False,
                          'lastHeartbeat': a['lh'] if a['lh'] is not None else 10 ** 9,
                          'hasParent': has_parent, 'defKnown': not (a['name'] == 'myact' and self.def_deleted),
                          'accepted': a['accepted'], 'task': tix.get(a['task']), 'updatedAt': a['upd']})
            cids.append(a['id'])
        for x in obs['wfs']:
            if x['task'] is not None:
                macts.append({'state': x['state'], 'isSync': False, 'isWf': True, 'lastHeartbeat': 0,
                              'hasParent': True, 'defKnown': True, 'accepted': x['accepted'],
                              'task': tix.get(x['task']), 'updatedAt': x['upd']})
                cids.append(x['id'])
        keys = {j['key'] for j in obs['jobs'] if j['fn'] == '_scheduled_on_action_complete'}
        mtasks = [{'state': t['state'], 'withItems': t['with_items'],
                   'inWf': t['wf'] == integ_wf and t['project'] == self.owner_project,
                   'updatedAt': t['upd'], 'pendingJob': ('th_on_a_c-%s' % t['id']) in keys} for t in obs['tasks']]
        wf = [x for x in obs['wfs'] if x['id'] == integ_wf]
        world = {'now': obs['now'], 'actions': macts, 'tasks': mtasks,
                 'wfCompleted': (not wf) or wf[0]['state'] in COMPLETED, 'nextIntegrity': None}
        return world, cids, tids

    def project_impl(self, obs, cids, tids, integ_wf, opaque):
        rows = {a['id']: a for a in obs['acts']}
        rows.update({x['id']: {'state': x['state'], 'accepted': x['accepted'], 'lh': 0} for x in obs['wfs']})
        trow = {t['id']: t for t in obs['tasks']}
        keys = {j['key'] for j in obs['jobs'] if j['fn'] == '_scheduled_on_action_complete'}
        acts = []
        for c in cids:
            r = rows.get(c)
            acc = None if r is None or r.get('task') in opaque else r['accepted']
            acts.append(None if r is None else [r['state'], acc, r['lh'] if r['lh'] is not None else 10 ** 9])
        tasks = []
        for t in tids:
            r = trow.get(t)
            if r is None:
                tasks.append(None)
                continue
            st = r['state'] if t not in opaque else ('RUNNING' if r['state'] == 'RUNNING' else 'not-running')
            tasks.append([st, ('th_on_a_c-%s' % t) in keys])
        return {'actions': acts, 'tasks': tasks}

    @staticmethod
    def project_model(mo, cids, tids, opaque, wf_child, opaque_acts=()):
        acts = []
        for c, a in zip(cids, mo['world']['actions']):
            acts.append([a['state'], None if c in opaque_acts else a['accepted'],
                         a['lastHeartbeat'] if c not in wf_child else 0])
        tasks = []
        for t, tk in zip(tids, mo['world']['tasks']):
            st = tk['state'] if t not in opaque else ('RUNNING' if tk['state'] == 'RUNNING' else 'not-running')
            tasks.append([st, tk['pendingJob']])
        return {'actions': acts, 'tasks': tasks}

    # ------------------------------------------------------------------ one modelled transaction
    def modelled(self, ev, real, integ_wf=None, raised_where=()):
        """ev: model event as json with ids (translated to indices here); real: thunk running the
        real transaction.  Returns (before, after)."""
        before = self.observe()
        mw, cids, tids = self.abstract(before, integ_wf)
        cix = {c: i for i, c in enumerate(cids)}
        tix = {t: i for i, t in enumerate(tids)}
        mev = dict(ev)
        if 'id' in mev:
            aid = mev.pop('id')
            mev['i'] = cix.get(aid, len(cids) + 7)
        if 'ids' in mev:
            mev['ids'] = [cix.get(a, len(cids) + 7) for a in mev['ids']]
        if 'tid' in mev:
            mev['t'] = tix.get(mev.pop('tid'), len(tids) + 7)
        n_err = len(self.w.errors)
        real()
        after = self.observe()
        raised = [e for e in self.w.errors[n_err:] if e['where'] in raised_where]
        self.events.append({'ev': ev['kind'], 'clock': self.w.clock,
                            'detail': {k: v for k, v in mev.items() if k != 'kind'},
                            'raised': [e['type'] for e in raised]})
        if self.drv is not None:
            opaque = {t['id'] for t in before['tasks'] if t['retry']}
            wf_child = {x['id'] for x in before['wfs']}
            mo = self.drv.call('heartbeat.step', {'cfg': self.cfgj, 'world': mw, 'event': mev})
            if not isinstance(mo, dict) or 'world' not in mo:
                self.diffs.append({'event': mev, 'model': mo, 'impl': 'driver refused the input', 'world': mw})
            else:
                oa = {a['id'] for a in before['acts'] if a['task'] in opaque}
                pm = self.project_model(mo, cids, tids, opaque, wf_child, oa)
                pi = self.project_impl(after, cids, tids, integ_wf, opaque)
                pm['raised'] = bool(mo['raised'])
                pi['raised'] = bool(raised)
                if ev['kind'] == 'integrity':
                    ni = mo['world']['nextIntegrity']
                    pm['resched'] = ni
                    key = 'wfh_c_a_f_i-%s' % (integ_wf or self.root)
                    ats = sorted(j['at'] for j in after['jobs'] if j['key'] == key)
                    exp = self.w.clock + self.drv_resched()
                    pi['resched'] = exp if exp in ats else None
                pm0 = self.project_model({'world': mw}, cids, tids, opaque, wf_child, oa)
                nontrivial = pm.get('raised') or pm['actions'] != pm0['actions'] or pm['tasks'] != pm0['tasks']
                self.ctx.evaluated('heartbeat', [self.cfgj, mw, mev], nontrivial=bool(nontrivial))
                self.ctx.count('heartbeat', 'event:' + ev['kind'])
                if pm != pi:
                    self.diffs.append({'event': mev, 'cfg': self.cfgj, 'world': mw, 'model': pm, 'impl': pi,
                                       'errors': [(e['where'], e['type'], e['msg'][:120]) for e in self.w.errors[n_err:]]})
        self.track(before, after)
        return before, after

    _RESCHED = None

    def drv_resched(self):
        if Runner._RESCHED is None:
            # the self-rescheduling delay of the model (generated constant), read through the model
            r = self.drv.call('heartbeat.step', {
                'cfg': {'maxMissed': 1, 'checkInterval': 1, 'firstTimeout': 0, 'batchSize': 0,
                        'integrityDelay': 0, 'integrityBatch': 1},
                'world': {'now': 0, 'actions': [], 'tasks': [], 'wfCompleted': False, 'nextIntegrity': None},
                'event': {'kind': 'integrity'}})
            Runner._RESCHED = r['world']['nextIntegrity']
        return Runner._RESCHED

    def track(self, before, after):
        """bookkeeping for the monitors, from committed rows only"""
        for a in after['acts']:
            if a['id'] not in self.created:
                self.created[a['id']] = after['now']
                if a['is_sync'] is not True:
                    self.async_ids.add(a['id'])
        bt = {t['id']: t['state'] for t in before['tasks']}
        for t in after['tasks']:
            if bt.get(t['id']) == 'RUNNING' and t['state'] != 'RUNNING':
                self.task_left_running[t['id']] = self.task_left_running.get(t['id'], 0) + 1

    # ------------------------------------------------------------------ engine progress (not modelled)
    def skip_item(self, it):
        kind, x = it
        if kind == 'job':
            fn = x.func_name.split('.')[-1]
            return fn in ('_check_and_fix_integrity', '_scheduled_on_action_complete')
        if x.kind == 'action':
            return True
        if x.kind == 'rpc' and x.data['method'] == 'on_action_complete':
            return True
        return False

    def drain(self, limit=300):
        n = 0
        while n < limit:
            en = [e for e in self.w.enabled() if not self.skip_item(e)]
            if not en:
                break
            it = self.rng.choice(en)
            b = self.observe()
            self.w.deliver(it)
            self.track(b, self.observe())
            n += 1
        if n >= limit:
            self.hits.append(('engine does not quiesce', {'kind': 'harness-drain-exhausted'}, {}))
        # every new run_action request gets a fate
        for p in self.w.pending:
            if p.kind == 'action':
                aid = p.data['action_ex_id']
                if aid not in self.fate:
                    self.fate[aid] = 'lost' if self.rng.random() < 0.45 else 'held'

    def held(self, include_lost=False):
        return [p for p in self.w.pending if p.kind == 'action' and
                (include_lost or self.fate.get(p.data['action_ex_id']) != 'lost')]

    # ------------------------------------------------------------------ events
    def ev_tick(self, dt):
        if dt <= 0:
            return
        self.modelled({'kind': 'tick', 'dt': dt}, lambda: self.w.tick(dt))
        self.drain()

    def ev_heartbeat(self, ids):
        def real():
            self.w._call('heartbeats', self.w.engine.process_action_heartbeats, list(ids))
        before, after = self.modelled({'kind': 'heartbeat', 'ids': list(ids)}, real)
        known = {a['id'] for a in before['acts']}
        for i in ids:
            if i in known:
                self.last_hb[i] = self.w.clock
        # monitor: the heartbeat is recorded (deadline moves) and nothing else changes
        ba = {a['id']: a for a in before['acts']}
        for a in after['acts']:
            b = ba.get(a['id'])
            if b is None:
                continue
            if a['id'] in ids and a['lh'] != self.w.clock:
                self.hit('a processed heartbeat did not refresh last_heartbeat', {'kind': 'heartbeat-not-recorded'},
                         {'action': a['ord'], 'lh': a['lh'], 'now': self.w.clock})
            if (a['state'], a['accepted']) != (b['state'], b['accepted']):
                self.hit('a heartbeat changed an action state', {'kind': 'heartbeat-changed-state'}, {'action': a['ord']})
        self.feat.add('heartbeat')

    def service_iteration(self):
        """start() + one iteration of _loop of the REAL checker service, with its Timer / sleep
        replaced so that nothing runs in the background."""
        from mistral.services import action_heartbeat_checker as chk
        rec = {'timer': None, 'slept': []}

        class _Timer(object):
            def __init__(s, wait, fn, *a, **kw):
                rec['timer'] = (wait, fn)

            def start(s):
                pass

        def _sleep(sec):
            rec['slept'].append(sec)
            chk._stopped = True

        real_threading, real_time = chk.threading, chk.time
        chk.threading = types.SimpleNamespace(Timer=_Timer)
        chk.time = types.SimpleNamespace(sleep=_sleep)
        try:
            chk._stopped = True
            self.w._call('checker.start', chk.start)
            if rec['timer'] is not None:
                self.w._call('checker.loop', rec['timer'][1])
        finally:
            chk.threading, chk.time = real_threading, real_time
            chk._stopped = True
        return rec

    def ev_checker(self, direct=False):
        from mistral.services import action_heartbeat_checker as chk
        info = {}

        def real():
            if direct:
                # as the service thread does before its first iteration: an administrative context
                from mistral import context as auth_context
                auth_context.set_ctx(auth_context.MistralContext(
                    user_id=None, project_id=None, auth_token=None, is_admin=True))
                self.w._call('checker.pass', chk.handle_expired_actions)
            else:
                info.update(self.service_iteration())
        before, after = self.modelled({'kind': 'checkerPass' if direct else 'checkerLoop'}, real,
                                      raised_where=('checker.pass',))
        c = self.cfgj
        enabled = bool(c['maxMissed']) and bool(c['checkInterval'])
        if not direct:
            # the service: enabled iff both settings are non-zero; first run after interval*max_missed
            started = info.get('timer') is not None
            if self.drv is not None:
                ms = self.drv.call('heartbeat.service', {'cfg': c})
                impl = {'enabled': started, 'firstRunDelay': info['timer'][0] if started else None}
                mod = {'enabled': ms['enabled'], 'firstRunDelay': ms['firstRunDelay'] if ms['enabled'] else None}
                if impl != mod:
                    self.diffs.append({'event': 'service', 'cfg': c, 'model': mod, 'impl': impl})
            if started != enabled:
                self.hit('checker service %s although check_interval=%s max_missed_heartbeats=%s' % (
                    'started' if started else 'not started', c['checkInterval'], c['maxMissed']),
                    {'kind': 'service-enabled-mismatch'}, {'cfg': c})
            if started and info['slept'] != [c['checkInterval']]:
                self.hit('checker loop does not sleep check_interval', {'kind': 'loop-sleep'}, {'slept': info['slept']})
            ran = started
        else:
            ran = True
        self.mon_expiry(before, after, ran, direct)
        self.drain()

    def hit(self, what, sig, detail):
        self.hits.append((what, sig, detail))

    # ---- monitor M1/M4/M6: expiry iff silent beyond the threshold
    def deadline(self, aid):
        c = self.cfgj
        if aid in self.last_hb:
            return self.last_hb[aid] + c['maxMissed'] * c['checkInterval']
        return self.created.get(aid, 0) + c['firstTimeout'] + c['maxMissed'] * c['checkInterval']

    def mon_expiry(self, before, after, ran, direct):
        now = self.w.clock
        aa = {a['id']: a for a in after['acts']}
        tb = {t['id']: t for t in before['tasks']}
        due = []
        for b in before['acts']:
            a = aa.get(b['id'])
            if a is None:
                continue
            silent_too_long = now > self.deadline(b['id'])
            should = ran and b['state'] == 'RUNNING' and b['is_sync'] is True and silent_too_long
            failed_now = b['state'] == 'RUNNING' and a['state'] == 'ERROR' and a['out'] == HB_MSG
            changed = (a['state'], a['accepted']) != (b['state'], b['accepted'])
            if should:
                due.append(b)
            if failed_now:
                self.failed_by_checker[b['id']] = now
                self.feat.add('expired')
                if not a['accepted'] and not (tb.get(b['task']) or {}).get('retry'):
                    self.hit('expired action not marked accepted', {'kind': 'expired-not-accepted'}, {'action': b['ord']})
            if should and not failed_now:
                pass        # classified below (needs the whole batch)
            elif changed and not should:
                why = ('finished' if b['state'] in COMPLETED else 'asynchronous' if b['is_sync'] is not True
                       else 'fresh' if not silent_too_long else 'service-disabled')
                self.hit('the checker changed a %s action (%s -> %s) at clock %d, deadline %d' % (
                    why, b['state'], a['state'], now, self.deadline(b['id'])),
                    {'kind': 'premature-expiry', 'why': why},
                    {'action': b['ord'], 'name': b['name'], 'now': now, 'deadline': self.deadline(b['id']),
                     'lh': b['lh'], 'created': self.created.get(b['id'])})
            if not should and not changed and b['state'] == 'RUNNING' and b['is_sync'] is True:
                self.feat.add('fresh-survives' if now <= self.deadline(b['id']) else 'not-run')
                if now == self.deadline(b['id']):
                    self.feat.add('boundary-0')
                if now == self.deadline(b['id']) - 1:
                    self.feat.add('boundary-minus1')
            if should and now == self.deadline(b['id']) + 1:
                self.feat.add('boundary-plus1')
        if not due:
            return
        unknown_def = [b for b in due if b['name'] == 'myact' and self.def_deleted and b['task'] is not None]
        for b in due:
            a = aa[b['id']]
            if a['state'] == 'ERROR' and a['out'] == HB_MSG:
                continue
            d = {'action': b['ord'], 'name': b['name'], 'now': now, 'deadline': self.deadline(b['id']),
                 'batch': [[x['ord'], x['name'], x['task'] is not None] for x in due]}
            if b['task'] is None:
                # regression of DESIGN 9-R (fixed by 2fdf7f9f)
                self.feat.add('taskless-skipped')
                self.hit('an expired RUNNING synchronous action execution without a task (ad-hoc action) is '
                         'skipped by the checker and stays RUNNING', {'kind': 'taskless-action-never-expired'}, d)
            elif b in unknown_def:
                # the broken action itself: the statement only asks that it does not block the others
                self.feat.add('broken-action-skipped')
            elif unknown_def:
                # regression of the poisoned batch (fixed by 2fdf7f9f)
                self.feat.add('poisoned-batch')
                self.hit('one broken action (definition deleted) prevents the other expired actions of the '
                         'batch from being failed: the pass raises InvalidActionException and rolls back',
                         {'kind': 'unknown-definition-poisons-batch', 'victim': 'others'}, d)
            else:
                self.hit('RUNNING synchronous action silent since clock %d not failed at clock %d (deadline %d)' % (
                    self.last_hb.get(b['id'], self.created.get(b['id'], 0)), now, self.deadline(b['id'])),
                    {'kind': 'expired-not-failed'}, d)
        failed = [b for b in due if aa[b['id']]['state'] == 'ERROR' and aa[b['id']]['out'] == HB_MSG]
        if any(b['task'] is None for b in failed):
            self.feat.add('taskless-action-expired')
        if unknown_def and [b for b in failed if b not in unknown_def]:
            self.feat.add('batch-continues-after-deleted-definition')
        if any(b['task'] is None for b in due) and any(
                b['task'] is not None and aa[b['id']]['state'] == 'ERROR' for b in due):
            self.feat.add('batch-continues-after-broken')
        # normal error handling, immediate part: a plain task fails with its action
        ta = {t['id']: t for t in after['tasks']}
        for b in due:
            a = aa[b['id']]
            t = tb.get(b['task'])
            if t is None or a['state'] != 'ERROR':
                continue
            t2 = ta.get(t['id'])
            if not t['with_items'] and t['state'] == 'RUNNING' and t2 and t2['state'] == 'RUNNING':
                self.hit('task still RUNNING after its action was failed by the checker',
                         {'kind': 'task-not-failed-after-expiry'}, {'task': t['name']})

    # ---- results
    def ev_result(self, p, verdict):
        """the executor answers a held run_action request"""
        aid = p.data['action_ex_id']
        self.delivered.add(aid)
        is_async = not p.data['action'].is_sync()
        if verdict == 'lost':
            self.w.deliver(('p', p), oracle=lambda w, d: ('lost', None))
            return
        if is_async:
            # std.async_noop: the executor starts it and sends nothing; the result comes from outside
            self.w.deliver(('p', p), oracle=lambda w, d: ('run', None))
            self.fate[aid] = 'async-started'
            return
        self.w.deliver(('p', p), oracle=lambda w, d: (verdict, None))
        msgs = [q for q in self.w.pending if q.kind == 'rpc' and q.data['method'] == 'on_action_complete'
                and q.data['kwargs'].get('action_ex_id') == aid and not q.data['kwargs'].get('wf_action')]
        if not msgs:
            self.hit('executor produced no result message', {'kind': 'harness-no-result'}, {})
            return
        self.deliver_result_msg(msgs[0], aid, {'run': 'success', 'error': 'error', 'cancel': 'cancel'}[verdict])

    def ev_direct_result(self, aid, res):
        """a (late / duplicate / asynchronous) result arriving at the engine API"""
        from mistral_lib import actions as ml
        result = {'success': ml.Result(data='late'), 'error': ml.Result(error='late error'),
                  'cancel': ml.Result(error='c', cancel=True)}[res]

        def real():
            from mistral import context as auth_context
            auth_context.set_ctx(self.w.ctx)
            self.w._call('rpc:on_action_complete', self.w.engine.on_action_complete, aid, result)
        self.result_event(aid, res, real)

    def deliver_result_msg(self, msg, aid, res):
        self.result_event(aid, res, lambda: self.w.deliver(('p', msg)))

    def result_event(self, aid, res, real):
        before, after = self.modelled({'kind': 'result', 'id': aid, 'r': res}, real,
                                      raised_where=('rpc:on_action_complete',))
        b = [a for a in before['acts'] if a['id'] == aid]
        a = [x for x in after['acts'] if x['id'] == aid]
        if b and a:
            b, a = b[0], a[0]
            if b['state'] in COMPLETED:
                # monitor M3: "a genuine result arriving later does not act a second time"
                self.feat.add('late-result-after-expiry' if aid in self.failed_by_checker else 'late-result-after-result')
                if self.strip(before) != self.strip(after):
                    self.hit('a result for an already finished action changed committed rows',
                             {'kind': 'late-result-acted'},
                             {'action': b['ord'], 'before': self.strip(before), 'after': self.strip(after)})
            elif a['state'] in COMPLETED:
                self.result_done[aid] = self.w.clock
                self.feat.add('result-accepted')
        self.drain()

    @staticmethod
    def strip(obs):
        return {'acts': [[a['ord'], a['state'], a['accepted'], a['out']] for a in obs['acts']],
                'tasks': sorted([t['ord'], t['name'], t['state'], t['processed']] for t in obs['tasks']),
                'wfs': [[x['ord'], x['state']] for x in obs['wfs']],
                'jobs': sorted([j['fn'], j['key'], j['at']] for j in obs['jobs'])}

    def ev_wf_result(self, msg, drop=False):
        wid = msg.data['kwargs']['action_ex_id']
        if drop:
            self.w.pending.remove(msg)
            self.events.append({'ev': 'drop-wf-result', 'clock': self.w.clock})
            self.feat.add('dropped-subwf-message')
            return
        self.modelled({'kind': 'wfResult', 'id': wid}, lambda: self.w.deliver(('p', msg)),
                      raised_where=('rpc:on_action_complete',))
        self.drain()

    def ev_db_complete(self, aid, res):
        from mistral.db.v2 import api as db_api
        st = {'success': 'SUCCESS', 'error': 'ERROR', 'cancel': 'CANCELLED'}[res]

        def real():
            from mistral import context as auth_context
            auth_context.set_ctx(self.w.ctx)
            self.w._call('db', db_api.update_action_execution, aid,
                         {'state': st, 'output': {'result': 'set behind the engine'}}, True)
        self.modelled({'kind': 'dbComplete', 'id': aid, 'r': res}, real)
        self.db_done[aid] = self.w.clock
        self.feat.add('db-complete')

    def with_items_jobs(self):
        res = {}
        for j in self.w.jobs():
            if j.func_name.endswith('_scheduled_on_action_complete'):
                res.setdefault(j.key, []).append(j)
        return res

    def ev_task_job(self, key, jobs, drop=False):
        from mistral.db.v2 import api as db_api
        tid = key[len('th_on_a_c-'):]

        def real():
            for j in jobs:
                if drop:
                    self.w.scheduler.in_memory_jobs.pop(j.id, None)
                    self.w._call('dropjob', db_api.delete_scheduled_job, j.id)
                else:
                    self.w.deliver(('job', j))
        self.modelled({'kind': 'dropJob' if drop else 'taskJob', 'tid': tid}, real)
        if drop:
            self.dropped_tasks.add(tid)
            self.feat.add('dropped-with-items-job')
        self.drain()

    # ---- integrity check
    def integrity_jobs(self):
        key = 'wfh_c_a_f_i-%s' % self.root
        return [j for j in self.w.jobs() if j.key == key]

    def ev_integrity(self):
        jobs = self.integrity_jobs()
        if not jobs:
            return False
        j = min(jobs, key=lambda x: x.execute_at)
        wait = int((j.execute_at - self.w.now()).total_seconds())
        if wait > 0:
            self.ev_tick(wait)
            jobs = self.integrity_jobs()
            if not jobs:
                return False
            j = min(jobs, key=lambda x: x.execute_at)
        before, after = self.modelled({'kind': 'integrity'}, lambda: self.w.deliver(('job', j)), integ_wf=self.root)
        self.mon_integrity(before, after)
        self.drain()
        # the completion jobs the check scheduled for with-items tasks are delivered right away
        for key, js in sorted(self.with_items_jobs().items()):
            self.ev_task_job(key, js)
        return True

    def mon_integrity(self, before, after):
        """M5: a RUNNING task all of whose children finished more than `delay` seconds ago is handled
        by this check; a task with an unfinished child, or stuck for less than the delay, is not."""
        c = self.cfgj
        now = self.w.clock
        d = c['integrityDelay']
        wf = [x for x in before['wfs'] if x['id'] == self.root]
        if d < 0 or not wf or wf[0]['state'] in COMPLETED:
            changed = self.strip(before)['tasks'] != self.strip(after)['tasks']
            if changed:
                self.hit('integrity check acted although disabled / workflow finished',
                         {'kind': 'integrity-acted-when-off'}, {'delay': d})
            key = 'wfh_c_a_f_i-%s' % self.root
            if [j for j in after['jobs'] if j['key'] == key and j['at'] > now]:
                self.hit('integrity check rescheduled itself although disabled / workflow finished',
                         {'kind': 'integrity-rescheduled-when-off'}, {'delay': d})
            self.feat.add('integrity-off')
            return
        key = 'wfh_c_a_f_i-%s' % self.root
        if not [j for j in after['jobs'] if j['key'] == key and j['at'] > now]:
            self.hit('integrity check did not reschedule itself for an unfinished workflow',
                     {'kind': 'integrity-not-rescheduled'}, {})
        ta = {t['id']: t for t in after['tasks']}
        keys_b = [j['key'] for j in before['jobs']]
        keys_a = [j['key'] for j in after['jobs']]
        running = [t for t in before['tasks'] if t['wf'] == self.root and t['state'] == 'RUNNING']
        visible = [t['id'] for t in running if t['project'] == self.owner_project]
        for t in running:
            pos = visible.index(t['id']) if t['id'] in visible else -1
            kids = [a for a in before['acts'] if a['task'] == t['id']] + \
                   [x for x in before['wfs'] if x['task'] == t['id']]
            t2 = ta[t['id']]
            jk = 'th_on_a_c-%s' % t['id']
            handled = (t2['state'] != 'RUNNING') or keys_a.count(jk) > keys_b.count(jk)
            all_done = bool(kids) and all(k['state'] in COMPLETED for k in kids)
            since = max([k['upd'] for k in kids]) if kids else None
            if not all_done:
                if handled:
                    self.hit('integrity check handled task %s that is not stuck (a child is unfinished / no child)' % t['name'],
                             {'kind': 'integrity-touched-non-stuck'}, {'task': t['name'], 'kids': [k['state'] for k in kids]})
                else:
                    self.feat.add('integrity-leaves-running-task')
                continue
            age = now - since
            tage = now - t['upd']
            if age > d and tage >= d:
                if handled:
                    self.feat.add('integrity-fixed')
                    self.integrity_fixed[t['id']] = self.integrity_fixed.get(t['id'], 0) + 1
                    if age == d + 1:
                        self.feat.add('integrity-boundary-plus1')
                elif t['project'] != self.owner_project:
                    self.feat.add('integrity-cannot-see-followup-task')
                    self.hit('stuck task %s created by the error handling after a heartbeat expiry belongs to project '
                             'None and is invisible to the integrity check of its workflow' % t['name'],
                             {'kind': 'expiry-followup-rows-project-none'}, {'task': t['name']})
                elif pos >= c['integrityBatch']:
                    self.feat.add('integrity-batch-starved')
                    self.hit('stuck task %s (children finished %ds ago, delay %d) not repaired: only the first %d '
                             'RUNNING tasks in id order are examined and they are still running' % (
                                 t['name'], age, d, c['integrityBatch']),
                             {'kind': 'integrity-batch-starvation'},
                             {'task': t['name'], 'position': pos, 'batch': c['integrityBatch']})
                else:
                    self.hit('stuck task %s (children finished %ds ago, task updated %ds ago, delay %d) not repaired' % (
                        t['name'], age, tage, d), {'kind': 'stuck-task-not-repaired'},
                        {'task': t['name'], 'age': age, 'task_age': tage, 'delay': d})
            elif age < d:
                if handled:
                    self.hit('integrity check repaired task %s before the configured delay (%d < %d)' % (t['name'], age, d),
                             {'kind': 'integrity-before-delay'}, {'task': t['name'], 'age': age, 'delay': d})
                else:
                    self.feat.add('integrity-waits-for-delay')
            else:
                self.feat.add('integrity-boundary-0:' + ('fixed' if handled else 'waits'))

    # ------------------------------------------------------------------ other operator-side events
    def ev_delete_definition(self):
        from mistral.db.v2 import api as db_api
        from mistral import context as auth_context
        auth_context.set_ctx(self.w.ctx)
        self.w._call('delete_def', db_api.delete_action_definition, 'myact')
        self.def_deleted = True
        self.events.append({'ev': 'delete-action-definition', 'clock': self.w.clock})

    def ev_taskless(self):
        from mistral import context as auth_context
        auth_context.set_ctx(self.w.ctx)
        b = self.observe()
        r = self.w._call('start_action', self.w.engine.start_action, 'std.noop', {}, save_result=True)
        self.events.append({'ev': 'start-adhoc-action', 'clock': self.w.clock})
        self.track(b, self.observe())
        if r is not None:
            self.taskless.append(r.id)
            self.fate[r.id] = 'lost'
        self.drain()

    # ------------------------------------------------------------------ the script
    def run(self):
        self.setup()
        try:
            self.script()
            self.finale()
            self.mon_end()
        finally:
            self.teardown()

    def running_sync(self, obs):
        return [a for a in obs['acts'] if a['state'] == 'RUNNING' and a['is_sync'] is True]

    def script_boundary(self):
        """clock at threshold -1, 0, +1 for a silent subset and for a heartbeated subset"""
        rng = self.rng
        c = self.cfgj
        obs = self.observe()
        rs = self.running_sync(obs)
        beat = [a['id'] for a in rs if rng.random() < 0.5]
        for p in self.held(include_lost=True):
            self.fate[p.data['action_ex_id']] = 'lost'
        h = rng.randint(0, 3)
        self.ev_tick(h)
        if beat:
            self.ev_heartbeat(beat)
        for group in (beat, [a['id'] for a in rs if a['id'] not in beat]):
            if not group:
                continue
            dl = self.deadline(group[0])
            for delta in (-1, 0, 1):
                self.ev_tick(dl + delta - self.w.clock)
                self.ev_checker(direct=(rng.random() < 0.15))

    def script(self):
        sc = self.sc
        rng = self.rng
        fl = sc['flavor']
        c = self.cfgj
        if fl == 'boundary':
            return self.script_boundary()
        did_delete = False
        did_taskless = False
        for step in range(sc['steps']):
            obs = self.observe()
            rs = self.running_sync(obs)
            choices = [('tick_thr', 30), ('tick_small', 5), ('hb', 12), ('loop', 25), ('pass', 3), ('result', 12)]
            if fl in ('stuck', 'intbatch'):
                choices += [('db', 14), ('integrity', 14)]
            else:
                choices += [('integrity', 4)]
            if fl == 'race':
                choices += [('late', 14), ('result', 8)]
            if fl in ('plain', 'stuck', 'intbatch') and c['integrityDelay'] >= 0 and not getattr(self, 'did_pause', False):
                # an integrity-check pass that falls into a window in which the workflow is PAUSED
                choices += [('pausewin', 10)]
            if fl == 'poison' and not did_delete and step >= 1:
                choices += [('delete_def', 40)]
            if fl == 'taskless' and not did_taskless:
                choices += [('taskless', 40)]
            wij = self.with_items_jobs()
            if wij:
                choices += [('job', 20), ('dropjob', 8 if fl == 'stuck' else 1)]
            wfm = [q for q in self.w.pending if q.kind == 'rpc' and q.data['method'] == 'on_action_complete'
                   and q.data['kwargs'].get('wf_action')]
            if wfm:
                choices += [('wfres', 20), ('dropwf', 12 if fl == 'stuck' else 1)]
            kind = self.weighted(choices)
            if kind == 'tick_thr':
                if rs:
                    a = rng.choice(rs)
                    target = self.deadline(a['id']) + rng.choice([-1, 0, 1, 1, 2])
                    dt = target - self.w.clock
                    if dt <= 0:
                        dt = rng.randint(1, 3)
                    if fl in ('stuck', 'intbatch') and c['integrityDelay'] >= 0 and rng.random() < 0.5:
                        dt = max(1, c['integrityDelay'] + rng.choice([-1, 0, 1]))
                    self.ev_tick(min(dt, 5000))
                else:
                    self.ev_tick(rng.randint(1, 4))
            elif kind == 'tick_small':
                self.ev_tick(rng.randint(1, 3))
            elif kind == 'hb':
                pool = [a['id'] for a in obs['acts']]
                ids = [i for i in pool if rng.random() < 0.5]
                if rng.random() < 0.2:
                    ids.append('00000000-0000-4000-8000-00000000dead')
                if rng.random() < 0.1:
                    ids.append('')
                self.ev_heartbeat(ids)
            elif kind == 'loop':
                self.ev_checker(direct=False)
            elif kind == 'pass':
                self.ev_checker(direct=True)
            elif kind == 'result':
                h = self.held()
                if h:
                    p = rng.choice(h)
                    self.ev_result(p, rng.choice(['run', 'run', 'run', 'error', 'error', 'error', 'cancel']))
                else:
                    # asynchronous actions started by the executor get their result from outside
                    cand = [a for a in obs['acts'] if a['state'] == 'RUNNING' and self.fate.get(a['id']) == 'async-started']
                    if cand:
                        self.ev_direct_result(rng.choice(cand)['id'], rng.choice(['success', 'error']))
            elif kind == 'late':
                cand = [a for a in obs['acts'] if a['state'] in COMPLETED and a['task'] is not None]
                if cand:
                    self.ev_direct_result(rng.choice(cand)['id'], rng.choice(['success', 'success', 'error', 'cancel']))
            elif kind == 'db':
                tmap = {t['id']: t for t in obs['tasks']}
                cand = [a for a in obs['acts'] if a['state'] == 'RUNNING' and a['task'] in tmap
                        and not tmap[a['task']]['with_items'] and not tmap[a['task']]['retry']
                        and tmap[a['task']]['wf'] == self.root]
                if fl == 'intbatch':
                    done = [a for a in obs['acts'] if a['id'] in self.db_done]
                    if done:
                        cand = []
                if cand:
                    a = rng.choice(cand)
                    # the executor (if any) never answers: the row is changed behind the engine's back
                    for p in list(self.w.pending):
                        if p.kind == 'action' and p.data['action_ex_id'] == a['id']:
                            self.fate[a['id']] = 'lost'
                    self.ev_db_complete(a['id'], rng.choice(['success', 'success', 'error']))
            elif kind == 'integrity':
                self.ev_integrity()
            elif kind == 'pausewin':
                root = [x for x in obs['wfs'] if x['id'] == self.root]
                if root and root[0]['state'] == 'RUNNING' and self.integrity_jobs():
                    self.did_pause = True
                    self.feat.add('integrity-pass-while-paused')
                    self.w.op('pause_workflow', self.root)
                    # the check runs while the workflow is PAUSED (modelled event + monitor: it must
                    # re-arm itself: the workflow is not finished), then the operator resumes
                    self.ev_integrity()
                    self.w.op('resume_workflow', self.root)
                    self.drain()
            elif kind == 'delete_def':
                self.ev_delete_definition()
                did_delete = True
            elif kind == 'taskless':
                self.ev_taskless()
                did_taskless = True
            elif kind in ('job', 'dropjob'):
                key = rng.choice(sorted(wij))
                self.ev_task_job(key, wij[key], drop=(kind == 'dropjob'))
            elif kind in ('wfres', 'dropwf'):
                self.ev_wf_result(rng.choice(wfm), drop=(kind == 'dropwf'))

    def weighted(self, choices):
        tot = sum(w for _, w in choices)
        x = self.rng.random() * tot
        for k, w in choices:
            x -= w
            if x <= 0:
                return k
        return choices[-1][0]

    def finale(self):
        """bring the run to an end so that the end-of-run monitors can be read: silent executors
        are expired (if the service is enabled), every other request is answered, late results are
        sent for expired actions, lost jobs/messages are repaired by the integrity check."""
        c = self.cfgj
        enabled = bool(c['maxMissed']) and bool(c['checkInterval'])
        for rnd in range(6):
            obs = self.observe()
            rs = [a for a in self.running_sync(obs) if self.fate.get(a['id']) == 'lost' or a['id'] in self.delivered]
            if not rs or not enabled:
                break
            far = max(self.deadline(a['id']) for a in rs) + 1
            self.ev_tick(max(1, far - self.w.clock))
            self.ev_checker(direct=False)
            self.settle()
        # answer what is still held (genuine results; late ones for expired actions)
        for rnd in range(8):
            h = self.held(include_lost=True)
            if not h:
                break
            for p in h:
                aid = p.data['action_ex_id']
                if self.fate.get(aid) == 'lost' and enabled and aid not in self.failed_by_checker \
                        and aid not in self.db_done:
                    # not yet expired (created late): expire first
                    continue
                self.ev_result(p, 'run')
            self.settle()
            obs = self.observe()
            rs = [a for a in self.running_sync(obs)]
            if rs and enabled:
                far = max(self.deadline(a['id']) for a in rs) + 1
                self.ev_tick(max(1, far - self.w.clock))
                self.ev_checker(direct=False)
                self.settle()
        # asynchronous actions: results from outside
        obs = self.observe()
        for a in obs['acts']:
            if a['state'] == 'RUNNING' and a['is_sync'] is not True and a['task'] is not None:
                self.ev_direct_result(a['id'], 'success')
                self.settle()
        # stuck tasks: the integrity check (twice: with-items jobs, then nothing to do)
        if c['integrityDelay'] >= 0:
            for rnd in range(3):
                obs = self.observe()
                if not [t for t in obs['tasks'] if t['state'] == 'RUNNING' and t['wf'] == self.root]:
                    break
                self.ev_tick(c['integrityDelay'] + 1)
                if not self.ev_integrity():
                    break
                self.settle()

    def settle(self):
        """deliver what is deliverable, including with-items completion jobs and sub-workflow
        result messages that were not dropped, and move the clock to due retry timers"""
        for _ in range(12):
            self.drain()
            progressed = False
            for key, js in sorted(self.with_items_jobs().items()):
                self.ev_task_job(key, js)
                progressed = True
            wfm = [q for q in self.w.pending if q.kind == 'rpc' and q.data['method'] == 'on_action_complete'
                   and q.data['kwargs'].get('wf_action')]
            for m in wfm:
                self.ev_wf_result(m)
                progressed = True
            und = [j for j in self.w.undue_jobs() if not j.func_name.endswith('_check_and_fix_integrity')]
            if und and not progressed:
                nxt = min(j.execute_at for j in und)
                self.ev_tick(int((nxt - self.w.now()).total_seconds()))
                progressed = True
            if not progressed:
                break

    # ---- end-of-run monitors (M2 normal error handling, M3 acts once, K)
    def mon_end(self):
        obs = self.observe()
        c = self.cfgj
        spec = {b['name']: b for b in self.sc['branches']}
        by_wf_name = {}
        for t in obs['tasks']:
            by_wf_name.setdefault((t['wf'], t['name']), []).append(t)
        for (wf, name), rows in by_wf_name.items():
            if len(rows) > 1:
                self.hit('task %s exists %d times in one execution (something acted twice)' % (name, len(rows)),
                         {'kind': 'task-created-twice'}, {'task': name})
        for tid, n in self.task_left_running.items():
            t = [x for x in obs['tasks'] if x['id'] == tid]
            if n > 1 and t and not t[0]['retry']:
                self.hit('task %s left RUNNING %d times' % (t[0]['name'], n), {'kind': 'task-completed-twice'}, {})
        tmap = {t['id']: t for t in obs['tasks']}
        acts_of = {}
        for a in obs['acts']:
            acts_of.setdefault(a['task'], []).append(a)
        root = [x for x in obs['wfs'] if x['id'] == self.root][0]
        for aid, clock in self.failed_by_checker.items():
            a = [x for x in obs['acts'] if x['id'] == aid]
            if not a:
                continue
            a = a[0]
            if a['state'] != 'ERROR':
                self.hit('an action failed by the checker later changed state to %s' % a['state'],
                         {'kind': 'expired-action-changed-later'}, {'action': a['ord']})
            t = tmap.get(a['task'])
            if t is None or t['wf'] != self.root:
                continue
            b = spec.get(t['name'])
            if b is None:
                continue
            self.feat.add('error-handling-checked')
            if b['kind'] == 'withitems':
                if t['state'] not in ('ERROR', 'RUNNING', 'CANCELLED'):
                    self.hit('with-items task %s is %s although an item was failed by the checker' % (t['name'], t['state']),
                             {'kind': 'expiry-not-normal-error', 'case': 'with-items'}, {})
                continue
            if b['retry']:
                n = len(acts_of.get(t['id'], []))
                attempt = sorted(x['ord'] for x in acts_of[t['id']]).index(a['ord']) + 1
                if attempt <= b['retry']['count'] and n < attempt + 1 and root['state'] not in COMPLETED:
                    self.hit('retry policy of %s did not start attempt %d after the checker failed attempt %d' % (
                        t['name'], attempt + 1, attempt), {'kind': 'expiry-not-normal-error', 'case': 'retry'},
                        {'actions': n})
                else:
                    self.feat.add('retry-after-expiry')
                continue
            if t['state'] != 'ERROR':
                self.hit('task %s is %s although its action was failed by the checker' % (t['name'], t['state']),
                         {'kind': 'expiry-not-normal-error', 'case': 'task-state'}, {})
                continue
            if b['on_error']:
                if (self.root, t['name'] + 'e') not in by_wf_name:
                    self.hit('on-error route of %s not taken after the heartbeat expiry' % t['name'],
                             {'kind': 'expiry-not-normal-error', 'case': 'on-error'}, {})
                else:
                    self.feat.add('on-error-after-expiry')
            else:
                if any(x['state'] == 'CANCELLED' for x in obs['tasks']):
                    pass        # a cancelled sibling decides the workflow state
                elif root['state'] in COMPLETED and root['state'] != 'ERROR':
                    self.hit('workflow finished %s although task %s failed unhandled by heartbeat expiry' % (
                        root['state'], t['name']), {'kind': 'expiry-not-normal-error', 'case': 'workflow-state'}, {})
                elif root['state'] == 'ERROR':
                    self.feat.add('workflow-error-after-expiry')
            if (self.root, t['name'] + 's') in by_wf_name:
                self.hit('on-success route of %s taken although it failed by heartbeat expiry' % t['name'],
                         {'kind': 'expiry-not-normal-error', 'case': 'on-success'}, {})
        # K: rows created while handling the expiry carry the owner's project
        foreign = [('task', t['name']) for t in obs['tasks'] if t['project'] != self.owner_project] + \
                  [('action', a['name']) for a in obs['acts'] if a['project'] != self.owner_project] + \
                  [('workflow', x['name']) for x in obs['wfs'] if x['project'] != self.owner_project]
        if foreign:
            self.feat.add('followup-rows-without-project')
            self.hit('rows created by the error handling that follows a heartbeat expiry belong to project None '
                     'instead of the owner (the checker thread runs with a project-less admin context): %s' % foreign[:4],
                     {'kind': 'expiry-followup-rows-project-none'}, {'rows': foreign[:8]})
        # undeclared errors of the entry points driven here (ValueError of a rejected duplicate is the
        # documented rejection mechanism)
        for e in self.w.errors:
            if e['declared']:
                continue
            if e['type'] == 'ValueError' and 'already completed' in e['msg']:
                continue
            if e['type'] == 'InvalidActionException':
                continue
            self.stats['undeclared:' + e['type']] = self.stats.get('undeclared:' + e['type'], 0) + 1
        self.final = {'wf': root['state'], 'tasks': sorted([t['name'], t['state']] for t in obs['tasks'])}


# =========================================================================== stream entry points
def run_scenario(ctx, sc, seed, drv):
    r = Runner(ctx, sc, seed, drv)
    try:
        r.run()
    except Stop as e:
        ctx.count('heartbeat', 'not-started')
        return r
    return r


def report(ctx, r, sc, seed):
    for f in r.feat:
        ctx.count('heartbeat', 'feat:' + f)
    ctx.count('heartbeat', 'flavor:' + sc['flavor'])
    ctx.count('heartbeat', 'scenarios')
    if getattr(r, 'final', None):
        ctx.count('heartbeat', 'final:' + r.final['wf'])
    for k, v in r.stats.items():
        ctx.count('heartbeat', k, v)
    rep = {'scenario': sc, 'seed': seed, 'events': r.events[-60:], 'yaml': getattr(r, 'yaml', None)}
    for d in r.diffs[:3]:
        ctx.disagree('heartbeat', {'scenario': sc, 'seed': seed, 'event': d.get('event'), 'world': d.get('world'),
                                   'errors': d.get('errors')}, d.get('model'), d.get('impl'))
    seen = set()
    for what, sig, detail in r.hits:
        k = json.dumps(sig, sort_keys=True)
        ctx.count('heartbeat', 'hit:' + sig['kind'])
        if k in seen:
            continue
        seen.add(k)
        ctx.violation(what, dict(rep, hit=detail, what=what), sig)


def run_chunk(ctx, n_scenarios, flavors=None, salt=None):
    drv = ctx.driver()
    rng = ctx.rng
    if salt is not None:
        rng = random.Random('%s-%s-%s-%s' % (ctx.prop, ctx.seed, getattr(ctx, 'chunk', 0), salt))
    if getattr(ctx, 'chunk', 0) == 0 and salt is None:
        run_corpus(ctx, drv)
        check_defaults(ctx, drv)
    for i in range(n_scenarios):
        fl = flavors[i % len(flavors)] if flavors else None
        sc = gen_scenario(rng, fl)
        seed = rng.getrandbits(32)
        r = run_scenario(ctx, sc, seed, drv)
        report(ctx, r, sc, seed)
        if rng.random() < 0.02:
            ctx.sample({'stream': 'heartbeat', 'scenario': sc, 'events': [[e['ev'], e['clock']] for e in r.events[:40]],
                        'final': getattr(r, 'final', None)})


def run_corpus(ctx, drv):
    import glob
    import os
    from vlib import core
    for f in sorted(glob.glob(os.path.join(core.VERIF, 'corpus', 'C20', '*.json'))):
        c = json.load(open(f))
        ctx.count('heartbeat', 'corpus')
        r = run_scenario(ctx, c['scenario'], c['seed'], drv)
        report(ctx, r, c['scenario'], c['seed'])


def check_defaults(ctx, drv):
    """Tie A cross-check: the generated defaults the model uses == what oslo.config reports."""
    from harness import boot
    boot.boot()
    from oslo_config import cfg
    CONF = cfg.CONF
    m = drv.call('heartbeat.defaults', {})
    impl = {}
    for o, k in (('max_missed_heartbeats', 'maxMissed'), ('check_interval', 'checkInterval'),
                 ('first_heartbeat_timeout', 'firstTimeout'), ('batch_size', 'batchSize')):
        CONF.clear_override(o, group='action_heartbeat')
        impl[k] = CONF.action_heartbeat[o]
    for o, k in (('execution_integrity_check_delay', 'integrityDelay'),
                 ('execution_integrity_check_batch_size', 'integrityBatch')):
        CONF.clear_override(o, group='engine')
        # the test configuration may set these through set_default; read the declared default
        impl[k] = [x for x in CONF._groups['engine']._opts.values() if x['opt'].name == o][0]['opt'].default
    ctx.evaluated('defaults', ['defaults'], nontrivial=True)
    if m != impl:
        ctx.disagree('defaults', {'what': 'config defaults'}, m, impl)
