"""Runs one case on the real engine under a chosen schedule and records a trace; monitors that
read the property statements directly on the recorded trace (independent of the Lean model)."""
import copy
import json

from harness import wfgen

FINAL = ('SUCCESS', 'ERROR', 'CANCELLED')
COMPLETED = ('SUCCESS', 'ERROR', 'CANCELLED', 'SKIPPED')

WF_MOVES = {('IDLE', 'RUNNING'), ('RUNNING', 'PAUSED'), ('RUNNING', 'SUCCESS'), ('RUNNING', 'ERROR'),
            ('RUNNING', 'CANCELLED'), ('PAUSED', 'RUNNING'), ('PAUSED', 'ERROR'), ('PAUSED', 'CANCELLED')}
WF_RERUN_MOVES = {('ERROR', 'RUNNING'), ('CANCELLED', 'RUNNING')}


class Oracle(object):
    """Assignment of action results: (task name, k-th action of that task) -> verdict.
    verdict: ['run'] (execute the real action), ['error'], ['cancel'], ['lost']."""

    def __init__(self, table=None, default=('run',)):
        self.table = dict(table or {})
        self.default = list(default)
        self.seen = {}

    def __call__(self, world, d):
        from mistral.db.v2 import api as db_api
        with db_api.transaction(read_only=True):
            a = db_api.load_action_execution(d['action_ex_id'])
            if a is None:
                return ('run', None)
            tname = a.task_execution.name if a.task_execution else '?'
            idx = (a.runtime_context or {}).get('index', 0)
        k = self.seen.get((tname, idx), 0)
        self.seen[(tname, idx)] = k + 1
        key = '%s:%d:%d' % (tname, idx, k)
        v = self.table.get(key) or self.table.get('%s:%d' % (tname, k)) if idx == 0 else self.table.get(key)
        v = v or self.default
        return (v[0], v[1] if len(v) > 1 else None)


class Trace(object):
    def __init__(self):
        self.events = []      # [desc, snapshot_after]
        self.errors = []
        self.final = None
        self.steps = 0
        self.exhausted = False

    def snaps(self):
        return [s for _, s in self.events]


def pick(rng, policy, enabled):
    if policy == 'fifo':
        return enabled[0]
    if policy == 'lifo':
        return enabled[-1]
    return rng.choice(enabled)


def run_case(world, defs_yaml, wf_name, wf_input, oracle, rng, policy='random', max_steps=400,
             ops=None, dup_prob=0.0, evict=False, params=None, tick_integrity=False, wf_ex_id=None,
             snapshot_every=True):
    """ops: list of {'at': step index, 'op': 'pause'|'resume'|'stop'|'rerun'|'skip'|'restart'|'update_def'|'tick',
                     ...args} injected before the delivery with that index.
    Returns Trace.  The schedule is recorded in world.log (replayable from the seed)."""
    tr = Trace()
    for y in defs_yaml:
        world.create_workflows(y)
    root = world.start_workflow(wf_name, wf_input, wf_ex_id=wf_ex_id, **(params or {}))
    tr.root = root
    tr.events.append([['start', wf_name], world.snapshot()])
    ops = sorted(ops or [], key=lambda o: o['at'])
    oi = 0
    step = 0
    dup_budget = 3
    polls = 0
    while step < max_steps:
        while oi < len(ops) and ops[oi]['at'] <= step:
            apply_op(world, tr, ops[oi], root)
            oi += 1
        en = world.enabled()
        if not tick_integrity:
            en = [e for e in en if not (e[0] == 'job' and e[1].func_name.endswith('_check_and_fix_integrity'))]
        if not en:
            und = [j for j in world.undue_jobs() if tick_integrity or not j.func_name.endswith('_check_and_fix_integrity')]
            if und:
                nxt = min(j.execute_at for j in und)
                world.tick(int((nxt - world.now()).total_seconds()))
                tr.events.append([['tick'], world.snapshot()])
                continue
            if oi < len(ops):
                # nothing to deliver: remaining operator commands fire now
                apply_op(world, tr, ops[oi], root)
                oi += 1
                continue
            # jobs that exist only in the store (their scheduler instance was restarted) are picked
            # up by the store poller once pickup_job_after has elapsed
            snap = tr.events[-1][1] or world.snapshot()
            stored = [j for j in snap['jobs'] if not j[0].endswith('_check_and_fix_integrity') and not j[3]]
            if stored and polls < 8:
                from oslo_config import cfg
                polls += 1
                due = max(j[2] for j in stored) + cfg.CONF.scheduler.pickup_job_after + 1
                if due > world.clock:
                    world.tick(due - world.clock)
                world.poll_store()
                tr.events.append([['poll'], world.snapshot()])
                continue
            break
        it = pick(rng, policy, en)
        desc = world.describe(it)
        dup = False
        if dup_prob and it[0] == 'p' and it[1].kind == 'rpc' and dup_budget > 0 and rng.random() < dup_prob:
            dup = True
            dup_budget -= 1
            desc = desc + ['dup']
        if evict:
            world.clear_caches()
        world.deliver(it, oracle=oracle, duplicate=dup)
        step += 1
        tr.events.append([desc, world.snapshot() if snapshot_every else None])
    else:
        tr.exhausted = True
    tr.steps = step
    tr.errors = list(world.errors)
    tr.final = world.snapshot()
    tr.log = list(world.log)
    return tr


def apply_op(world, tr, o, root):
    snap = tr.events[-1][1]
    name = o['op']
    target_wf = root
    if o.get('wf_ord') is not None:
        for w in snap['wfs']:
            if w['ord'] == o['wf_ord']:
                target_wf = w['id']
    if name == 'pause':
        world.op('pause_workflow', target_wf)
    elif name == 'resume':
        world.op('resume_workflow', target_wf)
    elif name == 'stop':
        world.op('stop_workflow', target_wf, o['state'], o.get('msg', 'stopped by harness'))
    elif name in ('rerun', 'skip'):
        # first ERROR task (by ordinal) matching the optional name
        cands = [t for t in snap['tasks'] if t['state'] == 'ERROR' and (o.get('task') in (None, t['name']))]
        if not cands:
            tr.events.append([['op', name, 'no-error-task'], snap])
            return
        t = cands[0]
        world.op('rerun_workflow', t['id'], reset=o.get('reset', True), skip=(name == 'skip'))
        world.forget_broken()
    elif name == 'restart':
        world.restart()
    elif name == 'update_def':
        # the definition the execution was started from is replaced while it runs (PUT /v2/workflows)
        from mistral import context as auth_context
        from mistral.services import workflows as wf_service
        auth_context.set_ctx(world.ctx)
        wf_service.update_workflows(o['yaml'])
    elif name == 'poll':
        world.poll_store()
    elif name == 'tick':
        world.tick(o.get('dt', 1))
    tr.events.append([['op', name, o.get('state')], world.snapshot()])


# =============================================================================== monitors
def undeclared_errors(tr):
    """C01: 'no engine entry point fails with an error other than the service's own declared
    error types' (a duplicate result rejected by ValueError is the documented mechanism of C06 and
    is reported separately by callers that inject duplicates)."""
    return [e for e in tr.errors if not e['declared']]


def stuck(tr, paused_ok=False):
    """C01: at quiescence every execution is final (or PAUSED by request)."""
    res = []
    for w in tr.final['wfs']:
        if w['state'] in FINAL:
            continue
        if paused_ok and w['state'] == 'PAUSED':
            continue
        res.append({'wf': w['ord'], 'name': w['name'], 'state': w['state'],
                    'tasks': [[t['name'], t['state']] for t in tr.final['tasks'] if t['wf'] == w['ord']]})
    return res


def wf_moves(tr):
    """C03: every individual workflow state change is a documented move."""
    bad = []
    prev = {}
    for desc, s in tr.events:
        if s is None:
            continue
        rerun = desc[0] == 'op' and desc[1] in ('rerun', 'skip')
        for w in s['wfs']:
            a = prev.get(w['ord'], 'IDLE' if w['state'] != 'IDLE' else None)
            b = w['state']
            if a is not None and a != b:
                ok = (a, b) in WF_MOVES or (rerun and (a, b) in WF_RERUN_MOVES)
                if desc[0] == 'op' and desc[1] == 'resume' and a == 'PAUSED' and ('RUNNING', b) in WF_MOVES:
                    ok = True     # two compare-and-swaps in the resume transaction: PAUSED->RUNNING->verdict
                if rerun and a in ('ERROR', 'CANCELLED') and ('RUNNING', b) in WF_MOVES:
                    # two compare-and-swaps in the rerun / skip transaction: ERROR->RUNNING (the explicit rerun) and,
                    # when skipping the last failed task leaves nothing to run, RUNNING->verdict by the inline
                    # completion check; the committed snapshot shows only ERROR->verdict
                    ok = True
                # creation: a fresh execution appears already RUNNING (IDLE->RUNNING in one tx)
                if w['ord'] not in prev:
                    ok = b in ('RUNNING', 'IDLE') or (('RUNNING', b) in WF_MOVES)
                if not ok:
                    bad.append({'wf': w['ord'], 'from': a, 'to': b, 'event': desc})
            prev[w['ord']] = b
    return bad


def task_success_final(tr):
    """C03: a task that reached SUCCESS never changes state again."""
    bad = []
    done = {}
    rerun_seen = False
    for desc, s in tr.events:
        if desc[0] == 'op' and desc[1] in ('rerun', 'skip'):
            rerun_seen = True
        if s is None:
            continue
        for t in s['tasks']:
            if done.get(t['ord']) and t['state'] != 'SUCCESS':
                bad.append({'task': t['name'], 'to': t['state'], 'event': desc, 'after_rerun': rerun_seen})
            if t['state'] == 'SUCCESS':
                done[t['ord']] = True
    return bad


def accepted_once(tr):
    """C03: an action execution's result is accepted at most once."""
    bad = []
    prev = {}
    cnt = {}
    outs = {}
    for desc, s in tr.events:
        if s is None:
            continue
        for a in s['actions']:
            p = prev.get(a['ord'], False)
            if a['accepted'] and not p:
                cnt[a['ord']] = cnt.get(a['ord'], 0) + 1
                if cnt[a['ord']] > 1:
                    bad.append({'action': a['ord'], 'event': desc, 'what': 'accepted twice'})
            if a['state'] in COMPLETED:
                if a['ord'] in outs and outs[a['ord']][0] in COMPLETED and outs[a['ord']] != (a['state'], json.dumps(a['output'], sort_keys=True)) and a['output'] not in ({}, None):
                    bad.append({'action': a['ord'], 'event': desc, 'what': 'completed action changed',
                                'from': outs[a['ord']], 'to': [a['state'], a['output']]})
                outs[a['ord']] = (a['state'], json.dumps(a['output'], sort_keys=True))
            prev[a['ord']] = a['accepted']
    return bad


def finished_frozen(tr):
    """C03/C11: once a workflow is finished its state and output are not altered (absent rerun)."""
    bad = []
    fin = {}
    for desc, s in tr.events:
        if s is None:
            continue
        if desc[0] == 'op' and desc[1] in ('rerun', 'skip'):
            fin = {}
        for w in s['wfs']:
            cur = (w['state'], json.dumps(w['output'], sort_keys=True))
            if w['ord'] in fin and fin[w['ord']] != cur:
                bad.append({'wf': w['ord'], 'from': fin[w['ord']], 'to': cur, 'event': desc})
                fin[w['ord']] = cur
            elif w['state'] in FINAL and w['ord'] not in fin:
                fin[w['ord']] = cur
    return bad


def creations(tr):
    """yields (event desc, snapshot before, task row) for every task row creation"""
    seen = set()
    prev = None
    for desc, s in tr.events:
        if s is None:
            continue
        for t in s['tasks']:
            if t['ord'] not in seen:
                seen.add(t['ord'])
                yield desc, prev, t
        prev = s


def created_while(tr, wf_states):
    """C10/C11: task rows created while the committed state of their workflow was in wf_states."""
    bad = []
    for desc, before, t in creations(tr):
        if before is None:
            continue
        if desc[0] == 'op' and desc[1] in ('resume', 'rerun', 'skip'):
            continue      # the operation that ends the paused / finished period itself
        st = {w['ord']: w['state'] for w in before['wfs']}.get(t['wf'])
        if st in wf_states:
            bad.append({'task': t['name'], 'wf': t['wf'], 'wf_state_before': st, 'event': desc})
    return bad


def join_checks(tr, prog):
    """C04: one row per join; a join leaves WAITING for RUNNING only when the required number of
    inbound tasks have completed and routed to it (read on the committed snapshot)."""
    bad = []
    g = {t['name']: t for t in prog['tasks']}
    inbound = {n: [] for n in g}
    for t in prog['tasks']:
        for n in set(wfgen.out_names(prog, t)):
            if n in inbound:
                inbound[n].append(t['name'])
    started = set()
    starts = {}
    last_state = {}
    for desc, s in tr.events:
        if s is None:
            continue
        per = {}
        for t in s['tasks']:
            if t['wf'] != s['wfs'][0]['ord']:
                continue
            per.setdefault(t['name'], []).append(t)
        for name, rows in per.items():
            tk = g.get(name)
            if not tk or tk.get('join') is None:
                continue
            if len(rows) > 1 and not prog.get('cyclic'):
                bad.append({'join': name, 'what': 'more than one execution of a join', 'event': desc})
            for r in rows:
                if last_state.get(r['ord'], 'WAITING') == 'WAITING' and r['state'] == 'RUNNING':
                    starts[r['ord']] = starts.get(r['ord'], 0) + 1
                    if starts[r['ord']] == 2 and not prog.get('cyclic'):
                        bad.append({'join': name, 'what': 'join started more than once', 'event': desc})
                last_state[r['ord']] = r['state']
                if r['state'] not in ('WAITING',) and r['ord'] not in started:
                    started.add(r['ord'])
                    if r['state'] == 'ERROR' and not [a for a in s['actions'] if a['task'] == r['ord']]:
                        continue        # failed as unreachable: checked by the model stream
                    need = tk['join']
                    ins = inbound[name]
                    routed = 0
                    for i in ins:
                        for ir in per.get(i, []):
                            if ir['state'] in COMPLETED and any(nt[0] == name for nt in ir['next_tasks']):
                                routed += 1
                                break
                    needn = len(ins) if need == 'all' else (1 if need == 'one' else need)
                    if ins and routed < needn:
                        bad.append({'join': name, 'what': 'join started early', 'routed': routed,
                                    'need': needn, 'state': r['state'], 'event': desc})
        acts = {}
        for a in s['actions']:
            acts.setdefault(a['task'], []).append(a)
    return bad


def action_counts(tr, prog):
    """C06/C10: a task without retry / with-items dispatches its action once (per activation)"""
    bad = []
    sp = {t['name']: t for t in prog['tasks']}
    cnt = {}
    for a in tr.final['actions']:
        cnt[a['task']] = cnt.get(a['task'], 0) + 1
    for t in tr.final['tasks']:
        s = sp.get(t['name'], {})
        if s.get('retry') or s.get('with_items') is not None:
            continue
        if cnt.get(t['ord'], 0) > 1:
            bad.append({'task': t['name'], 'actions': cnt[t['ord']]})
    return bad


_ID = None


def scrub(x):
    """ids inside messages (task_ex_id=..., action_ex_id=...) are not part of the outcome"""
    global _ID
    import re
    if _ID is None:
        _ID = re.compile(r'[0-9a-f]{8}-0000-4000-8000-[0-9a-f]{12}')
    return json.loads(_ID.sub('ID', json.dumps(x)))


def outcome(snap, root_ord=None):
    """The observable outcome of a run: (state, sorted task (name,state,published), output)."""
    snap = scrub(snap)
    w = snap['wfs'][0]
    tasks = sorted([[t['name'], t['state'], t['published']] for t in snap['tasks'] if t['wf'] == w['ord']],
                   key=lambda x: json.dumps(x, sort_keys=True))
    out = strip_internal(w['output'])
    if w['state'] in ('ERROR', 'CANCELLED') and isinstance(out, dict) and 'result' in out:
        # the diagnostic message of a failed / cancelled run (which tasks were known to block a join
        # at the moment it failed, tracebacks, ids) is not part of the prescribed outcome
        out = dict(out, result='<message>')
    return {'state': w['state'], 'tasks': tasks, 'output': out}


def strip_internal(ctx):
    if not isinstance(ctx, dict):
        return ctx
    return {k: v for k, v in ctx.items() if k not in ('__task_execution', '__execution', 'openstack', '__versions')}
