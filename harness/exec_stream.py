"""Stream `executor` (C06): the REAL DefaultExecutor.run_action/_do_run_action with a scripted engine
client and scripted mistral_lib actions over the ENTIRE finite cross-product of the decision table,
compared with Mistral.Executor.doRunAction (Lean driver), plus the statement monitor; and the
derivation of `redelivered` in ExecutorServer.run_action.
"""
import itertools
import time

BEHS = ['okResult', 'errResult', 'cancelResult', 'plainValue', 'raises', 'timesOut', 'timesOutRaises']
OUTCOMES = ['ok', 'mistralExc', 'otherExc']
TIMEOUT = 0.01      # seconds, for the timesOut* behaviours
SLEEP = 0.05


def all_cases():
    for (red, safe, beh, sync, idp, c1, c2) in itertools.product(
            [False, True], [False, True], BEHS, [False, True], [False, True], OUTCOMES, OUTCOMES):
        yield {'redelivered': red, 'safeRerun': safe, 'beh': beh, 'isSync': sync, 'idPresent': idp,
               'c1': c1, 'c2': c2}


def _kind(result):
    if result.is_cancel():
        return 'cancel'
    return 'error' if result.is_error() else 'ok'


class ScriptedClient(object):
    """engine client whose n-th on_action_complete call does what the script says"""

    def __init__(self, outcomes):
        self.outcomes = list(outcomes)
        self.calls = []

    def on_action_complete(self, action_ex_id, result, wf_action=False, async_=False):
        from mistral import exceptions as exc
        i = len(self.calls)
        oc = self.outcomes[i] if i < len(self.outcomes) else 'ok'
        self.calls.append([_kind(result), oc])
        if oc == 'mistralExc':
            raise exc.MistralException('scripted client failure')
        if oc == 'otherExc':
            raise RuntimeError('scripted client failure')
        return None

    def __getattr__(self, name):
        raise AttributeError('ScriptedClient: unexpected engine client call %s' % name)


def scripted_action(beh, is_sync, log):
    from mistral_lib import actions as ml

    class Scripted(ml.Action):
        def run(self, context):
            log.append('run')
            if beh == 'okResult':
                return ml.Result(data={'v': 1})
            if beh == 'errResult':
                return ml.Result(error='scripted error')
            if beh == 'cancelResult':
                return ml.Result(error='scripted cancel', cancel=True)
            if beh == 'plainValue':
                return {'plain': True}
            if beh == 'raises':
                raise RuntimeError('scripted raise')
            if beh == 'timesOut':
                time.sleep(SLEEP)
                return ml.Result(data='late')
            if beh == 'timesOutRaises':
                time.sleep(SLEEP)
                raise RuntimeError('scripted late raise')
            raise AssertionError(beh)

        def is_sync(self):
            return is_sync

    return Scripted()


def make_executor(client):
    from mistral.executors import default_executor
    ex = object.__new__(default_executor.DefaultExecutor)
    ex._engine_client = client
    return ex


EXEC_CTX = {'workflow_execution_id': 'wf-1', 'task_execution_id': 't-1', 'workflow_name': 'wf',
            'action_execution_id': 'a-1', 'callback_url': '/v2/action_executions/a-1'}


def run_impl(case, idx=0):
    """one real run; returns the canonical observation (same shape as the model's answer)"""
    from mistral import exceptions as exc
    from mistral_lib import actions as ml
    from mistral import context as auth_context
    from mistral.tests.unit import base as tbase
    auth_context.set_ctx(tbase.get_context())
    log = []
    client = ScriptedClient([case['c1'], case['c2']])
    ex = make_executor(client)
    action = scripted_action(case['beh'], case['isSync'], log)
    if case['beh'].startswith('timesOut'):
        timeout = TIMEOUT
    else:
        timeout = None if idx % 2 == 0 else 5
    action_ex_id = 'a-1' if case['idPresent'] else None
    try:
        r = ex.run_action(action, action_ex_id, case['safeRerun'], dict(EXEC_CTX),
                          redelivered=case['redelivered'], timeout=timeout)
        if r is None:
            ret = 'none'
        elif isinstance(r, ml.Result):
            ret = 'result:' + _kind(r)
        else:
            ret = 'other:' + type(r).__name__
    except exc.MistralException:
        ret = 'raisedMistral'
    except Exception:
        ret = 'raisedOther'
    ran = len(log)
    delivered = [c[0] for c in client.calls if c[1] == 'ok']
    if case['idPresent']:
        reports = delivered
    else:
        reports = [ret.split(':')[1]] if ret.startswith('result:') else []
    return {'ran': ran > 0, 'calls': client.calls, 'ret': ret, 'reports': reports}, ran


def monitor(case, obs, ran_count):
    """the property statement read directly on one run; returns list of (what, signature)"""
    hits = []
    calls = obs['calls']
    if case['redelivered'] and not case['safeRerun']:
        if ran_count:
            hits.append(('redelivered request for an action not marked safe_rerun was RUN',
                         {'kind': 'executor-unsafe-redelivery-ran'}))
        if case['idPresent']:
            ok = len(calls) == 1 and calls[0][0] == 'error'
        else:
            ok = len(calls) == 0 and obs['ret'] == 'result:error'
        if not ok:
            hits.append(('unsafe redelivery did not report exactly one error: calls=%s ret=%s' % (calls, obs['ret']),
                         {'kind': 'executor-unsafe-redelivery-report'}))
    if ran_count > 1:
        hits.append(('action.run called %d times' % ran_count, {'kind': 'executor-ran-twice'}))
    delivered = [c for c in calls if c[1] == 'ok']
    if len(delivered) > 1:
        hits.append(('executor reported %d results for one action: %s' % (len(delivered), calls),
                     {'kind': 'executor-more-than-one-result'}))
    if len(obs['reports']) > 1:
        hits.append(('caller sees %d reports' % len(obs['reports']), {'kind': 'executor-more-than-one-result'}))
    if not case['idPresent'] and calls:
        hits.append(('engine client called without an action execution id', {'kind': 'executor-call-without-id'}))
    return hits


def run(ctx):
    from harness import boot
    boot.boot()
    drv = ctx.driver()
    cases = list(all_cases())
    outs = drv.batch('executor.run', cases)
    for idx, (case, mo) in enumerate(zip(cases, outs)):
        obs, ran_count = run_impl(case, idx)
        unsafe = case['redelivered'] and not case['safeRerun']
        ctx.evaluated('executor', case, nontrivial=unsafe or len(obs['calls']) > 0)
        ctx.count('executor', 'calls:%d' % len(obs['calls']))
        ctx.count('executor', 'ret:' + obs['ret'])
        if unsafe:
            ctx.count('executor', 'unsafe-redelivery')
        if len(obs['calls']) == 2:
            ctx.count('executor', 'second-call-after-MistralException')
        if idx % 170 == 0:
            ctx.sample({'stream': 'executor', 'case': case, 'impl': obs, 'model': mo})
        if mo != obs:
            ctx.disagree('executor', case, mo, obs)
        for what, sig in monitor(case, obs, ran_count):
            ctx.violation('executor: ' + what, {'stream': 'executor', 'case': case, 'impl': obs}, sig)
    try:
        ctx.cov['exhaustive'] = True
        ctx.cov['exhaustive_note'] = 'stream executor enumerates the whole cross-product (%d cases)' % len(cases)
    except AttributeError:
        pass
    run_server(ctx)


class _RecordingExecutor(object):
    def __init__(self):
        self.seen = []

    def run_action(self, action, action_ex_id, safe_rerun, exec_ctx, redelivered=False, target=None,
                   async_=True, timeout=None):
        self.seen.append(redelivered)
        return None


def server_flag(value, missing=False):
    """what ExecutorServer.run_action passes as `redelivered` when the context dict that came with
    the message has redelivered=value (or no such key)"""
    from mistral import context as auth_context
    from mistral.executors import executor_server
    from mistral.tests.unit import base as tbase
    ser = auth_context.RpcContextSerializer()
    d = ser.serialize_context(tbase.get_context())
    if missing:
        d.pop('redelivered', None)
    else:
        d['redelivered'] = value
    rpc_ctx = ser.deserialize_context(d)
    rec = _RecordingExecutor()
    srv = executor_server.ExecutorServer(rec, setup_profiler=False)
    srv.run_action(rpc_ctx, None, 'a-1', False, dict(EXEC_CTX), None)
    return rec.seen


def run_server(ctx):
    """ExecutorServer.run_action: `redelivered = rpc_ctx.redelivered or False` where rpc_ctx is the
    MistralContext deserialised from the context dict the SENDER serialised."""
    from mistral import context as auth_context
    from mistral.tests.unit import base as tbase
    drv = ctx.driver()
    for value, missing in ((True, False), (False, False), (None, False), (None, True)):
        seen = server_flag(value, missing)
        mo = drv.call('executor.serverRedelivered', {'value': value})
        ctx.evaluated('executor-server', [value, missing], nontrivial=True)
        if seen != [mo]:
            ctx.disagree('executor-server', {'ctx_redelivered': value, 'missing': missing}, [mo], seen)
        # composition with the real executor: unsafe action must not run iff the flag is set
        from mistral.executors import executor_server
        for safe in (False, True):
            log = []
            client = ScriptedClient(['ok', 'ok'])
            ex = make_executor(client)
            ser = auth_context.RpcContextSerializer()
            d = ser.serialize_context(tbase.get_context())
            if missing:
                d.pop('redelivered', None)
            else:
                d['redelivered'] = value
            rpc_ctx = ser.deserialize_context(d)
            srv = executor_server.ExecutorServer(ex, setup_profiler=False)
            srv.run_action(rpc_ctx, scripted_action('okResult', True, log), 'a-1', safe, dict(EXEC_CTX), None)
            ctx.evaluated('executor-server', [value, missing, safe], nontrivial=True)
            if value is True and not safe:
                if log or [c[0] for c in client.calls] != ['error']:
                    ctx.violation('executor server: redelivered unsafe request was run or not answered with one error',
                                  {'stream': 'executor-server', 'value': value, 'safe': safe, 'calls': client.calls},
                                  {'kind': 'executor-unsafe-redelivery-ran'})
            elif log != ['run'] or [c[0] for c in client.calls] != ['ok']:
                ctx.disagree('executor-server', {'ctx_redelivered': value, 'missing': missing, 'safe': safe},
                             {'ran': True, 'calls': ['ok']}, {'ran': bool(log), 'calls': client.calls})
    auth_context.set_ctx(tbase.get_context())
