"""Stream `core`: the real engine vs Mistral.Engine (L5) step by step.

For every delivered item of the real run the corresponding model event is built, and after
EVERY event the committed rows (workflow state; per task: state, processed, has_next,
error_handled, next_tasks) and the multiset of pending deliveries are compared.
Programs: data-free direct workflows (guards are literal true/false, actions noop/fail, no
policies / engine commands): the fragment Mistral.Engine models."""
import json
import random

from harness import engine_run as er
from harness import wfgen


def add_engine_commands(rng, prog, p_cmd):
    """engine commands in on-clauses: fail / succeed / noop / pause as first, middle or last element of a
    clause; `pause` preferably with targets after it (they go to the command backlog); at most one
    pause per clause (two pauses in one list: RunExistingTask commands saved to the backlog, not modelled)"""
    for t in prog['tasks']:
        if rng.random() >= p_cmd:
            continue
        cl = rng.choice(['on_success', 'on_success', 'on_error', 'on_complete'])
        routes = t[cl]
        cmd = rng.choice(['pause', 'pause', 'pause', 'fail', 'succeed', 'noop'])
        if any(r['to'] in wfgen.ENGINE_CMDS for r in routes):
            continue
        if cmd == 'pause' and routes:
            pos = rng.randint(0, len(routes) - 1) if rng.random() < 0.8 else len(routes)
        else:
            pos = rng.randint(0, len(routes))
        routes.insert(pos, {'to': cmd, 'guard': None if rng.random() < 0.85 else ['lit', rng.choice([True, False])]})
    return prog


def gen_pause_backlog(rng):
    """directed shape: a task completes with `on-success: [pause, x…]` while another branch still has work in
    flight (the commands after `pause` are saved to the backlog; a stop while PAUSED + the late result of the
    other branch poll the backlog in a stopped workflow)"""
    def task(n, succ=(), err=(), join=None, action='noop'):
        return {'name': n, 'action': [action], 'join': join,
                'on_success': [{'to': x, 'guard': None} for x in succ],
                'on_error': [{'to': x, 'guard': None} for x in err], 'on_complete': []}
    after = rng.choice([['x'], ['x', 'y'], ['x', 'fail'], ['noop', 'x']])
    tasks = [task('a', succ=['pause'] + after), task('b', succ=rng.choice([[], ['c'], ['j']]))]
    names = set(n for n in after if n not in wfgen.ENGINE_CMDS)
    for n in sorted(names):
        tasks.append(task(n, succ=['j'] if rng.random() < 0.3 else []))
    used = set(r['to'] for t in tasks for r in t['on_success'])
    if 'c' in used:
        tasks.append(task('c'))
    if 'j' in used:
        tasks.append(task('j', join=rng.choice(['all', 'one'])))
    return {'name': 'wf', 'type': 'direct', 'tasks': tasks}


def gen_core_program(rng, p_partial=0.15, p_cmd=0.0):
    if p_cmd and rng.random() < 0.25:
        return gen_pause_backlog(rng)
    prog = wfgen.gen_dag(rng, p_cycle=0.0, p_defaults=0.2, p_cmd=0.0)
    for t in prog['tasks']:
        if rng.random() < 0.12:
            t['action'] = ['fail']
        for cl in ('on_success', 'on_error', 'on_complete'):
            for r in t[cl]:
                if rng.random() < 0.2:
                    r['guard'] = ['lit', rng.choice([True, False, False])]
    d = prog.get('defaults')
    if d:
        for cl in ('on_success', 'on_error', 'on_complete'):
            for r in d.get(cl) or []:
                if rng.random() < 0.2:
                    r['guard'] = ['lit', rng.choice([True, False])]
    prog = wfgen.make_single_activation(prog)
    # a partial join that late branches re-run (known finding) duplicates its successors: keep
    # partial joins only where they have no successor (single activation of everything else)
    rc = wfgen.route_counts(prog)
    for t in prog['tasks']:
        j = t.get('join')
        if j is not None and j != 'all' and wfgen.out_names(prog, t):
            t['join'] = 'all'
    if p_cmd:
        add_engine_commands(rng, prog, p_cmd)
    return prog


def spec_json(prog):
    def rts(rs):
        return [{'to': r['to'], 'fires': (r.get('guard') is None or r['guard'][1] is True)} for r in (rs or [])]
    d = prog.get('defaults')
    return {
        'graph': wfgen.graph_json(prog),
        'routes': [{'name': t['name'], 'onSuccess': rts(t.get('on_success')), 'onError': rts(t.get('on_error')),
                    'onComplete': rts(t.get('on_complete'))} for t in prog['tasks']],
        'routeDefaults': None if not d else {'name': '', 'onSuccess': rts(d.get('on_success')),
                                             'onError': rts(d.get('on_error')), 'onComplete': rts(d.get('on_complete'))},
    }


class Mapper(object):
    def __init__(self, world):
        self.w = world

    def tid(self, task_id):
        """(name, occurrence): the k-th execution with that name in creation order"""
        from mistral.db.v2 import api as db_api
        o = self.w.id_ord
        with db_api.transaction(read_only=True):
            t = db_api.load_task_execution(task_id)
            if t is None:
                return None
            same = sorted(db_api.get_task_executions(workflow_execution_id=t.workflow_execution_id, name=t.name),
                          key=lambda x: o.get(x.id, 0))
            return {'t': t.name, 'occ': [x.id for x in same].index(t.id)}

    def action_tid(self, action_id):
        from mistral.db.v2 import api as db_api
        with db_api.transaction(read_only=True):
            a = db_api.load_action_execution(action_id)
            tid = a.task_execution_id if a else None
        return self.tid(tid) if tid else None

    def op_item(self, op):
        func, args, in_tx = op
        name = getattr(func, '__name__', '')
        if name == '_start_task':
            task = func.__defaults__[0]
            return dict(self.tid(task.task_ex.id) or {'t': None}, k='postStartTask', firstRun=bool(func.__defaults__[1]))
        if name == '_run_action':
            for c in func.__closure__ or ():
                o = c.cell_contents
                if hasattr(o, 'task_ex') and hasattr(o, 'action_ex'):
                    return dict(self.tid(o.task_ex.id) or {'t': None}, k='postRunAction')
            for c in func.__closure__ or ():
                o = c.cell_contents
                # repo patch 22: the operation captures the execution context instead of the action object
                if isinstance(o, dict) and 'task_execution_id' in o:
                    return dict(self.tid(o['task_execution_id']) or {'t': None}, k='postRunAction')
            return None
        if name == '_check':
            return {'k': 'postCheck'}
        if name == '_schedule_refresh_task_state_if_needed':
            return dict(self.tid(args[0]) or {'t': None}, k='postSchedRefresh')
        return None

    def item(self, it):
        kind, x = it
        if kind == 'job':
            if x.func_name.endswith('_refresh_task_state'):
                return dict(self.tid(x.func_args['task_ex_id']) or {'t': None}, k='jobRefresh')
            return None
        if x.kind == 'posttx':
            return self.op_item(x.data[0])
        if x.kind == 'rpc':
            m = x.data['method']
            kw = x.data['kwargs']
            if m == 'start_task':
                return dict(self.tid(kw['task_ex_id']) or {'t': None}, k='rpcStartTask', firstRun=bool(kw['first_run']))
            if m == 'on_action_complete' and not kw.get('wf_action'):
                return dict(self.action_tid(kw['action_ex_id']) or {'t': None}, k='rpcResult', ok=bool(kw['result'].is_success()))
            return None
        if x.kind == 'action':
            return dict(self.action_tid(x.data['action_ex_id']) or {'t': None}, k='runAction')
        return None

    def pending_strs(self):
        res = []
        for p in self.w.pending:
            if p.kind == 'posttx':
                for op in p.data:
                    res.append(fmt(self.op_item(op)))
            else:
                res.append(fmt(self.item(('p', p))))
        for j in self.w.jobs():
            if j.func_name.endswith('_check_and_fix_integrity'):
                continue
            res.append(fmt(self.item(('job', j))))
        return sorted(res)


def fmt(i):
    if i is None:
        return '?'
    k = i['k']
    if k == 'postCheck':
        return k
    t = '%s#%d' % (i['t'], i.get('occ', 0))
    if k in ('rpcStartTask', 'postStartTask'):
        return '%s:%s:%s' % (k, t, 'true' if i['firstRun'] else 'false')
    if k == 'rpcResult':
        return '%s:%s:%s' % (k, t, 'true' if i['ok'] else 'false')
    return '%s:%s' % (k, t)


def real_obs(world, mapper):
    s = world.snapshot()
    w = s['wfs'][0]
    occ = {}
    rows = []
    for t in s['tasks']:          # creation order
        k = occ.get(t['name'], 0)
        occ[t['name']] = k + 1
        rows.append(['%s#%d' % (t['name'], k), t['state'], t['processed'], t['has_next'], t['error_handled'],
                     sorted(t['next_tasks'])])
    return {
        'wf': w['state'],
        'tasks': sorted(rows),
        'pending': mapper.pending_strs(),
        'backlog': w['backlog'],
    }


def model_obs(o):
    return {
        'wf': o['wf'],
        'tasks': sorted([[t[0], t[1], t[2], t[3], t[4], sorted(t[5])] for t in o['tasks']]),
        'pending': sorted(o['pending']),
        'backlog': len(o['backlog']),
    }


def run_case(ctx, prog, table, policy, seed, ops=None, max_steps=300, id_mode='random'):
    """returns (events, real observations, trace-like dict) or None if the definition is rejected"""
    from harness.engine_driver import EngineWorld
    w = EngineWorld(seed=seed, id_mode=id_mode)
    y = wfgen.render_yaml(prog)
    w.create_workflows(y)
    rng = random.Random(seed)
    oracle = er.Oracle(table)
    mapper = Mapper(w)
    root = w.start_workflow('wf', {})
    events = [{'ev': 'start'}]
    robs = [real_obs(w, mapper)]
    cond_ops = [o for o in (ops or []) if 'when' in o]
    ops = sorted([o for o in (ops or []) if 'when' not in o], key=lambda o: o['at'])
    oi = 0
    step = 0
    unsupported = None
    while step < max_steps:
        # conditional operator commands: stop as soon as commands sit in the backlog of a PAUSED workflow
        for o in cond_ops:
            if not o.get('done') and robs[-1]['wf'] == 'PAUSED' and robs[-1]['backlog'] > 0:
                o['done'] = True
                w.op('stop_workflow', root, o['state'], 'msg')
                events.append({'ev': 'stop', 'state': o['state']})
                robs.append(real_obs(w, mapper))
        while oi < len(ops) and ops[oi]['at'] <= step:
            o = ops[oi]
            oi += 1
            if o['op'] == 'pause':
                w.op('pause_workflow', root)
                events.append({'ev': 'pause'})
            elif o['op'] == 'resume':
                w.op('resume_workflow', root)
                events.append({'ev': 'resume'})
            elif o['op'] == 'stop':
                w.op('stop_workflow', root, o['state'], 'msg')
                events.append({'ev': 'stop', 'state': o['state']})
            robs.append(real_obs(w, mapper))
        en = [e for e in w.enabled() if not (e[0] == 'job' and e[1].func_name.endswith('_check_and_fix_integrity'))]
        if not en:
            if oi < len(ops):
                ops[oi]['at'] = step
                continue
            break
        it = er.pick(rng, policy, en)
        mi = mapper.item(it)
        if mi is None or mi.get('t', 'x') is None:
            unsupported = w.describe(it)
            break
        if it[0] == 'p' and it[1].kind == 'action':
            npend = len(w.pending)
            w.deliver(it, oracle=oracle)
            # the executor's answer: the newest rpc on_action_complete
            res = [p for p in w.pending if p.kind == 'rpc' and p.data['method'] == 'on_action_complete']
            ok = bool(res[-1].data['kwargs']['result'].is_success()) if res else True
            events.append({'ev': 'execute', 't': mi['t'], 'occ': mi.get('occ', 0), 'ok': ok})
        else:
            w.deliver(it, oracle=oracle)
            events.append({'ev': 'deliver', 'item': mi})
        robs.append(real_obs(w, mapper))
        step += 1
    return {'yaml': y, 'events': events, 'real': robs, 'unsupported': unsupported,
            'errors': list(w.errors), 'exhausted': step >= max_steps}


FINAL = ('SUCCESS', 'ERROR', 'CANCELLED')


def monitor_creation(ctx, events, robs, replay_obj):
    """Direct reading of C11 / C10 on the REAL observations (independent of the model): no task execution is created
    once the workflow is in a final state; none while it is PAUSED except by `resume`."""
    for k in range(1, min(len(events), len(robs))):
        before, after = robs[k - 1], robs[k]
        ids0 = set(t[0] for t in before['tasks'])
        new = sorted(t[0] for t in after['tasks'] if t[0] not in ids0)
        if not new:
            continue
        joins = set(t['name'] for t in replay_obj.get('prog', {}).get('tasks', []) if t.get('join') is not None)
        idle_joins = sorted(t[0] for t in after['tasks'] if t[0] in new and t[1] == 'IDLE' and t[0].split('#')[0] in joins)
        if idle_joins:
            # C04: a join starts only after its inbound tasks; an IDLE execution of a join is started like any task
            ctx.count('core', 'hit:join-created-idle')
            ctx.violation('C04 monitor: execution(s) %s of a JOIN task created IDLE (not WAITING): it starts without its '
                          'join condition being checked (event %d: %s)' % (idle_joins, k, json.dumps(events[k])),
                          dict(replay_obj, stream='core', step=k),
                          {'kind': 'join-created-idle', 'via': 'command-restored-from-backlog'})
        if before['wf'] in FINAL:
            ctx.count('core', 'hit:task-created-after-final')
            ctx.violation('C11 monitor: task execution(s) %s created in a workflow that was already %s (event %d: %s)' % (
                new, before['wf'], k, json.dumps(events[k])), dict(replay_obj, stream='core', step=k),
                {'kind': 'task-created-after-final', 'stream': 'core'})
            return
        if before['wf'] == 'PAUSED' and events[k].get('ev') != 'resume':
            ctx.count('core', 'hit:task-created-while-paused')
            ctx.violation('C10 monitor: task execution(s) %s created while the workflow was PAUSED (event %d: %s)' % (
                new, k, json.dumps(events[k])), dict(replay_obj, stream='core', step=k),
                {'kind': 'task-created-while-paused', 'stream': 'core'})
            return


def replay_events(prog, evs, seed=1, id_mode='random'):
    """replay a model event list on the real engine WITHOUT the model: real observations after every event"""
    from harness import live_replay as lr
    from harness.engine_driver import EngineWorld
    w = EngineWorld(seed=seed, id_mode=id_mode)
    w.create_workflows(wfgen.render_yaml(prog))
    mapper = Mapper(w)
    root = None
    robs = []

    def enabled():
        return [e for e in w.enabled() if not (e[0] == 'job' and e[1].func_name.endswith('_check_and_fix_integrity'))]
    done = []
    for e in evs:
        if e['ev'] == 'start':
            root = w.start_workflow('wf', {})
        elif e['ev'] == 'pause':
            w.op('pause_workflow', root)
        elif e['ev'] == 'resume':
            w.op('resume_workflow', root)
        elif e['ev'] == 'stop':
            w.op('stop_workflow', root, e['state'], 'msg')
        else:
            want = fmt({'k': 'runAction', 't': e['t'], 'occ': e.get('occ', 0)}) if e['ev'] == 'execute' else fmt(e['item'])
            cand = [x for x in enabled() if fmt(mapper.item(x)) == want]
            if not cand:
                break
            ok = e.get('ok', True)
            w.deliver(cand[0], oracle=(lambda world, d, ok=ok: ('run', None) if ok else ('error', None)))
        done.append(e)
        robs.append(real_obs(w, mapper))
    return done, robs


def run_corpus(ctx):
    """corpus/core/*.json: model event lists (theorem witnesses / former misses) replayed on the real engine,
    rows + multiset of pending deliveries equal after every event"""
    import glob
    import os
    from vlib import core
    from harness import live_replay as lr
    for f in sorted(glob.glob(os.path.join(core.VERIF, 'corpus', 'core', '*.json'))):
        c = json.load(open(f))
        evs = lr.parse_events(c['events']) if c['events'] and isinstance(c['events'][0], str) else c['events']
        ctx.count('core', 'corpus')
        out = lr.replay(c['prog'], evs, drv=ctx.driver(), id_mode=c.get('id_mode', 'random'))
        ctx.evaluated('core', ['corpus', os.path.basename(f)], nontrivial=True)
        if not out['ok']:
            ctx.disagree('core', {'corpus': os.path.basename(f), 'prog': c['prog'], 'events': c['events'],
                                  'at': out['diverged_at']}, 'model event list', out['why'])
        done, robs = replay_events(c['prog'], evs, id_mode=c.get('id_mode', 'random'))
        monitor_creation(ctx, done, robs, {'corpus': os.path.basename(f), 'prog': c['prog'], 'events': c['events']})


def run_chunk(ctx, n_programs, mode='plain', p_cmd=0.3):
    drv = ctx.driver()
    rng = ctx.rng
    if getattr(ctx, 'chunk', 0) == 0:
        run_corpus(ctx)
    for i in range(n_programs):
        prog = gen_core_program(rng, p_cmd=p_cmd if rng.random() < 0.6 else 0.0)
        table = wfgen.gen_oracle_table(rng, prog, p_err=0.1)
        policy = rng.choice(['random', 'random', 'fifo', 'lifo'])
        seed = rng.getrandbits(32)
        ops = []
        if mode in ('pause', 'mixed') and rng.random() < (1.0 if mode == 'pause' else 0.4):
            k1 = rng.randint(0, 25)
            ops = [{'at': k1, 'op': 'pause'}, {'at': rng.choice([k1 + rng.randint(0, 15), 10 ** 6]), 'op': 'resume'}]
        if mode in ('stop', 'mixed') and rng.random() < (1.0 if mode == 'stop' else 0.3):
            ops.append({'at': rng.randint(0, 30), 'op': 'stop', 'state': rng.choice(['SUCCESS', 'ERROR', 'CANCELLED'])})
        has_pause = any(r['to'] == 'pause' for t in prog['tasks'] for cl in ('on_success', 'on_error', 'on_complete')
                        for r in t[cl])
        has_cmd = any(r['to'] in wfgen.ENGINE_CMDS for t in prog['tasks'] for cl in ('on_success', 'on_error', 'on_complete')
                      for r in t[cl])
        if has_pause:
            # a `pause` command needs an operator to go on: resume when nothing is deliverable (and once earlier)
            if rng.random() < 0.5:
                ops.append({'at': rng.randint(5, 40), 'op': 'resume'})
            ops += [{'at': 10 ** 6, 'op': 'resume'}, {'at': 10 ** 6 + 1, 'op': 'resume'}]
        if has_cmd:
            ctx.count('core', 'engine-commands')
        if has_pause and mode in ('stop', 'mixed') and rng.random() < 0.5:
            # stop while commands are waiting in the backlog (they must never be dispatched afterwards)
            ops = [o for o in ops if o['op'] != 'stop'] + [{'when': 'backlog', 'op': 'stop',
                                                             'state': rng.choice(['ERROR', 'CANCELLED'])}]
            ctx.count('core', 'op:stop-with-backlog')
        try:
            # a join restored from the backlog gets a second row: the join logic then reads "the latest row of a
            # task" = the row the database lists last; sequential ids make that the creation order (the model's)
            r = run_case(ctx, prog, table, policy, seed, ops=[dict(o) for o in ops],
                         id_mode='seq' if has_cmd else 'random')
        except Exception as e:
            from mistral import exceptions as exc
            if isinstance(e, exc.MistralException):
                ctx.count('core', 'rejected:' + type(e).__name__)
                continue
            raise
        if r['unsupported']:
            ctx.count('core', 'unsupported-item')
            continue
        mo = drv.call('engine.run', {'spec': spec_json(prog), 'events': r['events']})
        monitor_creation(ctx, r['events'], r['real'], {'prog': prog, 'oracle': table, 'policy': policy, 'seed': seed,
                                                       'ops': ops, 'id_mode': 'seq' if has_cmd else 'random'})
        ctx.count('core', 'policy:' + policy)
        ctx.count('core', 'events', len(r['events']))
        for o in ops:
            if 'when' not in o:
                ctx.count('core', 'op:' + o['op'])
        joins = any(t.get('join') is not None for t in prog['tasks'])
        ctx.evaluated('core', [r['yaml'], table, policy, seed, ops], nontrivial=joins or bool(ops))
        if isinstance(mo, dict) or isinstance(mo, str):
            ctx.disagree('core', {'yaml': r['yaml'], 'events': r['events']}, mo, 'model refused the input')
            continue
        for k, (m, real) in enumerate(zip(mo, r['real'])):
            if not m.get('stepAgrees', True):
                # command-free definition: the task-only core `step` must equal `stepX` up to the order of rows
                ctx.disagree('core', {'yaml': r['yaml'], 'step': k, 'event': r['events'][k]},
                             'Mistral.Engine.step differs from stepX on a definition without engine commands', m)
                break
            mm = model_obs(m)
            if mm != real:
                diff = {key: [mm[key], real[key]] for key in mm if mm[key] != real[key]}
                ctx.disagree('core', {'yaml': r['yaml'], 'oracle': table, 'policy': policy, 'seed': seed, 'ops': ops,
                                      'prog': prog, 'step': k, 'event': r['events'][k], 'events_so_far': r['events'][:k + 1]},
                             {k2: v[0] for k2, v in diff.items()}, {k2: v[1] for k2, v in diff.items()})
                break
        if ctx.rng.random() < 0.01:
            ctx.sample({'stream': 'core', 'yaml': r['yaml'], 'events': r['events'][:12], 'final': r['real'][-1]})


def replay(ctx, rep):
    """replay of a `core` violation: the recorded case is run again on the real engine and the monitors are read"""
    r = rep['replay']
    if 'events' in r and 'policy' not in r:
        from harness import live_replay as lr
        evs = lr.parse_events(r['events']) if r['events'] and isinstance(r['events'][0], str) else r['events']
        done, robs = replay_events(r['prog'], evs)
        print('replay: %d of %d events delivered; real final %s' % (len(done), len(evs), json.dumps(robs[-1])[:300]))
        monitor_creation(ctx, done, robs, {k: r[k] for k in ('corpus', 'prog', 'events') if k in r})
        return
    rr = run_case(ctx, r['prog'], r['oracle'], r['policy'], r['seed'], ops=[dict(o) for o in r['ops']],
                  id_mode=r.get('id_mode', 'random'))
    print('replay: real final %s' % json.dumps(rr['real'][-1])[:300])
    monitor_creation(ctx, rr['events'], rr['real'], {k: r[k] for k in ('prog', 'oracle', 'policy', 'seed', 'ops', 'id_mode') if k in r})
