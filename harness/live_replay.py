"""Replay of a MODEL event list (as printed by harness/live_explore.py or written by hand) on the
REAL engine: every model event is mapped to the enabled delivery of the real engine that it stands
for (harness/core_stream.Mapper), and after every event the committed rows and the multiset of
pending deliveries of the real engine are compared with the model's.  At the end the real world is
inspected: RUNNING with nothing deliverable (the periodic integrity check apart, which only looks
at RUNNING tasks) = the execution is stuck.

  replay(prog, events) -> {'ok': every event found + observations equal, 'diverged_at', 'why',
                           'final': real observation, 'stuck': bool, 'errors': [...]}
Event syntax of `parse_events`: start, pause, resume, stop:ERROR, execute:<t>#<occ>:T|F,
<item kind>:<t>#<occ>[:T|F]  (postStartTask / rpcStartTask carry first_run, rpcResult the outcome).
"""
import json
import os
import sys

sys.path.insert(0, os.path.dirname(os.path.dirname(os.path.abspath(__file__))))


def parse_event(s):
    p = s.split(':')
    k = p[0]
    if k in ('start', 'pause', 'resume'):
        return {'ev': k}
    if k == 'stop':
        return {'ev': 'stop', 'state': p[1]}
    t, occ = p[1].split('#') if len(p) > 1 else (None, 0)
    if k == 'execute':
        return {'ev': 'execute', 't': t, 'occ': int(occ), 'ok': p[2] == 'T'}
    it = {'k': k}
    if t is not None:
        it['t'] = t
        it['occ'] = int(occ)
    if k in ('postStartTask', 'rpcStartTask'):
        it['firstRun'] = p[2] == 'T'
    if k == 'rpcResult':
        it['ok'] = p[2] == 'T'
    return {'ev': 'deliver', 'item': it}


def parse_events(strs):
    return [parse_event(s) for s in strs]


def model_run(prog, events, drv=None):
    from vlib import core
    from harness import core_stream as cs
    drv = drv or core.Driver()
    return drv.call('engine.run', {'spec': cs.spec_json(prog), 'events': events})


def replay(prog, events, seed=1, compare=True, drv=None, drain=False, id_mode='random'):
    """drain=True: after the event list, the real engine is run to quiescence (oldest enabled delivery first,
    real actions); the deliveries are appended to the event list as model events and compared as well"""
    from harness import boot
    boot.boot()
    from harness import core_stream as cs
    from harness import wfgen
    from harness.engine_driver import EngineWorld
    mo = model_run(prog, events, drv) if compare else None
    # id_mode='seq': ids in creation order (the order in which rows are listed, e.g. the IDLE tasks on resume, whose
    # start requests are post-commit operations of ONE transaction and are delivered in that order)
    w = EngineWorld(seed=seed, id_mode=id_mode)
    w.create_workflows(wfgen.render_yaml(prog))
    mapper = cs.Mapper(w)
    root = None
    res = {'ok': True, 'diverged_at': None, 'why': None}

    def enabled():
        return [e for e in w.enabled() if not (e[0] == 'job' and e[1].func_name.endswith('_check_and_fix_integrity'))]

    for k, e in enumerate(events):
        if e['ev'] == 'start':
            root = w.start_workflow('wf', {})
        elif e['ev'] == 'pause':
            w.op('pause_workflow', root)
        elif e['ev'] == 'resume':
            w.op('resume_workflow', root)
        elif e['ev'] == 'stop':
            w.op('stop_workflow', root, e['state'], 'msg')
        else:
            if e['ev'] == 'execute':
                want = cs.fmt({'k': 'runAction', 't': e['t'], 'occ': e.get('occ', 0)})
            else:
                want = cs.fmt(e['item'])
            cand = [x for x in enabled() if cs.fmt(mapper.item(x)) == want]
            if not cand:
                res.update(ok=False, diverged_at=k, why='not deliverable in the real engine: %s (enabled: %s)' % (
                    want, sorted(cs.fmt(mapper.item(x)) for x in enabled())))
                break
            ok = e.get('ok', True)
            w.deliver(cand[0], oracle=(lambda world, d, ok=ok: ('run', None) if ok else ('error', None)))
        if compare:
            real = cs.real_obs(w, mapper)
            mm = cs.model_obs(mo[k])
            if mm != real:
                res.update(ok=False, diverged_at=k,
                           why={key: {'model': mm[key], 'real': real[key]} for key in mm if mm[key] != real[key]})
                break
    if drain and res['ok']:
        events = list(events)
        robs = []
        for _ in range(300):
            en = enabled()
            if not en:
                break
            it = en[0]
            mi = mapper.item(it)
            if mi is None or mi.get('t', 'x') is None:
                res.update(ok=False, diverged_at=len(events), why='unsupported delivery while draining: %s' % w.describe(it))
                break
            if it[0] == 'p' and it[1].kind == 'action':
                w.deliver(it, oracle=None)
                rs = [p for p in w.pending if p.kind == 'rpc' and p.data['method'] == 'on_action_complete']
                ok = bool(rs[-1].data['kwargs']['result'].is_success()) if rs else True
                events.append({'ev': 'execute', 't': mi['t'], 'occ': mi.get('occ', 0), 'ok': ok})
            else:
                w.deliver(it, oracle=None)
                events.append({'ev': 'deliver', 'item': mi})
            robs.append(cs.real_obs(w, mapper))
        if compare and res['ok'] and robs:
            mo2 = model_run(prog, events, drv)
            for k, real in enumerate(robs):
                mm = cs.model_obs(mo2[len(events) - len(robs) + k])
                if mm != real:
                    res.update(ok=False, diverged_at=len(events) - len(robs) + k,
                               why={key: {'model': mm[key], 'real': real[key]} for key in mm if mm[key] != real[key]})
                    break
        res['events'] = events
    final = cs.real_obs(w, mapper)
    res['final'] = final
    res['stuck'] = final['wf'] == 'RUNNING' and not enabled()
    res['errors'] = [{k2: str(v)[:200] for k2, v in x.items() if k2 in ('where', 'type', 'declared', 'msg')} for x in w.errors]
    return res


if __name__ == '__main__':
    # usage: live_replay.py <file.json with {"prog":…, "events":[…strings or objects…]}>
    rep = json.load(open(sys.argv[1]))
    evs = rep['events']
    if evs and isinstance(evs[0], str):
        evs = parse_events(evs)
    print(json.dumps(replay(rep['prog'], evs), indent=1, default=str))
