"""Stream `rerun` (C12): generated runs of the REAL engine that end in ERROR, then every kind of
rerun / skip of their failed tasks, compared step by step with Mistral.Rerun (Lean driver) and
judged by monitors that read the property statement directly.

One case = (programs, first-run failures, plan of rounds, schedule seed).  A round = at quiescence
pick an ERROR task, rerun it (reset on/off) or skip it through engine.rerun_workflow, deliver the
start_task message, compare, then run on under a random schedule.  After the rounds the final
outcome is compared with a REFERENCE run of the same programs in which the rerun tasks produce
their new results the first time.  All randomness comes from the case seed (replayable).
"""
import copy
import json
import random

from harness import engine_run as er
from harness.engine_driver import EngineWorld, FakeEngineClient

VARS = ['v0', 'v1', 'v2']
FINAL = ('SUCCESS', 'ERROR', 'CANCELLED')


# ============================================================================== world
class RestAwareClient(FakeEngineClient):
    """engine client seen by the REST controller: records rerun_workflow calls"""

    def rerun_workflow(self, task_ex_id, reset=True, skip=False, env=None):
        self.w.rest_calls.append({'task': task_ex_id, 'reset': reset, 'skip': skip, 'env': env})
        return None


class RerunWorld(EngineWorld):
    """EngineWorld + tolerance for scheduler jobs that the engine itself made unusable.

    Workflow._recursive_rerun schedules an integrity-check job and then takes the parent
    workflow's lock; acquire_lock() does session.expire_all(), which expires the ScheduledJob
    object the DefaultScheduler keeps in memory; after the commit that object is detached and any
    attribute access raises DetachedInstanceError.  The real dispatcher thread would fail on it
    (and never drop it from in_memory_jobs); the shared driver's jobs() would crash on it.  Here
    such jobs are never deliverable; `forget_broken()` models the usual real-life outcome (the
    dispatcher popped the delay-0 job before the commit, could not capture it, forgot it)."""

    def _reset(self):
        super(RerunWorld, self)._reset()
        self.engine_client = RestAwareClient(self)
        self.rest_calls = []

    _validated = 0

    def create_workflows(self, yaml_text, namespace=''):
        """schema validation of a generated definition costs ~5 s (jsonschema); the definitions of this
        stream come from one generator, so only the first few of every process are validated (the REST layer
        does validate; the engine never re-validates a stored definition)"""
        from mistral.services import workflows as wf_service
        from oslo_config import cfg
        cfg.CONF.set_override('validation_mode', 'enabled', group='api')     # default: 'mandatory'
        RerunWorld._validated += 1
        return wf_service.create_workflows(yaml_text, namespace=namespace,
                                           validate=RerunWorld._validated <= 2)

    def broken_jobs(self):
        bad = []
        for k, j in list(self.scheduler.in_memory_jobs.items()):
            try:
                j.id, j.key, j.execute_at, j.func_name
            except Exception:
                bad.append(k)
        return bad

    def jobs(self):
        bad = set(self.broken_jobs())
        good = [j for k, j in list(self.scheduler.in_memory_jobs.items()) if k not in bad]
        return sorted(good, key=lambda j: self.id_ord.get(j.id, 0))

    def forget_broken(self):
        n = 0
        for k in self.broken_jobs():
            self.scheduler.in_memory_jobs.pop(k, None)
            n += 1
        return n


_APP = None


def rest_app(world):
    """pecan test application (as mistral/tests/unit/api/base.py builds it), once per process"""
    global _APP
    if _APP is None:
        import pecan.testing
        from unittest import mock
        from oslo_config import cfg
        from mistral.api import app as pecan_app
        cfg.CONF.set_override('auth_enable', False, group='pecan')
        cfg.CONF.set_override('enabled', False, group='cron_trigger')
        app = pecan.testing.load_test_app(dict(pecan_app.get_pecan_config()))
        p = mock.patch('mistral.context.MistralContext.from_environ')
        m = p.start()
        _APP = (app, m)
    _APP[1].return_value = world.ctx
    return _APP[0]


# ============================================================================== oracle
class Oracle(object):
    """(task name, item index, k-th execution of that item) -> verdict; default: run the action"""

    def __init__(self, table=None):
        self.table = dict(table or {})
        self.seen = {}

    def __call__(self, world, d):
        from mistral.db.v2 import api as db_api
        with db_api.transaction(read_only=True):
            a = db_api.load_action_execution(d['action_ex_id'])
            if a is None or not a.task_execution:
                return ('run', None)
            tname = a.task_execution.name
            idx = (a.runtime_context or {}).get('index', 0) or 0
        k = self.seen.get((tname, idx), 0)
        self.seen[(tname, idx)] = k + 1
        v = self.table.get((tname, idx, k)) or ['run']
        return (v[0], v[1] if len(v) > 1 else None)


def table_to_json(t):
    return sorted([[k[0], k[1], k[2], v] for k, v in t.items()])


def table_from_json(l):
    return {(a, b, c): v for a, b, c, v in l}


# ============================================================================== programs
def lit_yaql(v):
    from harness import wfgen
    return wfgen._yaql_lit(v)


def gen_wf(rng, name, prefix, level, sub_name):
    n = rng.randint(2, 4)
    tasks = []
    for i in range(n):
        r = rng.random()
        kind = 'plain'
        if r < 0.28:
            kind = 'items'
        elif r < 0.45:
            kind = 'retry'
        t = {'name': '%s%d' % (prefix, i), 'kind': kind, 'join': None, 'publish': {}, 'publish_on_error': {},
             'publish_on_skip': {}, 'on_success': [], 'on_error': [], 'on_complete': [], 'on_skip': []}
        if kind == 'items':
            t['items'] = [rng.randint(1, 9) for _ in range(rng.randint(2, 4))]
            t['concurrency'] = rng.choice([None, None, None, 1, 2])
        if kind == 'retry':
            t['retry'] = rng.randint(1, 2)
        if kind == 'plain':
            t['value'] = rng.choice([1, 2, 'a', 'b'])
        tasks.append(t)
    if sub_name is not None:
        k = rng.randrange(n)
        tasks[k].update({'kind': 'sub', 'sub': sub_name})
        for x in ('items', 'concurrency', 'retry', 'value'):
            tasks[k].pop(x, None)
    # forward edges through on-success; >= 2 inbound -> join: all
    inbound = {t['name']: 0 for t in tasks}
    for i in range(1, n):
        k = rng.choice([0, 1, 1, 1, 2])
        for s in rng.sample(range(i), min(k, i)):
            if tasks[i]['name'] not in tasks[s]['on_success']:
                tasks[s]['on_success'].append(tasks[i]['name'])
                inbound[tasks[i]['name']] += 1
    for t in tasks:
        if inbound[t['name']] >= 2:
            t['join'] = 'all'
    extra = []
    for t in list(tasks):
        # every task publishes into variables of its own: parallel branches never publish the same name, so
        # the outcome does not depend on the completion order (that is C05/C02's subject, not C12's)
        if rng.random() < 0.55:
            t['publish'] = {'p_' + t['name']: (['res'] if t['kind'] != 'sub' and rng.random() < 0.5
                                                else ['lit', rng.choice([1, 2, 'p'])])}
        if rng.random() < 0.22:
            t['publish_on_error'] = {'pe_' + t['name']: ['lit', rng.choice([7, 'pe'])]}
        if rng.random() < 0.45:
            t['publish_on_skip'] = {'ps_' + t['name']: ['lit', rng.choice([8, 'ps'])]}
        # dedicated leaf targets (no other inbound, so never a join)
        if rng.random() < 0.4:
            nm = '%sk%s' % (prefix, t['name'][len(prefix):])
            extra.append({'name': nm, 'kind': 'plain', 'value': 's', 'join': None, 'publish': {'p_' + nm: ['lit', 'sk']},
                          'publish_on_error': {}, 'publish_on_skip': {}, 'on_success': [], 'on_error': [],
                          'on_complete': [], 'on_skip': [], 'dedicated': True})
            t['on_skip'].append(nm)
        if rng.random() < 0.12:
            nm = '%sc%s' % (prefix, t['name'][len(prefix):])
            extra.append({'name': nm, 'kind': 'plain', 'value': 'c', 'join': None, 'publish': {},
                          'publish_on_error': {}, 'publish_on_skip': {}, 'on_success': [], 'on_error': [],
                          'on_complete': [], 'on_skip': [], 'dedicated': True})
            t['on_complete'].append(nm)
        if rng.random() < 0.08:
            nm = '%se%s' % (prefix, t['name'][len(prefix):])
            extra.append({'name': nm, 'kind': 'plain', 'value': 'e', 'join': None, 'publish': {},
                          'publish_on_error': {}, 'publish_on_skip': {}, 'on_success': [], 'on_error': [],
                          'on_complete': [], 'on_skip': [], 'dedicated': True})
            t['on_error'].append(nm)
    return {'name': name, 'tasks': tasks + extra}


def gen_prog(rng):
    depth = rng.choice([0, 0, 1, 1, 2])
    names = ['wf', 'sub1', 'sub2'][:depth + 1]
    prefixes = ['r', 's', 'u']
    wfs = []
    for lv, nm in enumerate(names):
        sub = names[lv + 1] if lv + 1 < len(names) else None
        wfs.append(gen_wf(rng, nm, prefixes[lv], lv, sub))
    return {'wfs': wfs}


def wf_vars(wf):
    vs = []
    for t in wf['tasks']:
        for k in ('publish', 'publish_on_error', 'publish_on_skip'):
            for v in (t.get(k) or {}):
                if v not in vs:
                    vs.append(v)
    return vs


def render(prog):
    import yaml
    doc = {'version': '2.0'}
    for wf in prog['wfs']:
        vs = wf_vars(wf)
        d = {'type': 'direct', 'tasks': {}}
        if vs:
            d['input'] = [{v: None} for v in vs]
            d['output'] = {'o_' + v: '<%% $.%s %%>' % v for v in vs}
        for t in wf['tasks']:
            td = {}
            if t['kind'] == 'sub':
                td['workflow'] = t['sub']
            elif t['kind'] == 'items':
                td['with-items'] = 'i in <%% %s %%>' % lit_yaql(t['items'])
                td['action'] = 'std.echo'
                td['input'] = {'output': '<% $.i %>'}
                if t.get('concurrency'):
                    td['concurrency'] = t['concurrency']
            else:
                td['action'] = 'std.echo'
                td['input'] = {'output': t.get('value', 0)}
                if t['kind'] == 'retry':
                    td['retry'] = {'count': t['retry'], 'delay': 1}
            if t.get('join'):
                td['join'] = t['join']
            for k, yk in (('publish', 'publish'), ('publish_on_error', 'publish-on-error'),
                          ('publish_on_skip', 'publish-on-skip')):
                if t.get(k):
                    td[yk] = {n: ('<% task().result %>' if e[0] == 'res' else e[1]) for n, e in t[k].items()}
            for k, yk in (('on_success', 'on-success'), ('on_error', 'on-error'), ('on_complete', 'on-complete'),
                          ('on_skip', 'on-skip')):
                if t.get(k):
                    td[yk] = list(t[k])
            d['tasks'][t['name']] = td
        doc[wf['name']] = d
    return yaml.safe_dump(doc, sort_keys=False, default_flow_style=False)


def spec_index(prog):
    """task name -> (task program entry, workflow name)"""
    res = {}
    for wf in prog['wfs']:
        for t in wf['tasks']:
            res[t['name']] = (t, wf['name'])
    return res


def model_spec(t):
    def pub(d):
        return sorted([[k, json.dumps(e[1]) if e[0] == 'lit' else '<res>'] for k, e in (d or {}).items()])
    return {'items': len(t['items']) if t['kind'] == 'items' else None,
            'concurrency': t.get('concurrency') if t['kind'] == 'items' else None,
            'publish': pub(t['publish']), 'publishOnError': pub(t['publish_on_error']),
            'publishOnSkip': pub(t['publish_on_skip']),
            'onSuccess': list(t['on_success']), 'onError': list(t['on_error']),
            'onComplete': list(t['on_complete']), 'onSkip': list(t['on_skip']), 'join': bool(t.get('join'))}


def descendants(prog, wf_name):
    """names of the tasks of every workflow nested below a task that calls `wf_name`"""
    names = [w['name'] for w in prog['wfs']]
    i = names.index(wf_name)
    res = []
    for w in prog['wfs'][i:]:
        res += [t['name'] for t in w['tasks']]
    return res


def gen_first_failures(rng, prog):
    """which executions fail in the first run"""
    table = {}
    leafs = []
    for lv, wf in enumerate(prog['wfs']):
        for t in wf['tasks']:
            if t['kind'] != 'sub' and not t.get('dedicated'):
                leafs.append((lv, t))
    deepest = max(lv for lv, _ in leafs)
    pool = [t for lv, t in leafs if lv == deepest] if rng.random() < 0.6 else [t for _, t in leafs]
    k = 1 if rng.random() < 0.7 else 2
    for t in rng.sample(pool, min(k, len(pool))):
        fail_task(rng, table, t, 0)
    return table


def fail_task(rng, table, t, base, all_attempts=True):
    if t['kind'] == 'items':
        n = len(t['items'])
        idxs = [i for i in range(n) if rng.random() < 0.45] or [rng.randrange(n)]
        for i in idxs:
            table[(t['name'], i, base.get(i, 0) if isinstance(base, dict) else base)] = ['error']
    elif t['kind'] == 'retry':
        b = base.get(0, 0) if isinstance(base, dict) else base
        for k in range(t['retry'] + 1):
            if all_attempts or rng.random() < 0.5:
                table[(t['name'], 0, b + k)] = ['error']
    else:
        b = base.get(0, 0) if isinstance(base, dict) else base
        table[(t['name'], 0, b)] = ['error']


def gen_plan(rng):
    rounds = []
    for _ in range(rng.choice([1, 1, 2, 2, 3, 4])):
        r = rng.random()
        op = 'rerun' if r < 0.72 else 'skip'
        rounds.append({'op': op, 'reset': rng.random() < 0.6, 'cls': rng.choice(['cause'] * 8 + ['parent', 'joinfail']),
                       'pick': rng.randrange(1000), 'new': rng.choice(['ok', 'ok', 'ok', 'fail', 'mixed']),
                       'seed': rng.getrandbits(30)})
    return rounds


def gen_join_retry_case(rng):
    """focus population: a `join` task with a retry policy that fails (by its own action or by its inbound
    tasks) and is rerun several times (3-5 rounds, new attempts failing / mixed / ok), interleaved with reruns of
    the causes: repeated reruns of joins with leftover policy state"""
    for _ in range(200):
        prog = gen_prog(rng)
        joins = [t for wf in prog['wfs'] for t in wf['tasks'] if t.get('join') and t['kind'] != 'sub']
        if joins:
            break
    else:
        return None
    j = rng.choice(joins)
    for x in ('items', 'concurrency', 'value'):
        j.pop(x, None)
    j['kind'] = 'retry'
    j['retry'] = rng.randint(1, 2)
    if j.get('publish') and list(j['publish'].values())[0] == ['res']:
        pass
    if rng.random() < 0.55:
        table = {}
        fail_task(rng, table, j, 0, all_attempts=rng.random() < 0.7)     # the join's own action fails
        if not table:
            table[(j['name'], 0, 0)] = ['error']
        if rng.random() < 0.3:
            table.update(gen_first_failures(rng, prog))
    else:
        table = gen_first_failures(rng, prog)                            # (mostly) failed by its inbound tasks
    rounds = []
    for _ in range(rng.randint(3, 5)):
        rounds.append({'op': 'rerun' if rng.random() < 0.9 else 'skip', 'reset': rng.random() < 0.5,
                       'cls': rng.choice(['cause'] * 5 + ['joinfail'] * 3 + ['parent']),
                       'pick': rng.randrange(1000), 'new': rng.choice(['ok', 'fail', 'mixed', 'mixed']),
                       'seed': rng.getrandbits(30), 'prefer': j['name']})
    nested = len(prog['wfs']) > 1
    return {'prog': prog, 'table': table_to_json(table), 'plan': rounds, 'seed': rng.getrandbits(30),
            'policy': rng.choice(['random', 'random', 'fifo', 'lifo']), 'slow_dispatcher': False,
            'early': nested and rng.random() < 0.2, 'focus': 'join-retry'}


def early_point(snap):
    """a rerun target exists while the root is still RUNNING: an ERROR task of a sub-workflow execution that
    ended in ERROR and has already been reported to its parent task (parent task ERROR), with another branch of
    an enclosing workflow still in progress"""
    if not snap['wfs'] or snap['wfs'][0]['state'] != 'RUNNING':
        return []
    tstate = {t['ord']: t['state'] for t in snap['tasks']}
    ok_wfs = {w['ord'] for w in snap['wfs'] if w['state'] == 'ERROR' and w['parent_task'] is not None
              and tstate.get(w['parent_task']) == 'ERROR'}
    return [t for t in snap['tasks'] if t['state'] == 'ERROR' and t['wf'] in ok_wfs]


def drain(world, oracle, rng, policy='random', max_steps=500, stop=None):
    steps = 0
    while steps < max_steps:
        if stop is not None and stop(world.snapshot()):
            return steps, False
        en = [e for e in world.enabled()
              if not (e[0] == 'job' and e[1].func_name.endswith('_check_and_fix_integrity'))]
        if not en:
            und = [j for j in world.undue_jobs() if not j.func_name.endswith('_check_and_fix_integrity')]
            if und:
                nxt = min(j.execute_at for j in und)
                world.tick(int((nxt - world.now()).total_seconds()))
                continue
            return steps, False
        it = er.pick(rng, policy, en)
        world.deliver(it, oracle=oracle)
        steps += 1
    return steps, True


def abstract(snap, sidx):
    """the model's view of a snapshot"""
    tpos = {t['ord']: i for i, t in enumerate(snap['tasks'])}
    wpos = {w['ord']: i for i, w in enumerate(snap['wfs'])}
    wfs = [{'state': w['state'], 'parent': tpos.get(w['parent_task']) if w['parent_task'] is not None else None}
           for w in snap['wfs']]
    tasks = []
    for t in snap['tasks']:
        if t['type'] == 'WORKFLOW':
            # the executions of a workflow task are its sub-workflow executions; their rows are the
            # `wfs` of the model, so they are not repeated here
            acts = []
        else:
            acts = [{'idx': a['index'] or 0, 'state': a['state'], 'accepted': a['accepted']}
                    for a in snap['actions'] if a['task'] == t['ord']]
        tasks.append({'name': t['name'], 'wf': wpos[t['wf']], 'state': t['state'], 'processed': t['processed'],
                      'rt': sorted((t['rt'] or {}).keys()), 'acts': acts,
                      'published': sorted([[k, json.dumps(v)] for k, v in (t['published'] or {}).items()]),
                      'nextTasks': sorted([[x[0], x[1]] for x in t['next_tasks']]),
                      'spec': model_spec(sidx[t['name']][0])})
    return {'wfs': wfs, 'tasks': tasks}


def observe(snap, sidx, n_tasks):
    a = abstract(snap, sidx)
    return {'wfs': [w['state'] for w in a['wfs']],
            'tasks': [{'state': t['state'], 'processed': t['processed'], 'rt': t['rt'], 'acts': t['acts'],
                       'published': t['published'], 'nextTasks': t['nextTasks']} for t in a['tasks'][:n_tasks]]}


def canon_model_world(mw):
    return {'wfs': mw['wfs'],
            'tasks': [{'state': t['state'], 'processed': t['processed'], 'rt': sorted(t['rt']), 'acts': t['acts'],
                       'published': sorted(t['published']), 'nextTasks': sorted(t['nextTasks'])}
                      for t in mw['tasks']]}


def integrity_jobs(snap):
    """multiset of workflow ids that have integrity-check jobs"""
    res = []
    for fn, key, due, cap in snap['jobs']:
        if fn == '_check_and_fix_integrity':
            res.append(key.split('wfh_c_a_f_i-')[1])
    return sorted(res)


def multiset_diff(after, before):
    b = list(before)
    res = []
    for x in after:
        if x in b:
            b.remove(x)
        else:
            res.append(x)
    return sorted(res)


def ancestors(snap, wf_ord):
    """(workflow ords, parent task ords) going up from a workflow, read off the rows"""
    wf_by = {w['ord']: w for w in snap['wfs']}
    t_by = {t['ord']: t for t in snap['tasks']}
    wfs, tasks = [], []
    cur = wf_ord
    while cur is not None and cur in wf_by and cur not in wfs:
        wfs.append(cur)
        p = wf_by[cur]['parent_task']
        if p is None:
            break
        tasks.append(p)
        cur = t_by[p]['wf'] if p in t_by else None
    return wfs, tasks


def current_wfs(snap):
    """ords of the root execution and, recursively, of the latest sub-workflow execution of every task"""
    if not snap['wfs']:
        return set()
    cur = {snap['wfs'][0]['ord']}
    changed = True
    while changed:
        changed = False
        for t in snap['tasks']:
            if t['wf'] in cur:
                subs = [w['ord'] for w in snap['wfs'] if w['parent_task'] == t['ord']]
                if subs and max(subs) not in cur:
                    cur.add(max(subs))
                    changed = True
    return cur


def outcome(snap):
    """per workflow name (latest execution of it): state, output, tasks (name, state, published)"""
    res = {}
    cur = current_wfs(snap)
    for w in snap['wfs']:
        if w['ord'] not in cur:
            continue
        tasks = sorted([[t['name'], t['state'], t['published']] for t in snap['tasks'] if t['wf'] == w['ord']],
                       key=lambda x: json.dumps(x, sort_keys=True))
        out = er.strip_internal(w['output']) or {}
        if w['state'] != 'SUCCESS':
            out = {k: v for k, v in out.items() if k != 'result'}
        res[w['name']] = {'state': w['state'], 'output': out, 'tasks': tasks}
    return res


# ============================================================================== one case
class CaseResult(object):
    def __init__(self):
        self.hits = []          # (kind, item dict, signature)
        self.disagreements = []  # (what, model, impl)
        self.feats = set()
        self.ops = 0


def classify_final(kind, item, ctxinfo):
    """signature of a monitor hit; the known defects are recognised by their TRIGGER (computed from the
    rows before the command and the task definition), everything else keeps a generic signature"""
    trig = ctxinfo.get('triggers', set())
    if kind in ('stuck', 'undeclared', 'outcome') and 'expired-job' in trig and ctxinfo.get('detached_error'):
        return {'kind': 'expired-scheduler-job-after-nested-rerun'}
    # the two with-items defects are FIXED (494951d1): their signatures are kept so that a regression is
    # reported under its own name; they are direct readings (wrong items / hang); an outcome difference
    # is attributed to them only when no still-known cause of outcome differences is present
    if kind in ('stuck', 'exhausted', 'items-reexecuted') and 'concurrency-rerun' in trig:
        return {'kind': 'rerun-with-concurrency-reexecutes-wrong-items'}
    if kind in ('stuck', 'exhausted', 'items-reexecuted') and 'partial-tail' in trig:
        return {'kind': 'partial-rerun-reexecutes-succeeded-items'}
    if kind == 'outcome' and 'first-routes' in trig:
        return {'kind': 'rerun-keeps-first-attempt-routes'}
    if kind == 'outcome' and 'stale-published' in trig:
        return {'kind': 'stale-published-after-rerun'}
    if kind == 'outcome' and 'concurrency-rerun' in trig:
        return {'kind': 'rerun-with-concurrency-reexecutes-wrong-items'}
    if kind == 'outcome' and 'partial-tail' in trig:
        return {'kind': 'partial-rerun-reexecutes-succeeded-items'}
    sig = {'kind': kind}
    for k in ('what', 'type', 'where'):
        if k in item and isinstance(item[k], (str, int)):
            sig[k] = item[k]
    return sig


def run_case(ctx, case, drv, want_reference=True, guard_checks=True):
    """returns CaseResult; reports nothing itself"""
    res = CaseResult()
    prog = case['prog']
    y = render(prog)
    sidx = spec_index(prog)
    table = table_from_json(case['table'])
    srng = random.Random(case['seed'])
    world = RerunWorld(seed=case['seed'])
    orc = Oracle(table)
    world.create_workflows(y)
    world.start_workflow('wf', {})
    steps, exh = drain(world, orc, srng, case.get('policy', 'random'),
                       stop=early_point if case.get('early') else None)
    info = {'triggers': set(), 'detached_error': False}
    bases = {}            # (task, idx) -> k of the first execution that counts for the reference run
    ref_ok = True
    applied = []
    for rnd in case['plan']:
        s0 = world.snapshot()
        early = early_point(s0) if case.get('early') else []
        if exh or not s0['wfs'] or (s0['wfs'][0]['state'] != 'ERROR' and not early):
            break
        prng = random.Random(rnd['seed'])
        # only tasks of the CURRENT execution tree: a sub-workflow execution that was superseded by a reset
        # rerun of its parent task is abandoned (commands on it are outside the reference notion)
        cur = current_wfs(s0)
        err_tasks = [t for t in s0['tasks'] if t['state'] == 'ERROR' and t['wf'] in cur]
        if early:
            # the command arrives while other branches of the enclosing workflows are still in progress
            err_tasks = [t for t in err_tasks if t['ord'] in {e['ord'] for e in early}]
            res.feats.add('early')
        cls = {'cause': [], 'parent': [], 'joinfail': []}
        for t in err_tasks:
            has_act = any(a['task'] == t['ord'] for a in s0['actions'])
            if t['type'] == 'WORKFLOW':
                cls['parent'].append(t)
            elif has_act:
                cls['cause'].append(t)
            else:
                cls['joinfail'].append(t)
        cands = cls[rnd['cls']] or cls['cause'] or err_tasks
        if not cands:
            break
        tgt = cands[rnd['pick'] % len(cands)]
        if rnd.get('prefer'):
            # focus cases: the named task whenever it is among the failed ones (whatever its class)
            pref = [t for t in err_tasks if t['name'] == rnd['prefer']]
            if pref and rnd['pick'] % 4:
                tgt = pref[0]
                res.feats.add('focus-target')
        kind = 'parent' if tgt in cls['parent'] else 'cause' if tgt in cls['cause'] else 'joinfail'
        tspec = sidx[tgt['name']][0]
        skip = rnd['op'] == 'skip'
        reset = bool(rnd['reset']) or (tspec['kind'] == 'sub')
        res.feats.add('op:%s' % ('skip' if skip else 'rerun-reset' if reset else 'rerun-noreset'))
        res.feats.add('target:%s:%s' % (kind, tspec['kind']))
        tpos = [t['ord'] for t in s0['tasks']].index(tgt['ord'])
        nested = s0['wfs'][[w['ord'] for w in s0['wfs']].index(tgt['wf'])]['parent_task'] is not None
        if nested:
            res.feats.add('nested')
        # ---- what the new attempt will produce, and the reference bookkeeping
        failed_idx = sorted({a['index'] or 0 for a in s0['actions']
                             if a['task'] == tgt['ord'] and a['accepted'] and a['state'] in ('ERROR', 'CANCELLED')})
        if not skip:
            if tspec['kind'] == 'sub':
                names = descendants(prog, tspec['sub'])
                redo = [(n, i) for n in names for i in range(len(sidx[n][0].get('items') or [0]))]
            elif tspec['kind'] == 'items':
                redo = [(tgt['name'], i) for i in (range(len(tspec['items'])) if reset else failed_idx)]
            else:
                redo = [(tgt['name'], 0)]
            for key in redo:
                bases[key] = orc.seen.get(key, 0)
            if rnd['new'] != 'ok':
                pool = [sidx[n][0] for n in sorted({n for n, _ in redo}) if sidx[n][0]['kind'] != 'sub'
                        and not sidx[n][0].get('dedicated')]
                victims = [tspec] if tspec['kind'] != 'sub' else prng.sample(pool, 1)
                for v in victims:
                    b = {i: orc.seen.get((v['name'], i), 0) for i in range(len(v.get('items') or [0]))}
                    if v['kind'] == 'items' and not reset and v is tspec:
                        # only the re-executed items can fail again
                        for i in failed_idx:
                            if prng.random() < 0.6:
                                orc.table[(v['name'], i, b[i])] = ['error']
                    else:
                        fail_task(prng, orc.table, v, b, all_attempts=(rnd['new'] == 'fail'))
            # triggers of the known defects (read off the rows before the command and the definition)
            if tspec['kind'] == 'items' and not reset and failed_idx and max(failed_idx) < len(tspec['items']) - 1:
                info['triggers'].add('partial-tail')
            if tspec['kind'] == 'items' and tspec.get('concurrency') and len(redo) > tspec['concurrency']:
                info['triggers'].add('concurrency-rerun')
            # the same holds for every parent task that the command reactivates on the way up and for every
            # other failed task of those workflows (a join failed by its inbound tasks is put back to
            # WAITING by defer() and runs again)
            cwfs, _ = ancestors(s0, tgt['wf'])
            for x in [tgt] + [t for t in s0['tasks'] if t['wf'] in cwfs and t['state'] == 'ERROR']:
                if x['next_tasks']:
                    info['triggers'].add('first-routes')
                if x['published']:
                    info['triggers'].add('stale-published')
            if kind == 'joinfail':
                ref_ok = False
            if tspec.get('join') and not join_satisfied(sidx, s0, tgt):
                # a join failed by its inbound tasks that is rerun DIRECTLY (also one that already ran an action in
                # an earlier such rerun, or a sub-workflow join that never got a child execution): the engine runs
                # it without its preconditions; a run in which it "produced its new result the first time" does not
                # exist, so there is no reference outcome
                ref_ok = False
                res.feats.add('join-rerun-preconditions-unsatisfied')
        else:
            ref_ok = False
        # ---- model: the command
        aw0 = abstract(s0, sidx)
        m1 = drv.call('rerun.op', {'world': aw0, 'task': tpos, 'reset': reset, 'skip': skip})
        n_err = len(world.errors)
        seq0 = world._seq
        world.op('rerun_workflow', tgt['id'], reset=reset, skip=skip)
        res.ops += 1
        applied.append({'task': tgt['name'], 'op': rnd['op'], 'reset': reset, 'class': kind})
        broken = world.broken_jobs()
        if broken:
            if case.get('slow_dispatcher'):
                info['triggers'].add('expired-job')
                res.feats.add('expired-job-kept')
            else:
                world.forget_broken()
        s1 = world.snapshot()
        op_errs = world.errors[n_err:]
        if 'error' in m1:
            impl = {'error': [e['type'] for e in op_errs], 'unchanged': observe(s1, sidx, len(s0['tasks'])) == observe(s0, sidx, len(s0['tasks']))}
            if not op_errs or not impl['unchanged']:
                res.disagreements.append(('op-error', m1, impl))
            continue
        if op_errs:
            res.disagreements.append(('op', 'ok', [e['type'] + ':' + e['msg'][:200] for e in op_errs]))
            for e in op_errs:
                if not e['declared']:
                    res.hits.append(('undeclared', {'where': e['where'], 'type': e['type'], 'msg': e['msg']}, None))
            break
        mw1 = m1['ok']
        mo = canon_model_world(mw1)
        io = observe(s1, sidx, len(s0['tasks']))
        if mo != io:
            res.disagreements.append(('op-world', {'case': applied[-1], 'model': diff_only(mo, io)[0]}, diff_only(mo, io)[1]))
        # integrity checks scheduled by the command (multiset of workflow positions)
        wid = {w['id']: i for i, w in enumerate(s1['wfs'])}
        new_jobs = sorted(wid.get(x, -1) for x in multiset_diff(integrity_jobs(s1), integrity_jobs(s0)))
        if sorted(mw1['integrity']) != new_jobs:
            res.disagreements.append(('op-integrity', sorted(mw1['integrity']), new_jobs))
        # task rows created (skip)
        old = {t['ord'] for t in s0['tasks']}
        st0 = {t['ord']: t['state'] for t in s0['tasks']}
        created = sorted([[wid_pos(s1, t['wf']), t['name']] for t in s1['tasks']
                          if t['ord'] not in old or (t['state'] == 'WAITING' and st0.get(t['ord']) != 'WAITING')])
        if sorted([[c[0], c[1]] for c in mw1['created']]) != created:
            res.disagreements.append(('op-created', mw1['created'], created))
        # message sent
        pend = [p for p in world.pending if p.kind == 'posttx' and p.seq > seq0]
        if bool(mw1['starts']) != (len(pend) >= 1 and not skip):
            res.disagreements.append(('op-starts', mw1['starts'], s1['pending']))
        # ---- monitors after the command
        if skip:
            monitor_skip(res, s0, s1, tgt, tspec, applied[-1])
        else:
            # deliver exactly the start_task of this command: the post-commit operation, then the message
            for _ in range(2):
                en = world.enabled()
                mine = [e for e in en if e[0] == 'p' and ((e[1].kind == 'posttx' and e[1].seq > seq0) or (
                    e[1].kind == 'rpc' and e[1].data['method'] == 'start_task'
                    and e[1].data['kwargs'].get('task_ex_id') == tgt['id']))]
                if not mine:
                    break
                world.deliver(mine[0], oracle=orc)
            s2 = world.snapshot()
            m2 = drv.call('rerun.start', {'world': abstract(s1, sidx), 'task': tpos, 'reset': reset})
            if 'error' in m2:
                errs = [e['type'] for e in world.errors[n_err:]]
                if not errs:
                    res.disagreements.append(('start-error', m2, 'no error'))
            else:
                mt = canon_model_world(m2['ok'])['tasks'][tpos]
                it = observe(s2, sidx, len(s0['tasks']))['tasks'][tpos]
                if tspec['kind'] == 'sub':
                    mt = {k: v for k, v in mt.items() if k in ('state', 'processed')}
                    it = {k: v for k, v in it.items() if k in ('state', 'processed')}
                else:
                    mt = {k: v for k, v in mt.items() if k != 'rt'}
                    it = {k: v for k, v in it.items() if k != 'rt'}
                if mt != it:
                    res.disagreements.append(('start-task', {'case': applied[-1], 'model': mt}, it))
                iw = [w['state'] for w in s2['wfs']][:len(s1['wfs'])]     # a rerun workflow task adds a new one
                if m2['ok']['wfs'] != iw:
                    res.disagreements.append(('start-wfs', m2['ok']['wfs'], iw))
            monitor_chain(res, s2, tgt, applied[-1])
        # ---- run on
        n_err2 = len(world.errors)
        steps, exh = drain(world, orc, srng, case.get('policy', 'random'))
        s3 = world.snapshot()
        if any(e['type'] == 'DetachedInstanceError' for e in world.errors[n_err2:]):
            info['detached_error'] = True
        if not skip and tspec['kind'] == 'items' and kind == 'cause':
            monitor_items(res, s0, s3, tgt, tspec, reset, failed_idx, info)
        if not skip and tspec['kind'] == 'retry' and kind == 'cause':
            monitor_retry_budget(res, s0, s3, tgt, tspec, orc, bases, info, sidx)
    final = world.snapshot()
    res.final = final
    res.applied = applied
    res.yaml = y
    # ---- end-of-run monitors (C12 reading: the run resumes and finishes)
    for e in world.errors:
        if not e['declared']:
            it = {'where': e['where'], 'type': e['type'], 'msg': e['msg']}
            res.hits.append(('undeclared', it, classify_final('undeclared', it, info)))
    if exh:
        res.hits.append(('exhausted', {'steps': steps}, classify_final('exhausted', {}, info)))
    elif res.ops:
        for w in final['wfs']:
            if w['state'] not in FINAL:
                it = {'wf': w['name'], 'state': w['state'],
                      'tasks': [[t['name'], t['state']] for t in final['tasks'] if t['wf'] == w['ord']]}
                res.hits.append(('stuck', it, classify_final('stuck', it, info)))
                break
    res.info = {'triggers': sorted(info['triggers'])}
    if guard_checks:
        guard_monitors(res, world, final, sidx, drv, srng)
    # (the reference run wipes the shared in-memory database: it comes last)
    # ---- reference run: the rerun tasks produce their new results the first time
    stuck = any(h[0] in ('stuck', 'exhausted') for h in res.hits)
    if want_reference and res.ops and ref_ok and not stuck:
        ref_table = {}
        for (n, i, k), v in orc.table.items():
            b = bases.get((n, i), 0)
            if k >= b:
                ref_table[(n, i, k - b)] = v
        rw = RerunWorld(seed=case['seed'] + 1)
        rorc = Oracle(ref_table)
        rw.create_workflows(y)
        rw.start_workflow('wf', {})
        rrng = random.Random(case['seed'] + 7)
        _, rexh = drain(rw, rorc, rrng, 'random')
        ref = outcome(rw.snapshot())
        got = outcome(final)
        res.feats.add('reference')
        if not rexh and ref != got:
            d = diff_only(ref, got)
            it = {'what': 'outcome differs from the reference run', 'reference': d[0], 'rerun': d[1]}
            res.hits.append(('outcome', it, classify_final('outcome', it, info)))
        res.reference = ref
    return res


def wid_pos(snap, wf_ord):
    return [w['ord'] for w in snap['wfs']].index(wf_ord)


def diff_only(a, b):
    """the differing parts of two json-like values (for readable reports)"""
    if isinstance(a, dict) and isinstance(b, dict):
        ra, rb = {}, {}
        for k in sorted(set(a) | set(b)):
            if a.get(k) != b.get(k):
                x, y = diff_only(a.get(k), b.get(k))
                ra[k], rb[k] = x, y
        return ra, rb
    if isinstance(a, list) and isinstance(b, list) and len(a) == len(b):
        ra, rb = {}, {}
        for i, (x, y) in enumerate(zip(a, b)):
            if x != y:
                dx, dy = diff_only(x, y)
                ra[i], rb[i] = dx, dy
        return ra, rb
    return a, b


# ============================================================================== monitors
def monitor_chain(res, s2, tgt, what):
    """'puts the task, its workflow and all enclosing workflows and parent tasks back to RUNNING'"""
    t_by = {t['ord']: t for t in s2['tasks']}
    w_by = {w['ord']: w for w in s2['wfs']}
    bad = []
    if t_by[tgt['ord']]['state'] != 'RUNNING':
        bad.append(['task', tgt['name'], t_by[tgt['ord']]['state']])
    if t_by[tgt['ord']]['processed']:
        bad.append(['task-processed-flag', tgt['name'], True])
    wfs, tasks = ancestors(s2, tgt['wf'])
    for w in wfs:
        if w_by[w]['state'] != 'RUNNING':
            bad.append(['workflow', w_by[w]['name'], w_by[w]['state']])
    for p in tasks:
        if t_by[p]['state'] != 'RUNNING':
            bad.append(['parent-task', t_by[p]['name'], t_by[p]['state']])
    if bad:
        res.hits.append(('chain', {'what': 'not RUNNING after rerun', 'bad': bad, 'op': what},
                         {'kind': 'rerun-chain-not-running', 'what': bad[0][0]}))


def monitor_skip(res, s0, s1, tgt, tspec, what):
    """'Skipping it marks it SKIPPED, publishes publish-on-skip and follows on-skip (or on-success when
    there is none)' (and not on-complete)"""
    t1 = [t for t in s1['tasks'] if t['ord'] == tgt['ord']][0]
    bad = []
    if t1['state'] != 'SKIPPED':
        bad.append(['state', t1['state']])
    if tspec['publish_on_skip']:
        want = {k: e[1] for k, e in tspec['publish_on_skip'].items()}
        if t1['published'] != want:
            bad.append(['published', t1['published'], want])
    want_next = list(tspec['on_skip']) if tspec['on_skip'] else list(tspec['on_success'])
    got_next = sorted(x[0] for x in t1['next_tasks'])
    if got_next != sorted(want_next):
        bad.append(['next_tasks', got_next, sorted(want_next)])
    old = {t['ord'] for t in s0['tasks']}
    st0 = {t['ord']: t['state'] for t in s0['tasks']}
    started = sorted(t['name'] for t in s1['tasks'] if t['wf'] == tgt['wf'] and (
        t['ord'] not in old or (t['state'] == 'WAITING' and st0.get(t['ord']) != 'WAITING')))
    if started != sorted(want_next):
        bad.append(['started', started, sorted(want_next)])
    wf1 = [w for w in s1['wfs'] if w['ord'] == tgt['wf']][0]
    if wf1['state'] not in ('RUNNING', 'SUCCESS', 'ERROR'):
        bad.append(['workflow', wf1['state']])
    if bad:
        res.hits.append(('skip', {'what': 'skip semantics', 'bad': bad, 'op': what},
                         {'kind': 'skip-semantics', 'what': bad[0][0]}))


def monitor_items(res, s0, s3, tgt, tspec, reset, failed_idx, info):
    """'re-executes the task (all of its items, or only the failed ones when reset is off)'"""
    old = {a['ord'] for a in s0['actions']}
    new_idx = sorted({a['index'] or 0 for a in s3['actions'] if a['task'] == tgt['ord'] and a['ord'] not in old})
    want = list(range(len(tspec['items']))) if reset else failed_idx
    if new_idx != want:
        it = {'what': 'items re-executed', 'got': new_idx, 'want': want, 'reset': reset}
        sig = classify_final('items-reexecuted', it, info)
        if sig['kind'] == 'items-reexecuted':
            sig = {'kind': 'items-reexecuted', 'reset': reset,
                   'what': 'more' if set(new_idx) - set(want) else 'fewer'}
        res.hits.append(('items-reexecuted', it, sig))


COMPLETED_STATES = ('SUCCESS', 'ERROR', 'CANCELLED', 'SKIPPED')


def join_satisfied(sidx, s0, tgt):
    """the preconditions of the join `tgt` hold on the rows of `s0`: every inbound task (a task of the same
    workflow with an on-clause naming it) has a completed execution that routed to it"""
    wf_name = sidx[tgt['name']][1]
    inbound = [t['name'] for (t, w) in sidx.values() if w == wf_name and
               any(tgt['name'] in (t.get(cl) or []) for cl in ('on_success', 'on_error', 'on_complete', 'on_skip'))]
    for n in inbound:
        rows = [t for t in s0['tasks'] if t['name'] == n and t['wf'] == tgt['wf']]
        if not rows:
            return False
        r = max(rows, key=lambda t: t['ord'])
        if r['state'] not in COMPLETED_STATES or tgt['name'] not in [x[0] for x in r['next_tasks']]:
            return False
    return True


def monitor_retry_budget(res, s0, s3, tgt, tspec, orc, bases, info, sidx=None):
    """'as if the task had produced its new result the first time' for a task with a retry policy: the
    new attempt has the full retry budget (leftover policy state of the failed attempt is gone).
    A `join` is retried through its precondition check (RetryPolicy puts it back to WAITING and schedules
    _refresh_task_state): the clause reads on a join only while its preconditions hold.  A join that was
    failed BY ITS INBOUND TASKS and is rerun directly (the engine runs it without its preconditions; a run in
    which it 'produced its new result the first time' does not exist) fails again at the first re-check: the
    statement says nothing about the number of attempts then."""
    if tspec.get('join'):
        if sidx is None or not join_satisfied(sidx, s0, tgt):
            res.feats.add('retry-budget:join-preconditions-unsatisfied')
            return
        res.feats.add('retry-budget:join')
    res.feats.add('retry-budget:checked')
    old = {a['ord'] for a in s0['actions']}
    n_new = len([a for a in s3['actions'] if a['task'] == tgt['ord'] and a['ord'] not in old])
    b = bases.get((tgt['name'], 0), 0)
    want = 0
    for k in range(tspec['retry'] + 1):
        want += 1
        if (orc.table.get((tgt['name'], 0, b + k)) or ['run'])[0] != 'error':
            break
    t3 = [t for t in s3['tasks'] if t['ord'] == tgt['ord']][0]
    if t3['state'] in ('SUCCESS', 'ERROR') and n_new != want:
        res.hits.append(('retry-budget', {'what': 'attempts of the rerun', 'got': n_new, 'want': want,
                                          'join': bool(tspec.get('join'))},
                         {'kind': 'retry-budget', 'what': 'fewer' if n_new < want else 'more'}))


REST_BODIES = [{'state': 'RUNNING', 'reset': True}, {'state': 'RUNNING', 'reset': False}, {'state': 'RUNNING'},
               {'state': 'SKIPPED'}, {'state': 'ERROR'}, {'state': 'SUCCESS', 'reset': True},
               {'state': 'SKIPPED', 'name': 'no-such-name'}, {'state': 'RUNNING', 'reset': True, 'workflow_name': 'zz'}]


def guard_monitors(res, world, final, sidx, drv, rng):
    """'tasks that are not in ERROR, or that already succeeded, cannot be rerun or skipped': through the
    REST controller (the guard the service has) for every state met, and at engine level for a
    SUCCESS task (destructive, therefore last)."""
    app = rest_app(world)
    tasks = list(final['tasks'])
    rng.shuffle(tasks)
    by_state = {}
    for t in tasks:
        by_state.setdefault(t['state'], t)
    for st, t in sorted(by_state.items()):
        wf = [w for w in final['wfs'] if w['ord'] == t['wf']][0]
        spec = sidx[t['name']][0]
        for body in REST_BODIES:
            before = len(world.rest_calls)
            r = app.put_json('/v2/tasks/%s' % t['id'], params=body, expect_errors=True)
            calls = world.rest_calls[before:]
            m = drv.call('rerun.restGuard', {
                'taskName': t['name'], 'wfName': wf['name'], 'taskState': t['state'],
                'withItems': spec['kind'] == 'items',
                'req': {'name': body.get('name'), 'wfName': body.get('workflow_name'), 'state': body['state'],
                        'resetGiven': 'reset' in body, 'reset': bool(body.get('reset'))}})
            impl = ({'ok': [bool(calls[0]['reset']), bool(calls[0]['skip'])]} if calls
                    else {'error': rest_err(r)})
            res.feats.add('rest:%s:%s' % (st, 'ok' if calls else 'rejected'))
            if m != impl:
                res.disagreements.append(('rest', {'task_state': st, 'body': body, 'model': m}, impl))
            # monitor (statement): a task that is not in ERROR never reaches the engine, the answer is a
            # declared client error
            if st != 'ERROR' and (calls or r.status_int not in (400, 404, 409)):
                res.hits.append(('rest-guard', {'what': 'non-ERROR task accepted', 'state': st, 'body': body,
                                                'status': r.status_int},
                                 {'kind': 'rest-accepts-non-error-task', 'state': st}))
            if st == 'ERROR' and body['state'] in ('RUNNING', 'SKIPPED') and 'name' not in body \
                    and 'workflow_name' not in body and not calls:
                ok_reject = (body['state'] == 'RUNNING' and ('reset' not in body or (
                    not body['reset'] and spec['kind'] != 'items')))
                if not ok_reject:
                    res.hits.append(('rest-guard', {'what': 'ERROR task rejected', 'body': body,
                                                    'answer': rest_err(r)},
                                     {'kind': 'rest-rejects-error-task'}))
    after = world.snapshot()
    if observe(after, sidx, len(final['tasks'])) != observe(final, sidx, len(final['tasks'])):
        res.hits.append(('rest-guard', {'what': 'rows changed by rejected/recorded REST calls'},
                         {'kind': 'rest-guard-changed-rows'}))
    # engine level: a SUCCESS task of a failed workflow (rerun or skip, chosen by the case rng)
    succ = [t for t in final['tasks'] if t['state'] == 'SUCCESS'
            and [w for w in final['wfs'] if w['ord'] == t['wf']][0]['state'] == 'ERROR'
            and sidx[t['name']][0]['kind'] != 'sub']
    if succ:
        t = succ[0]
        skip = rng.random() < 0.35
        tpos = [x['ord'] for x in final['tasks']].index(t['ord'])
        n_err = len(world.errors)
        obs0 = observe(final, sidx, len(final['tasks']))
        m1 = drv.call('rerun.op', {'world': abstract(final, sidx), 'task': tpos, 'reset': True, 'skip': skip})
        world.op('rerun_workflow', t['id'], reset=True, skip=skip)
        world.forget_broken()
        s1 = world.snapshot()
        op_errs = world.errors[n_err:]
        res.feats.add('engine-success-%s' % ('skip' if skip else 'rerun'))
        # model vs implementation: the command is refused <-> the model refuses it
        if ('error' in m1) != bool(op_errs):
            res.disagreements.append(('engine-success-op', m1 if 'error' in m1 else 'ok',
                                      [e['type'] + ':' + e['msg'][:80] for e in op_errs]))
        elif 'ok' in m1 and canon_model_world(m1['ok']) != observe(s1, sidx, len(final['tasks'])):
            res.disagreements.append(('engine-success-op-world', 'model', 'impl differs'))
        # whatever the command left behind is delivered (nothing, when it was refused)
        for _ in range(2):
            mine = [e for e in world.enabled() if e[0] == 'p' and (e[1].kind == 'posttx' or (
                e[1].kind == 'rpc' and e[1].data['method'] == 'start_task'
                and e[1].data['kwargs'].get('task_ex_id') == t['id']))]
            if mine:
                world.deliver(mine[0])
        s2 = world.snapshot()
        errs = world.errors[n_err:]
        declared = bool(errs) and all(e['declared'] for e in errs)
        t2 = [x for x in s2['tasks'] if x['ord'] == t['ord']][0]
        obs2 = observe(s2, sidx, len(final['tasks']))
        # monitor: 'tasks that ... already succeeded cannot be rerun or skipped': a declared error, the task
        # stays SUCCESS ...
        if not declared or t2['state'] != 'SUCCESS':
            res.hits.append(('engine-guard', {'what': 'succeeded task %s' % ('skipped' if skip else 'rerun'),
                                              'errors': [e['type'] for e in errs], 'task_state': t2['state']},
                             {'kind': 'succeeded-task-rerun-not-refused'}))
        # ... and nothing else changes
        elif obs2 != obs0 or len(s2['tasks']) != len(final['tasks']):
            d = diff_only(obs0, obs2)
            res.hits.append(('engine-guard', {'what': 'refused rerun of a succeeded task changed the execution',
                                              'before': d[0], 'after': d[1]},
                             {'kind': 'engine-rerun-of-succeeded-task-reactivates-workflow'}))


def rest_err(r):
    try:
        s = r.json.get('faultstring', '')
    except Exception:
        return 'status-%s' % r.status_int
    for frag, name in (('Task name does not match', 'taskName'), ('Workflow name does not match', 'wfName'),
                       ('Invalid task state', 'targetState'), ('must be in ERROR', 'notError'),
                       ('Reset field is mandatory', 'resetMandatory'),
                       ('Only with-items task has the option', 'onlyWithItemsNoReset')):
        if frag in s:
            return name
    return 'other:%s:%s' % (r.status_int, s[:80])


# ============================================================================== stream
def gen_case(rng):
    if rng.random() < 0.2:
        c = gen_join_retry_case(rng)
        if c is not None:
            return c
    prog = gen_prog(rng)
    table = gen_first_failures(rng, prog)
    nested = len(prog['wfs']) > 1
    return {'prog': prog, 'table': table_to_json(table), 'plan': gen_plan(rng), 'seed': rng.getrandbits(30),
            'policy': rng.choice(['random', 'random', 'fifo', 'lifo']),
            'slow_dispatcher': nested and rng.random() < 0.12,
            'early': nested and rng.random() < 0.4}


def report(ctx, case, res):
    for f in res.feats:
        ctx.count('rerun', 'feat:' + f.split(':rest')[0] if not f.startswith('rest:') else f)
    ctx.count('rerun', 'ops:%d' % res.ops)
    if case.get('focus'):
        ctx.count('rerun', 'focus:' + case['focus'])
    if res.final['wfs']:
        ctx.count('rerun', 'final:' + res.final['wfs'][0]['state'])
    key = [res.yaml, case['table'], case['plan'], case['seed']]
    ctx.evaluated('rerun', key, nontrivial=res.ops > 0)
    if ctx.rng.random() < 0.02:
        ctx.sample({'stream': 'rerun', 'yaml': res.yaml, 'first_failures': case['table'], 'applied': res.applied,
                    'final': {k: v['state'] for k, v in outcome(res.final).items()}})
    for what, mo, io in res.disagreements:
        ctx.count('rerun', 'disagree:' + what)
        ctx.disagree('rerun', {'what': what, 'case': case, 'yaml': res.yaml, 'applied': res.applied}, mo, io)
    for kind, item, sig in res.hits:
        sig = sig or {'kind': kind}
        ctx.count('rerun', 'hit:' + sig['kind'])
        ctx.violation('C12 monitor %s: %s' % (kind, json.dumps(item, default=str)[:400]),
                      {'stream': 'rerun', 'case': case, 'yaml': res.yaml, 'applied': res.applied, 'hit': item,
                       'triggers': res.info['triggers']}, sig)


def run_corpus(ctx):
    import glob
    import os
    from vlib import core
    for f in sorted(glob.glob(os.path.join(core.VERIF, 'corpus', 'C12', '*.json'))):
        c = json.load(open(f))
        ctx.count('rerun', 'corpus')
        res = run_case(ctx, c['case'], ctx.driver())
        report(ctx, c['case'], res)


def run_chunk(ctx, n_cases):
    import time
    t0 = time.time()
    drv = ctx.driver()
    if getattr(ctx, 'chunk', 0) == 0:
        run_corpus(ctx)
    for _ in range(n_cases):
        case = gen_case(ctx.rng)
        t1 = time.time()
        res = run_case(ctx, case, drv)
        report(ctx, case, res)
        dt = time.time() - t1
        ctx.count('rerun', 'secs:%s' % ('<1' if dt < 1 else '<3' if dt < 3 else '<10' if dt < 10 else '>=10'))
    ctx.count('rerun', 'chunk-secs', int(time.time() - t0))


def run_search_chunk(ctx, n_cases):
    """failing-input search (DESIGN 2.4 b): a different population (own seed stream, more rounds, always with
    the reference run) evaluated by the monitors"""
    drv = ctx.driver()
    rng = random.Random('search-%s-%s' % (ctx.seed, getattr(ctx, 'chunk', 0)))
    for _ in range(n_cases):
        case = gen_case(rng)
        case['plan'] = case['plan'] + gen_plan(rng)
        res = run_case(ctx, case, drv)
        report(ctx, case, res)
