"""Tie B for the statement-granularity race model (lean/Mistral/Model/Race.lean).

The REAL code of each generated script (translate/race_scripts.py) is run with a tap on SQL
statement execution (SQLAlchemy `before_cursor_execute` / `after_cursor_execute` on the engine, and
the ORM `load` / `refresh` events of the row's class).  At a chosen statement of the script's
transaction the tap runs the interferer's REAL transaction (another `stop_workflow` /
`pause_workflow` by a second session + auth context + post-commit queue: every thread-local a second
process would have of its own; a second processor's `advance_cron_trigger`) to completion and
commit, then lets the script continue.

For every (scenario, interferer, position) the final real row, the write statements the script
issued, its result flag and the registered post-commit hand-off are compared with
`Mistral.Race.runWith` on the GENERATED script with the same interferer at the corresponding gap
(correspondence), and the property sentences are read directly on the real rows (monitor).

Positions: the gaps before each *significant* statement of the script on the row's table (a SELECT
that loads / refreshes the script's ORM copy, the compare-and-swap UPDATE, a flush UPDATE, a
DELETE) and the gap before the commit, as long as the script has not yet written the row (a
successful write takes the row lock until commit: on a real RDBMS another writer then waits;
in-memory sqlite with its single shared connection cannot exhibit that, so those positions are the
model's `gap` rule only).  SELECTs that do not refresh the copy are merged with the next gap.
"""
import json

WF_TABLE = 'workflow_executions_v2'
CRON_TABLE = 'cron_triggers_v2'

WF_YAML = """
version: '2.0'
race_wf:
  output:
    greeting: <% task(t1).result %>
  output-on-error:
    oops: 1
  tasks:
    t1:
      action: std.echo output="hello"
"""


class Tap(object):
    """statement tap on the engine; one per process"""

    def __init__(self):
        import sqlalchemy as sa
        from mistral.db.sqlalchemy import base as db_base
        self.engine = db_base.get_engine()
        self.active = False
        self.in_intf = False
        self.table = None
        self.cls = None
        self.log = []
        self.inject_at = None
        self.injector = None
        self.injected = False
        self.loads = 0
        sa.event.listen(self.engine, 'before_cursor_execute', self._before)
        sa.event.listen(self.engine, 'after_cursor_execute', self._after)
        self._listened = set()

    def watch(self, cls, table, key_attr):
        import sqlalchemy as sa
        self.cls = cls
        self.table = table
        self.key_attr = key_attr
        if cls not in self._listened:
            self._listened.add(cls)
            sa.event.listen(cls, 'load', self._load)
            sa.event.listen(cls, 'refresh', self._refresh)

    @staticmethod
    def kind(statement):
        s = statement.lstrip().upper()
        for k in ('SELECT', 'UPDATE', 'DELETE', 'INSERT'):
            if s.startswith(k):
                return k
        return 'OTHER'

    def _mine(self, statement):
        return self.active and not self.in_intf and self.table in statement

    def _before(self, conn, cursor, statement, parameters, context, executemany):
        if not self._mine(statement):
            return
        n = len(self.log)
        if self.inject_at == n and not self.injected:
            self.injected = True
            self.run_interferer()
        k = self.kind(statement)
        where = statement.upper().split('WHERE', 1)[1] if 'WHERE' in statement.upper() else ''
        self.log.append({'n': n, 'kind': k, 'cas': k == 'UPDATE' and where.count(' AND ') > 0,
                         'sig': k != 'SELECT', 'rowcount': None, 'sql': statement[:200]})

    def _after(self, conn, cursor, statement, parameters, context, executemany):
        if not self._mine(statement) or not self.log:
            return
        e = self.log[-1]
        if e['kind'] in ('UPDATE', 'DELETE') and e['rowcount'] is None:
            e['rowcount'] = cursor.rowcount

    def _load(self, target, context):
        self._mark(target)

    def _refresh(self, target, context, attrs):
        # deferred-column loads refresh only those columns: not a re-read of the row's state
        if attrs is None or self.key_attr in attrs:
            self._mark(target)

    def _mark(self, target):
        if self.active and not self.in_intf and self.log and self.log[-1]['kind'] == 'SELECT':
            self.log[-1]['sig'] = True

    def run_interferer(self):
        """another process: its own db session, auth context, tx cache and post-commit queue"""
        from mistral import context as auth_ctx
        from mistral_lib import utils
        from mistral.db.sqlalchemy import base as db_base
        from mistral.engine import post_tx_queue
        names = [db_base._DB_SESSION_THREAD_LOCAL_NAME, db_base._TX_SCOPED_CACHE_THREAD_LOCAL_NAME,
                 post_tx_queue._THREAD_LOCAL_NAME]
        saved = [utils.get_thread_local(n) for n in names]
        my_ctx = auth_ctx.ctx() if auth_ctx.has_ctx() else None
        for n in names:
            utils.set_thread_local(n, None)
        self.in_intf = True
        try:
            self.injector()
        finally:
            self.in_intf = False
            for n, v in zip(names, saved):
                utils.set_thread_local(n, v)
            auth_ctx.set_ctx(my_ctx)

    def nested(self, fn, inject_at=None, injector=None):
        """run fn as a tapped script INSIDE an interferer (a third process racing the second)"""
        saved = (self.log, self.inject_at, self.injector, self.injected, self.in_intf, self.active)
        self.log, self.inject_at, self.injector, self.injected = [], inject_at, injector, False
        self.in_intf, self.active = False, True
        try:
            return fn(), self.log
        finally:
            (self.log, self.inject_at, self.injector, self.injected, self.in_intf, self.active) = saved

    def start(self, inject_at=None, injector=None):
        self.log = []
        self.inject_at = inject_at
        self.injector = injector
        self.injected = False
        self.active = True

    def stop(self):
        self.active = False
        return self.log


_TAP = None


def tap():
    global _TAP
    if _TAP is None:
        _TAP = Tap()
    return _TAP


def significant(log):
    """the statements that are model statements: refreshing SELECTs and all writes"""
    return [e for e in log if e['sig']]


def writes(log):
    res = []
    for e in log:
        if e['kind'] == 'UPDATE':
            res.append(('cas:%d' % (1 if e['rowcount'] else 0)) if e['cas'] else
                       ('flush' if e['rowcount'] else 'flush-miss'))
        elif e['kind'] == 'DELETE':
            res.append('delete:%d' % (1 if e['rowcount'] else 0))
    return res


# =====================================================================================
# workflow row: completion scripts vs stop / pause / a second completion check
# =====================================================================================
WF_SCENARIOS = {
    # name: (generated script, how the row gets there, the real call that is the script)
    'cacSucceed': ('cacSucceedWorkflow', 'check', None),
    'cacFail': ('cacFailWorkflow', 'check', 'error'),
    'cacCancel': ('cacCancelWorkflow', 'check', 'cancel'),
    'stopSuccess': ('succeedWorkflow', 'stop', 'SUCCESS'),
    'stopError': ('failWorkflow', 'stop', 'ERROR'),
    'stopCancel': ('cancelWorkflow', 'stop', 'CANCELLED'),
    # a plain resume_workflow (no generated script: monitor only).  On a RUNNING execution it is a no-op; with a
    # stop committed before / during it, the finished row must stay as the stop left it ("leaves ERROR or
    # CANCELLED only through an explicit rerun")
    'resume': (None, 'resume', None),
}
WF_INTERFERERS = ['stop:CANCELLED', 'stop:ERROR', 'stop:SUCCESS', 'pause', 'check']
SCRIPT_MSG = 'script-msg'
INTF_MSG = 'intf-msg'
FINAL = ('SUCCESS', 'ERROR', 'CANCELLED')
_INTF_SCRIPT = {'stop:CANCELLED': 'cancelWorkflow', 'stop:ERROR': 'failWorkflow',
                'stop:SUCCESS': 'succeedWorkflow'}


FORCE_FAIL = 'force-fail: Failed to check and complete'


def _jd(x):
    return json.dumps(x, sort_keys=True, default=str)


def _canon_msg(m):
    """the force-fail message carries a traceback: only its class is compared"""
    if isinstance(m, str) and m.startswith('Failed to check and complete'):
        return FORCE_FAIL
    return m


def _canon_out(o):
    if isinstance(o, dict) and 'result' in o:
        o = dict(o)
        o['result'] = _canon_msg(o['result'])
    return o


class WfWorld(object):
    def __init__(self, seed=0):
        from harness import engine_driver
        self.w = engine_driver.EngineWorld(seed=seed, id_mode='seq')
        from mistral.db.v2.sqlalchemy import models
        self.tap = tap()
        self.tap.watch(models.WorkflowExecution, WF_TABLE, 'state')
        self.wid = None

    # ----------------------------------------------------------------- set-up
    def prepare(self, scenario):
        """fresh database, the workflow brought to the point where the script is about to run;
        returns the callable that IS the script (one real engine call / delivery)"""
        w = self.w
        w._reset()
        w.create_workflows(WF_YAML)
        self.wid = w.start_workflow('race_wf')
        script, how, arg = WF_SCENARIOS[scenario]
        if how == 'stop':
            return lambda: w.op('stop_workflow', self.wid, arg, SCRIPT_MSG)
        if how == 'resume':
            return lambda: w.op('resume_workflow', self.wid)
        verdict = {None: None, 'error': ('error', 'boom'), 'cancel': ('cancel', None)}[arg]
        oracle = (lambda world, d: verdict) if verdict else None
        for _ in range(12):
            for item in w.enabled():
                kind, x = item
                if kind == 'p' and x.kind == 'posttx' and \
                        getattr(x.data[0][0], '__name__', '') == '_check':
                    return lambda item=item: w.deliver(item)
            en = w.enabled()
            if not en:
                break
            w.deliver(en[0], oracle=oracle)
        raise RuntimeError('scenario %s: completion check never became pending' % scenario)

    def interferer(self, name):
        """the REAL transaction of another process"""
        from mistral.db.v2 import api as db_api
        from mistral.engine import post_tx_queue, workflow_handler
        from mistral import context as auth_context
        eng = self.w.engine
        wid = self.wid

        @post_tx_queue.run
        def other_check():
            with db_api.transaction():
                workflow_handler.check_and_complete(wid)

        def run():
            auth_context.set_ctx(self.w.ctx)
            if name.startswith('stop:'):
                eng.stop_workflow(wid, name[5:], INTF_MSG)
            elif name == 'pause':
                eng.pause_workflow(wid)
            elif name == 'check':
                other_check()
            else:
                raise ValueError(name)
            self.after_intf = self.row()
        return run

    def row(self):
        """the committed row, read with a fresh session: [state, state_info, output, accepted, parent]"""
        from mistral.db.v2 import api as db_api
        from mistral_lib import utils
        from mistral.db.sqlalchemy import base as db_base
        names = [db_base._DB_SESSION_THREAD_LOCAL_NAME, db_base._TX_SCOPED_CACHE_THREAD_LOCAL_NAME]
        saved = [utils.get_thread_local(n) for n in names]
        for n in names:
            utils.set_thread_local(n, None)
        was = self.tap.in_intf
        self.tap.in_intf = True
        try:
            with db_api.transaction(read_only=True):
                e = db_api.get_workflow_execution(self.wid)
                return [e.state, _canon_msg(e.state_info), _jd(_canon_out(e.output)), bool(e.accepted),
                        e.task_execution_id]
        finally:
            self.tap.in_intf = was
            for n, v in zip(names, saved):
                utils.set_thread_local(n, v)

    # ----------------------------------------------------------------- one run
    def run(self, scenario, intf=None, at=None):
        """at = ordinal (in the script's statement log on the table) before which the interferer
        commits; 'end' = after the script's last statement, i.e. not at all (solo)"""
        script = self.prepare(scenario)
        row0 = self.row()
        self.after_intf = None
        n_err = len(self.w.errors)
        n_pend = len(self.w.pending)
        self.tap.start(inject_at=at, injector=self.interferer(intf) if intf else None)
        try:
            script()
        finally:
            log = self.tap.stop()
        errs = self.w.errors[n_err:]
        return {'row0': row0, 'row': self.row(), 'log': log, 'after_intf': self.after_intf,
                'injected': self.tap.injected, 'errors': [(e['type'], e['declared']) for e in errs],
                'err_text': [e['msg'][:200] for e in errs]}

    def solo_intf(self, scenario, intf):
        """the interferer alone on the prepared row: its message and output for the model"""
        self.prepare(scenario)
        self.tap.in_intf = True
        try:
            self.interferer(intf)()
        finally:
            self.tap.in_intf = False
        return self.after_intf


def norm_writes(ws):
    """consecutive flushes are one pending-write set issued in pieces (autoflush before a query)"""
    out = []
    for x in ws:
        if x in ('flush', 'cas:0') and out and out[-1] == x:
            # (a lost update_on_match is retried `attempts` times: the same compare-and-swap again)
            continue
        out.append(x)
    return out


def model_positions(script_stmts, solo_log):
    """[(real ordinal to inject before, model gap)] for the pre-lock significant statements of the
    uninterfered run; raises ValueError when the real statement sequence does not have the
    model's shape"""
    db_idx = [(i, s[0]) for i, s in enumerate(script_stmts) if s[0] in ('read', 'cas', 'delete')]
    res = []
    mi = 0
    for e in significant(solo_log):
        if e['kind'] == 'SELECT':
            while mi < len(db_idx) and db_idx[mi][1] != 'read':
                mi += 1
            if mi == len(db_idx):
                break
            res.append((e['n'], db_idx[mi][0]))
            mi += 1
            continue
        # a write: pending flush or the cas / delete itself -> the gap of the model's next cas/delete
        j = mi
        while j < len(db_idx) and db_idx[j][1] == 'read':
            j += 1
        if j > mi:
            raise ValueError('model has a read the real run did not do before its first write')
        gap = db_idx[j][0] if j < len(db_idx) else len(script_stmts)
        res.append((e['n'], gap))
        if e['rowcount']:
            break
        if e['kind'] != 'UPDATE' or e['cas']:
            mi = j + 1
    return res


H_OUT = _jd({'oops': 1, 'result': FORCE_FAIL})


def wf_vars(solo_row):
    """script variables: cur_state (local), message, output; handler message, handler output"""
    return [None, solo_row[1], solo_row[2], FORCE_FAIL, H_OUT]


def wf_model_intf(intf, scen_script, solo_row, row0):
    if solo_row == row0:
        return {'set': []}
    if intf in _INTF_SCRIPT:
        return {'script': _INTF_SCRIPT[intf], 'vars': wf_vars(solo_row)}
    if intf == 'pause':
        return {'set': [[0, 'PAUSED']], 'ifState': ['RUNNING']}
    if intf == 'check':
        return {'script': scen_script, 'vars': wf_vars(solo_row)}
    raise ValueError(intf)


def wf_monitor(scenario, intf, first, r, solo_row, judge_first=True):
    """the property sentences read on the real rows; returns [(what, signature)].
    first = the interferer committed before the script's first read, i.e. the sequential composition
    of the two transactions: judged as well (since repo fix ce9b9520 no sequential composition of
    these transactions alters a finished row; seeded/C03-r2 - a plain resume reviving a finished
    execution - shows exactly there)"""
    hits = []
    a = r['after_intf']
    row = r['row']
    if first and not judge_first:
        return hits
    if a is not None and a[0] == 'PAUSED' and row[0] == 'ERROR' and row[1] == FORCE_FAIL:
        hits.append(('execution PAUSED by the operator while its completion check was in flight is forced '
                     'to ERROR by that check (stale guard, re-read PAUSED, WorkflowException caught by '
                     'workflow_handler.check_and_complete -> force_fail_workflow): %r' % (row[:4],),
                     {'kind': 'paused-during-completion-check-forced-to-error', 'script': scenario}))
        return hits
    if a is not None and a[0] in FINAL:
        # C03: "once a workflow is finished its state and output are not altered by results or
        # timers that arrive late"; C11: "results ... do not change its state or output"
        if row[:4] != a[:4]:
            diff = [n for n, x, y in zip(('state', 'state_info', 'output', 'accepted'), a, row) if x != y]
            hits.append(('execution finished by %s as %s was altered afterwards by the %s transaction that '
                         'lost the race: %s changed (%r -> %r)' % (intf, a[0], scenario, diff, a[:4], row[:4]),
                         {'kind': 'finished-row-altered-by-racing-transaction', 'script': scenario,
                          'changed': diff}))
    # exactly one party determines (state, state_info, output) together
    cands = [solo_row[:4]]
    if a is not None:
        cands.append(a[:4])
    if row[:4] not in cands and not hits:
        hits.append(('final (state, state_info, output, accepted) %r is neither what the %s transaction alone '
                     'writes %r nor what %s left %r' % (row[:4], scenario, solo_row[:4], intf, a and a[:4]),
                     {'kind': 'row-mixes-two-transactions', 'script': scenario}))
    return hits


def run_wf_cases(ctx, scenarios=None, interferers=None, stream='race-wf', on_violation=None):
    """every scenario x interferer x pre-lock position: real vs model + monitor"""
    from vlib import core
    repo = core.REPO
    from translate import race_scripts
    try:
        scripts, _ = race_scripts.scripts(repo)
    except Exception:
        scripts = None      # the translator refused: the monitors still run on the real code
    W = WfWorld(seed=ctx.seed)
    drv = ctx.driver() if scripts is not None else None
    for scenario in (scenarios or list(WF_SCENARIOS)):
        sname = WF_SCENARIOS[scenario][0]
        solo = W.run(scenario)
        if solo['errors']:
            ctx.disagree(stream, {'scenario': scenario, 'solo': True}, 'no error', solo['errors'])
            continue
        row0, solo_row = solo['row0'], solo['row']
        try:
            positions = model_positions(scripts[sname], solo['log']) if (scripts and sname) else \
                [(e['n'], None) for e in significant(solo['log'])]
        except ValueError as e:
            ctx.disagree(stream, {'scenario': scenario, 'shape': True}, str(e),
                         [(x['kind'], x['sig']) for x in solo['log']])
            positions = [(e['n'], None) for e in significant(solo['log'])]
        # solo correspondence: the model's uninterfered run
        if drv is not None and sname:
            m = drv.call('race.run', {'script': sname, 'vars': wf_vars(solo_row),
                                      'row': {'alive': True, 'f': row0}, 'sched': []})
            real = {'row': solo_row, 'writes': norm_writes(writes(solo['log'])), 'aborted': False}
            mod = {'row': m['db']['f'], 'writes': [t for t in m['trace'] if t != 'select'],
                   'aborted': m['status'] == 'aborted'}
            ctx.evaluated(stream, [scenario, 'solo'], nontrivial=False)
            if real != mod:
                ctx.disagree(stream, {'scenario': scenario, 'solo': True}, mod, real)
        for intf in (interferers or WF_INTERFERERS):
            isolo = W.solo_intf(scenario, intf)
            for (n, gap) in positions:
                r = W.run(scenario, intf, n)
                case = {'family': 'wf', 'script': sname, 'scenario': scenario, 'interferer': intf,
                        'position': n, 'gap': gap,
                        'statement': next((e['sql'][:60] for e in solo['log'] if e['n'] == n), None)}
                ctx.count(stream, 'scenario:' + scenario)
                ctx.count(stream, 'interferer:' + intf)
                if not r['injected']:
                    ctx.count(stream, 'not-injected')
                    continue
                nontrivial = r['after_intf'] != row0
                ctx.evaluated(stream, [scenario, intf, n], nontrivial=nontrivial)
                real = {'row': r['row'], 'writes': norm_writes(writes(r['log'])),
                        'aborted': bool(r['errors'])}
                ctx.count(stream, 'outcome:%s' % ('script-won' if 'cas:1' in real['writes'] else
                                                 'script-lost' if 'cas:0' in real['writes'] else 'script-skipped'))
                for what, sig in wf_monitor(scenario, intf, n == positions[0][0], r, solo_row):
                    rep = dict(case, kind='race', real=real, after_interferer=r['after_intf'], row0=row0)
                    ctx.violation(what, rep, sig)
                if drv is None or gap is None or not sname:
                    continue
                m = drv.call('race.run', {
                    'script': sname, 'vars': wf_vars(solo_row),
                    'row': {'alive': True, 'f': row0},
                    'sched': [[gap, [wf_model_intf(intf, sname, isolo, row0)]]]})
                mod = {'row': m['db']['f'], 'writes': [t for t in m['trace'] if t != 'select'],
                       'aborted': m['status'] == 'aborted'}
                if real != mod:
                    ctx.disagree(stream, case, mod, real)
                ctx.sample({'stream': stream, 'case': case, 'real': real})
    return W


def run_chunk(ctx, family='wf', scenarios=None, interferers=None):
    from harness import boot
    boot.boot()
    if family == 'wf':
        run_wf_cases(ctx, scenarios, interferers)
    elif family == 'action':
        run_action_cases(ctx)
    elif family == 'task':
        run_task_cases(ctx)
    elif family == 'capture':
        run_job_cases(ctx)
    else:
        run_cron_cases(ctx)


# =====================================================================================
# cron trigger row: N processors running the real advance_cron_trigger on the same read copy
# =====================================================================================
CRON_SCENARIOS = {
    # name: (count, generated script)
    'last': (1, 'advanceLast'),
    'next': (3, 'advanceNext'),
    'unlimited': (None, 'advanceNext'),
}


class CronWorld(object):
    def __init__(self):
        from harness import cron_driver as CD
        self.CD = CD
        self.w = CD.world()
        self.tap = tap()
        self.tap.watch(self.w.models.CronTrigger, CRON_TABLE, 'next_execution_time')

    def prepare(self, count, nprocs):
        """one trigger, due; every processor holds its own copy read by the real due query"""
        w = self.w
        w.clean()
        w.now = 1000
        err = w.create({'name': 't0', 'project': 'projA', 'input': {'a': 1}, 'params': {},
                        'pattern': '*/5 * * * *', 'first': None, 'count': count})
        if err:
            raise RuntimeError('create_cron_trigger: %s' % err)
        rows = w.rows()
        w.now = rows[0]['next'] + 7
        copies = []
        for _ in range(nprocs):
            w.auth_ctx.set_ctx(w.admin)
            ts = w.triggers.get_next_cron_triggers()
            if len(ts) != 1:
                raise RuntimeError('due query returned %d triggers' % len(ts))
            copies.append(ts[0])
        return rows[0], copies

    def advance(self, t):
        """the real advance_cron_trigger under the context process_cron_triggers_v2 sets"""
        w = self.w
        w.auth_ctx.set_ctx(w.auth_ctx.MistralContext(user_id=None, project_id=t.project_id,
                                                     auth_token=None, is_admin=False))
        try:
            return bool(w.real_advance(t))
        finally:
            w.auth_ctx.set_ctx(w.admin)

    def run(self, count, gaps):
        """gaps = [g0, g1, ..]: processor i+1 runs entirely at statement ordinal g_i of processor i
        (nested); the last processor runs alone.  Returns won flags, logs, final rows."""
        n = len(gaps) + 1
        row0, copies = self.prepare(count, n)
        won = [None] * n
        logs = [None] * n
        vars_ = []
        for t in copies:
            rem = t.remaining_executions
            rem2 = rem - 1 if (rem is not None and rem > 0) else rem
            nxt = self.w.real_next(t.pattern, max(self.CD.to_dt(self.w.now), t.next_execution_time))
            vars_.append([self.CD.to_t(t.next_execution_time), rem2, self.CD.to_t(nxt)])

        def runner(i):
            def go():
                won[i] = self.advance(copies[i])
            if i == n - 1:
                return lambda: self.tap.nested(go)
            return lambda: self.tap.nested(go, inject_at=gaps[i], injector=inner(i + 1))

        def inner(i):
            def f():
                _, logs[i] = runner(i)()
            return f
        self.tap.start()
        try:
            _, logs[0] = runner(0)()
        finally:
            self.tap.stop()
        return {'row0': row0, 'rows': self.w.rows(), 'won': won, 'logs': logs, 'vars': vars_}


def cron_row(r):
    return {'alive': True, 'f': [r['next'], r['rem']]}


def run_cron_cases(ctx, stream='race-cron'):
    from vlib import core
    from translate import race_scripts
    try:
        scripts, _ = race_scripts.scripts(core.REPO)
    except Exception:
        scripts = None
    W = CronWorld()
    drv = ctx.driver() if scripts is not None else None
    for scen, (count, sname) in CRON_SCENARIOS.items():
        # the uninterfered statement sequence gives the positions
        solo = W.run(count, [])
        sig = significant(solo['logs'][0])
        npos = len(sig)
        for nprocs in (2, 3):
            import itertools
            for gaps in itertools.product(range(npos), repeat=nprocs - 1):
                ords = [sig[g]['n'] for g in gaps]
                r = W.run(count, ords)
                case = {'family': 'cron', 'script': sname, 'scenario': scen, 'count': count,
                        'processors': nprocs, 'positions': list(gaps),
                        'statements': [sig[g]['sql'][:50] for g in gaps]}
                ctx.count(stream, 'scenario:' + scen)
                ctx.count(stream, 'processors:%d' % nprocs)
                ctx.evaluated(stream, [scen, nprocs, list(gaps)], nontrivial=True)
                wins = sum(1 for x in r['won'] if x)
                ctx.count(stream, 'wins:%d' % wins)
                real = {'won': r['won'], 'rows': [[x['next'], x['rem']] for x in r['rows']],
                        'writes': [norm_writes(writes(l)) for l in r['logs']]}
                # monitor: at most one start per (trigger, next_execution_time); never more than count
                if wins > 1:
                    ctx.violation(
                        '%d processors holding the same copy of a cron trigger (next_execution_time=%s, '
                        'remaining=%s) all won advance_cron_trigger: the occurrence would be started %d times'
                        % (wins, r['row0']['next'], r['row0']['rem'], wins),
                        dict(case, kind='race', real=real),
                        {'kind': 'occurrence-won-twice', 'script': sname})
                if count == 1 and r['rows']:
                    ctx.violation('the trigger row survived its last occurrence', dict(case, kind='race', real=real),
                                  {'kind': 'last-occurrence-row-kept', 'script': sname})
                if drv is None:
                    continue
                n0 = len(scripts[sname])
                # processor i runs statements [0, g_i), then i+1 .., then the rest (+ commit steps)
                stmt_idx = [i for i, s in enumerate(scripts[sname]) if s[0] in ('read', 'cas', 'delete')]
                if len(stmt_idx) != npos:
                    ctx.disagree(stream, dict(case, shape=True), stmt_idx, [e['kind'] for e in sig])
                    continue
                sched = []
                for i, g in enumerate(gaps):
                    sched += [i] * stmt_idx[g]
                sched += [nprocs - 1] * (n0 + 2)
                for i in reversed(range(nprocs - 1)):
                    sched += [i] * (n0 + 2)
                m = drv.call('race.many', {'row': cron_row(r['row0']),
                                           'procs': [{'script': sname, 'vars': v} for v in r['vars']],
                                           'sched': sched})
                mod = {'won': [p['won'] for p in m['procs']],
                       'rows': [m['db']['f']] if m['db']['alive'] else [],
                       'writes': [[t for t in p['trace'] if t != 'select'] for p in m['procs']]}
                if not all(p['done'] for p in m['procs']):
                    ctx.disagree(stream, case, 'model schedule did not finish every processor', m['procs'])
                elif real != mod:
                    ctx.disagree(stream, case, mod, real)
                ctx.sample({'stream': stream, 'case': case, 'real': real})


# =====================================================================================
# action execution row: two results for one action execution (C03 "accepted at most once")
# =====================================================================================
ACT_TABLE = 'action_executions_v2'


class ActWorld(object):
    def __init__(self, seed=0):
        from harness import engine_driver
        self.w = engine_driver.EngineWorld(seed=seed, id_mode='seq')
        from mistral.db.v2.sqlalchemy import models
        self.tap = tap()
        self.tap.watch(models.ActionExecution, ACT_TABLE, 'state')
        self.aid = None

    def results(self):
        from mistral_lib import actions as ml
        return {'ok': ml.Result(data='second'), 'error': ml.Result(error='first'),
                'ok2': ml.Result(data='first-ok')}

    def prepare(self, which):
        w = self.w
        w._reset()
        w.create_workflows(WF_YAML)
        w.start_workflow('race_wf')
        for _ in range(8):
            for item in w.enabled():
                kind, x = item
                if kind == 'p' and x.kind == 'action':
                    self.aid = x.data['action_ex_id']
                    res = self.results()[which]
                    return lambda: w.op('on_action_complete', self.aid, res)
            en = w.enabled()
            if not en:
                break
            w.deliver(en[0])
        raise RuntimeError('no action became pending')

    def interferer(self, which):
        from mistral import context as auth_context
        res = self.results()[which]

        def run():
            auth_context.set_ctx(self.w.ctx)
            try:
                self.w.engine.on_action_complete(self.aid, res)
            except Exception as e:      # a rejected result raises to the RPC layer
                self.intf_error = type(e).__name__
            self.after_intf = self.row()
        return run

    def row(self):
        from mistral.db.v2 import api as db_api
        from mistral_lib import utils
        from mistral.db.sqlalchemy import base as db_base
        names = [db_base._DB_SESSION_THREAD_LOCAL_NAME, db_base._TX_SCOPED_CACHE_THREAD_LOCAL_NAME]
        saved = [utils.get_thread_local(n) for n in names]
        for n in names:
            utils.set_thread_local(n, None)
        was = self.tap.in_intf
        self.tap.in_intf = True
        try:
            with db_api.transaction(read_only=True):
                e = db_api.get_action_execution(self.aid)
                return [e.state, None, _jd(e.output), bool(e.accepted), None]
        finally:
            self.tap.in_intf = was
            for n, v in zip(names, saved):
                utils.set_thread_local(n, v)

    def run(self, which, intf=None, at=None):
        script = self.prepare(which)
        row0 = self.row()
        self.after_intf = None
        self.intf_error = None
        n_err = len(self.w.errors)
        self.tap.start(inject_at=at, injector=self.interferer(intf) if intf else None)
        try:
            script()
        finally:
            log = self.tap.stop()
        errs = self.w.errors[n_err:]
        return {'row0': row0, 'row': self.row(), 'log': log, 'after_intf': self.after_intf,
                'injected': self.tap.injected, 'errors': [(e['type'], e['declared']) for e in errs]}


def run_action_cases(ctx, stream='race-action'):
    from vlib import core
    from translate import race_scripts
    try:
        scripts, _ = race_scripts.scripts(core.REPO)
    except Exception:
        scripts = None
    W = ActWorld(seed=ctx.seed)
    drv = ctx.driver() if scripts is not None else None
    sname = 'actionComplete'
    for which, intf in (('ok', 'error'), ('ok', 'ok2'), ('error', 'ok2')):
        solo = W.run(which)
        isolo = W.run(intf)['row']
        row0, solo_row = solo['row0'], solo['row']
        try:
            positions = model_positions(scripts[sname], solo['log']) if scripts else \
                [(e['n'], None) for e in significant(solo['log'])]
        except ValueError as e:
            ctx.disagree(stream, {'shape': True, 'which': which}, str(e), [(x['kind'], x['sig']) for x in solo['log']])
            positions = [(e['n'], None) for e in significant(solo['log'])]
        # the script's pre-lock positions: up to and including its first write
        for (n, gap) in positions:
            r = W.run(which, intf, n)
            case = {'family': 'action', 'script': sname, 'result': which, 'interferer': 'result:' + intf,
                    'position': n, 'gap': gap,
                    'statement': next((e['sql'][:60] for e in solo['log'] if e['n'] == n), None)}
            ctx.count(stream, 'result:%s/%s' % (which, intf))
            if not r['injected']:
                ctx.count(stream, 'not-injected')
                continue
            ctx.evaluated(stream, [which, intf, n], nontrivial=True)
            a = r['after_intf']
            first = n == positions[0][0]
            if not first and a is not None and a[0] in FINAL and a[3] and r['row'] != a:
                ctx.violation(
                    'action execution whose result was accepted (%s, output %s) by one engine transaction was '
                    'overwritten by a second result handled concurrently: now %s, output %s (RegularAction.complete '
                    'checks is_completed on its stale copy and writes state/output unconditionally)'
                    % (a[0], a[2][:60], r['row'][0], r['row'][2][:60]),
                    dict(case, kind='race', real={'row': r['row'], 'after_interferer': a, 'row0': row0}),
                    {'kind': 'accepted-action-result-overwritten-by-racing-result'})
            if drv is None or gap is None:
                continue
            m = drv.call('race.run', {
                'script': sname, 'vars': [solo_row[0], None, solo_row[2]],
                'row': {'alive': True, 'f': row0},
                'sched': [[gap, [{'script': sname, 'vars': [isolo[0], None, isolo[2]]}]]]})
            real = {'row': r['row'], 'rejected': bool(r['errors'])}
            mod = {'row': m['db']['f'], 'rejected': m['status'] == 'aborted'}
            if real != mod:
                ctx.disagree(stream, case, mod, real)
            ctx.sample({'stream': stream, 'case': case, 'real': real})


# =====================================================================================
# task row: racing completions of one task (C03 task final, C06 dispatch once, C09 report_once
# parent side)
# =====================================================================================
TASK_TABLE = 'task_executions_v2'
TASK_YAML = """
version: '2.0'
race_t:
  tasks:
    t1:
      action: std.echo output="hello"
      on-success:
        - t2
    t2:
      action: std.noop
race_parent:
  tasks:
    p1:
      workflow: race_child
      on-success:
        - p2
    p2:
      action: std.noop
race_child:
  tasks:
    c1:
      action: std.noop
"""


class TaskWorld(object):
    def __init__(self, seed=0):
        from harness import engine_driver
        self.w = engine_driver.EngineWorld(seed=seed, id_mode='seq')
        from mistral.db.v2.sqlalchemy import models
        self.models = models
        self.tap = tap()
        self.tap.watch(models.TaskExecution, TASK_TABLE, 'state')
        self.tid = None

    def _fresh_read(self, fn):
        from mistral.db.v2 import api as db_api
        from mistral_lib import utils
        from mistral.db.sqlalchemy import base as db_base
        names = [db_base._DB_SESSION_THREAD_LOCAL_NAME, db_base._TX_SCOPED_CACHE_THREAD_LOCAL_NAME]
        saved = [utils.get_thread_local(n) for n in names]
        for n in names:
            utils.set_thread_local(n, None)
        was = self.tap.in_intf
        self.tap.in_intf = True
        try:
            with db_api.transaction(read_only=True):
                return fn(db_api)
        finally:
            self.tap.in_intf = was
            for n, v in zip(names, saved):
                utils.set_thread_local(n, v)

    def prepare(self, scenario):
        """returns (script, interferer): two real transactions that both complete the SAME task"""
        from mistral_lib import actions as ml
        from mistral.db.v2 import api as db_api
        from mistral.engine import post_tx_queue, task_handler
        from mistral import context as auth_context
        w = self.w
        w._reset()
        w.create_workflows(TASK_YAML)
        eng = w.engine
        if scenario == 'action-vs-fail':
            w.start_workflow('race_t')
            for _ in range(8):
                hit = [x for k, x in w.enabled() if k == 'p' and x.kind == 'action']
                if hit:
                    break
                w.deliver(w.enabled()[0])
            aid = hit[0].data['action_ex_id']
            self.tid = self._fresh_read(lambda d: d.get_action_execution(aid).task_execution_id)
            tid = self.tid

            @post_tx_queue.run
            def other():
                with db_api.transaction():
                    task_handler.complete_task(db_api.get_task_execution(tid), 'ERROR', 'timeout')

            def intf():
                auth_context.set_ctx(w.ctx)
                other()
                self.after_intf = self.row()
                self.tasks_after_intf = self.n_tasks()
            return (lambda: w.op('on_action_complete', aid, ml.Result(data='ok'))), intf
        if scenario == 'child-result-twice':
            w.start_workflow('race_parent')
            item = None
            for _ in range(30):
                hit = [(k, x) for k, x in w.enabled() if k == 'p' and x.kind == 'rpc' and
                       x.data['method'] == 'on_action_complete' and x.data['kwargs'].get('wf_action')]
                if hit:
                    item = hit[0]
                    break
                en = w.enabled()
                if not en:
                    break
                w.deliver(en[0])
            if item is None:
                raise RuntimeError('child result message never became pending')
            kw = dict(item[1].data['kwargs'])
            cid = kw.get('action_ex_id')
            self.tid = self._fresh_read(lambda d: d.get_workflow_execution(cid).task_execution_id)

            def intf():
                auth_context.set_ctx(w.ctx)
                try:
                    eng.on_action_complete(**kw)
                except Exception as e:
                    self.intf_error = type(e).__name__
                self.after_intf = self.row()
                self.tasks_after_intf = self.n_tasks()
            return (lambda: w.deliver(item)), intf
        raise ValueError(scenario)

    def row(self):
        def f(d):
            t = d.get_task_execution(self.tid)
            return [t.state, t.state_info, _jd(t.next_tasks), bool(t.processed), bool(t.has_next_tasks),
                    bool(t.error_handled)]
        return self._fresh_read(f)

    def n_tasks(self):
        return self._fresh_read(lambda d: len(d.get_task_executions()))

    def run(self, scenario, with_intf=False, at=None):
        script, intf = self.prepare(scenario)
        row0 = self.row()
        n0 = self.n_tasks()
        self.after_intf = None
        self.tasks_after_intf = None
        self.intf_error = None
        n_err = len(self.w.errors)
        self.tap.start(inject_at=at, injector=intf if with_intf else None)
        try:
            script()
        finally:
            log = self.tap.stop()
        errs = self.w.errors[n_err:]
        return {'row0': row0, 'row': self.row(), 'log': log, 'after_intf': self.after_intf,
                'n0': n0, 'n': self.n_tasks(), 'n_after_intf': self.tasks_after_intf,
                'injected': self.tap.injected, 'errors': [(e['type'], e['declared']) for e in errs]}

    def solo_intf(self, scenario):
        _, intf = self.prepare(scenario)
        self.after_intf = None
        self.tap.in_intf = True
        try:
            intf()
        finally:
            self.tap.in_intf = False
        return self.after_intf


def task_vars(row):
    """script variables of taskComplete from a solo final row"""
    return [row[0], row[1], row[2], None, row[4], row[5], None, None]


def run_task_cases(ctx, stream='race-task'):
    from vlib import core
    from translate import race_scripts
    try:
        scripts, _ = race_scripts.scripts(core.REPO)
    except Exception:
        scripts = None
    W = TaskWorld(seed=ctx.seed)
    drv = ctx.driver() if scripts is not None else None
    sname = 'taskComplete'
    for scenario in ('action-vs-fail', 'child-result-twice'):
        solo = W.run(scenario)
        isolo = W.solo_intf(scenario)
        row0, solo_row = solo['row0'], solo['row']
        try:
            positions = model_positions(scripts[sname], solo['log']) if scripts else \
                [(e['n'], None) for e in significant(solo['log'])]
        except ValueError as e:
            ctx.disagree(stream, {'shape': True, 'scenario': scenario}, str(e),
                         [(x['kind'], x['sig']) for x in solo['log']])
            positions = [(e['n'], None) for e in significant(solo['log'])]
        for (n, gap) in positions:
            r = W.run(scenario, True, n)
            case = {'family': 'task', 'script': sname, 'scenario': scenario, 'position': n, 'gap': gap,
                    'interferer': 'complete_task(ERROR)' if scenario == 'action-vs-fail' else 'the same child result',
                    'statement': next((e['sql'][:60] for e in solo['log'] if e['n'] == n), None)}
            ctx.count(stream, 'scenario:' + scenario)
            if not r['injected']:
                ctx.count(stream, 'not-injected')
                continue
            ctx.evaluated(stream, [scenario, n], nontrivial=True)
            a = r['after_intf']
            first = n == positions[0][0]
            if not first and a is not None and a[0] in FINAL + ('SKIPPED',):
                if r['row'] != a:
                    ctx.violation(
                        'task completed by one transaction (%r) was altered by a second completion of the same '
                        'task handled concurrently: now %r' % (a, r['row']),
                        dict(case, kind='race', real={'row': r['row'], 'after_interferer': a, 'row0': row0}),
                        {'kind': 'completed-task-altered-by-racing-completion', 'scenario': scenario})
                elif r['n'] != r['n_after_intf']:
                    ctx.violation(
                        'the completion that lost the race on the task row still dispatched next tasks: %d task '
                        'executions after the winner, %d at the end' % (r['n_after_intf'], r['n']),
                        dict(case, kind='race', real={'row': r['row'], 'n': r['n'], 'n_after_interferer': r['n_after_intf']}),
                        {'kind': 'next-tasks-dispatched-twice', 'scenario': scenario})
            if drv is None or gap is None:
                continue
            m = drv.call('race.run', {
                'script': sname, 'vars': task_vars(solo_row), 'row': {'alive': True, 'f': row0},
                'sched': [[gap, [{'script': sname, 'vars': task_vars(isolo)}]]]})
            real = {'row': r['row'], 'dispatched': r['n'] != (r['n_after_intf'] if r['n_after_intf'] is not None else r['n0'])}
            mod = {'row': m['db']['f'], 'dispatched': 4 in m['emitted']}
            if real != mod:
                ctx.disagree(stream, case, mod, real)
            ctx.sample({'stream': stream, 'case': case, 'real': real})


# =====================================================================================
# scheduled job row: N schedulers capturing the same candidate (C13)
# =====================================================================================
JOB_TABLE = 'scheduled_jobs_v2'


class JobWorld(object):
    def __init__(self, seed=0):
        from harness import engine_driver
        self.w = engine_driver.EngineWorld(seed=seed, id_mode='seq')
        from mistral.db.v2.sqlalchemy import models
        self.tap = tap()
        self.tap.watch(models.ScheduledJob, JOB_TABLE, 'captured_at')

    def prepare(self):
        from mistral.scheduler import base as sb
        w = self.w
        w._reset()
        job = sb.SchedulerJob(run_after=0, func_name='mistral.tests.unit.scheduler.test_default_scheduler.target',
                              func_args={})
        w.scheduler._persist_job(job)
        w.tick(3600)

    def capture_pass(self):
        """the REAL DefaultScheduler._process_store_jobs of a scheduler instance of its own (threads never
        started): candidates read and captured in one transaction; what it would then invoke is recorded
        instead of being invoked and deleted.  Returns [True] if this scheduler would invoke the job."""
        from oslo_config import cfg
        from mistral.scheduler import default_scheduler as ds
        s = ds.DefaultScheduler(cfg.CONF.scheduler)
        invoked = []
        s._prepare_and_invoke_job = lambda job: invoked.append(job.id)
        s._delete_scheduled_job = lambda job: None
        s._process_store_jobs()
        return [bool(invoked)]

    def rows(self):
        from mistral.db.v2 import api as db_api
        was = self.tap.in_intf
        self.tap.in_intf = True
        try:
            with db_api.transaction(read_only=True):
                return [None if j.captured_at is None else 1 for j in db_api.get_scheduled_jobs()]
        finally:
            self.tap.in_intf = was

    def run(self, gaps):
        n = len(gaps) + 1
        self.prepare()
        won = [None] * n
        logs = [None] * n

        def runner(i):
            def go():
                r = self.capture_pass()
                won[i] = bool(r and r[0])
            if i == n - 1:
                return lambda: self.tap.nested(go)
            return lambda: self.tap.nested(go, inject_at=gaps[i], injector=inner(i + 1))

        def inner(i):
            def f():
                _, logs[i] = runner(i)()
            return f
        self.tap.start()
        try:
            _, logs[0] = runner(0)()
        finally:
            self.tap.stop()
        return {'won': won, 'logs': logs, 'rows': self.rows()}


def run_job_cases(ctx, stream='race-capture'):
    import itertools
    from vlib import core
    from translate import race_scripts
    try:
        scripts, _ = race_scripts.scripts(core.REPO)
    except Exception:
        scripts = None
    W = JobWorld(seed=ctx.seed)
    drv = ctx.driver() if scripts is not None else None
    sname = 'captureJob'
    solo = W.run([])
    sig = significant(solo['logs'][0])
    npos = len(sig)
    for nprocs in (2, 3):
        for gaps in itertools.product(range(npos), repeat=nprocs - 1):
            ords = [sig[g]['n'] for g in gaps]
            r = W.run(ords)
            case = {'family': 'capture', 'script': sname, 'processors': nprocs, 'positions': list(gaps),
                    'statements': [sig[g]['sql'][:50] for g in gaps]}
            ctx.count(stream, 'processors:%d' % nprocs)
            ctx.evaluated(stream, [nprocs, list(gaps)], nontrivial=True)
            wins = sum(1 for x in r['won'] if x)
            ctx.count(stream, 'wins:%d' % wins)
            real = {'won': r['won'], 'rows': r['rows']}
            if wins > 1:
                ctx.violation('%d schedulers that selected the same scheduled job (captured_at null) all captured it: '
                              'the job would be invoked %d times' % (wins, wins),
                              dict(case, kind='race', real=real),
                              {'kind': 'job-captured-twice', 'script': sname})
            if drv is None:
                continue
            stmt_idx = [i for i, s in enumerate(scripts[sname]) if s[0] in ('read', 'cas', 'delete')]
            if len(stmt_idx) != npos:
                ctx.disagree(stream, dict(case, shape=True), stmt_idx, [e['kind'] for e in sig])
                continue
            n0 = len(scripts[sname])
            sched = []
            for i, g in enumerate(gaps):
                sched += [i] * stmt_idx[g]
            sched += [nprocs - 1] * (n0 + 2)
            for i in reversed(range(nprocs - 1)):
                sched += [i] * (n0 + 2)
            m = drv.call('race.many', {'row': {'alive': True, 'f': [None]},
                                       'procs': [{'script': sname, 'vars': [1]}] * nprocs, 'sched': sched})
            mod = {'won': [p['won'] for p in m['procs']], 'rows': [1 if m['db']['f'][0] is not None else None]}
            if real != mod:
                ctx.disagree(stream, case, mod, real)
            ctx.sample({'stream': stream, 'case': case, 'real': real})
