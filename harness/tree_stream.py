"""Stream `tree`: the real engine on nested sub-workflow TREES vs Mistral.Tree, step by step (C11 / C10).

A case = generated definitions (depth 2..3; per level 1..2 sub-workflow tasks running side by side, plain or
with-items with / without concurrency, on-success / on-error continuations, an extra action task) x start
mode (in-process / start_subworkflows_via_rpc) x action results x operator commands (stop CANCELLED / ERROR /
SUCCESS on the root or an inner execution at random points) x a random schedule of everything pending.

For every delivered item of the real run the corresponding model `Event` is built; after EVERY event the
committed rows (every workflow execution: definition, parent task, index, state, state_info class, output
class, accepted, number of result messages registered / processed; every task execution: owner, name, state,
processed, has_next, error_handled, with-items bookkeeping) and the multiset of pending deliveries of the
real engine must equal the model's.  Executions and tasks are identified by creation rank.

Monitors (the statement of C11 read on the real rows, independent of the model): see `monitor`.
A `script` (list of model events) instead of a random schedule replays a Lean witness on the real engine."""
import copy
import json
import random

STREAM = 'tree'
FINAL = ('SUCCESS', 'ERROR', 'CANCELLED')
SKIP_SIG = {'kind': 'cancel-skips-running-descendants-of-a-finished-child'}
LATE_SIG = {'kind': 'subworkflow-started-below-cancelled-workflow'}
LOST_SIG = {'kind': 'post-commit-operation-lost-after-expire-all'}
RESTOP_SIG = {'kind': 'second-stop-success-rewrites-message-and-reports-again'}


# ======================================================================================= generator
def gen_case(rng, p_ops=0.85, p_pause=0.35, resume_items=True):
    depth = rng.choice([2, 2, 3, 3, 3])
    defs = []
    for lvl in range(depth):
        if lvl == depth - 1:
            tasks = [{'name': 'c1', 'kind': 'action', 'onSuccess': ['c2'], 'onError': ['ce'] if rng.random() < 0.3 else []},
                     {'name': 'c2', 'kind': 'action', 'onSuccess': [], 'onError': []}]
            if tasks[0]['onError']:
                tasks.append({'name': 'ce', 'kind': 'action', 'onSuccess': [], 'onError': []})
            defs.append(tasks)
            continue
        tasks = []
        n_calls = rng.choice([1, 1, 2])
        for k in range(1, n_calls + 1):
            items = conc = None
            if rng.random() < 0.45:
                items = rng.choice([1, 2, 2, 3])
                conc = rng.choice([None, None, 1, 2])
            t = {'name': 'a%d' % k, 'kind': {'subwf': lvl + 1, 'items': items, 'conc': conc},
                 'onSuccess': ['b%d' % k] if rng.random() < 0.7 else [],
                 'onError': ['e%d' % k] if rng.random() < 0.4 else []}
            tasks.append(t)
        for t in list(tasks):
            for n in t['onSuccess'] + t['onError']:
                # a continuation may itself call the next level (a child created late)
                kind = 'action'
                if rng.random() < 0.15:
                    kind = {'subwf': lvl + 1, 'items': None, 'conc': None}
                tasks.append({'name': n, 'kind': kind, 'onSuccess': [], 'onError': []})
        if rng.random() < 0.3:
            tasks.append({'name': 'z', 'kind': 'action', 'onSuccess': [], 'onError': []})
        tasks.sort(key=lambda t: t['name'])
        defs.append(tasks)
    case = {'defs': defs, 'viaRpc': rng.random() < 0.35, 'p_err': rng.choice([0.0, 0.1, 0.25]),
            'policy': rng.choice(['random', 'random', 'random', 'fifo', 'lifo']), 'seed': rng.getrandbits(32), 'ops': []}
    if rng.random() < p_ops:
        n = rng.choice([1, 1, 2, 3])
        at = 0
        paused = False
        # resume x with-items callers (resume_items): when a resumed with-items child completes inside the resume
        # transaction, check_and_complete()'s expire_all() expires + detaches the ScheduledJob objects the
        # scheduler keeps in memory; those update jobs leave the scheduler's memory and only run after the store
        # poller's pickup delay, which this harness cannot deliver one at a time (docs/C10.md)
        has_items = any(t['kind'] != 'action' and t['kind'].get('items') is not None for d in defs for t in d)
        for i in range(n):
            at += rng.randint(1, 30 if i == 0 else 12)
            prefs = ['running', 'running', 'inner', 'root', 'any', 'finished', 'item'] + \
                (['again', 'again', 'parent', 'parent'] if i else [])
            r = rng.random()
            if r > 0.93 and (resume_items or not has_items):
                # a resume request addressed to a FINISHED (or any) execution; late results follow
                o = {'at': at, 'op': 'resume', 'which': rng.randint(0, 7), 'pref': rng.choice(['finished', 'finished', 'again'])}
            elif paused and r < 0.45 and (resume_items or not has_items):
                o = {'at': at, 'op': 'resume', 'which': rng.randint(0, 7),
                     'pref': rng.choice(['paused', 'paused', 'root', 'again', 'any'])}
                paused = False
            elif r < p_pause:
                o = {'at': at, 'op': 'pause', 'which': rng.randint(0, 7), 'pref': rng.choice(prefs)}
                paused = True
            else:
                o = {'at': at, 'op': 'stop', 'state': rng.choice(['CANCELLED', 'CANCELLED', 'CANCELLED', 'ERROR', 'SUCCESS']),
                     'which': rng.randint(0, 7), 'pref': rng.choice(prefs + (['root', 'root', 'paused'] if paused else [])),
                     'msg': 'msg%d' % i}
                if paused and rng.random() < 0.5:
                    # pause-then-cancel: PAUSED sub-workflows below PAUSED tasks must be cancelled too
                    o['state'] = 'CANCELLED'
                    o['pref'] = rng.choice(['root', 'root', 'parent', 'again'])
            case['ops'].append(o)
    return case


def build_yaml(case):
    import yaml
    doc = {'version': '2.0'}
    for d, tasks in enumerate(case['defs']):
        ts = {}
        for t in tasks:
            x = {}
            if t['kind'] == 'action':
                x['action'] = 'std.noop'
            else:
                k = t['kind']
                x['workflow'] = 'w%d' % k['subwf']
                if k.get('items') is not None:
                    x['with-items'] = 'i in <% range(0, ' + str(k['items']) + ').toList() %>' if k['items'] else 'i in <% [] %>'
                    if k.get('conc'):
                        x['concurrency'] = k['conc']
            if t['onSuccess']:
                x['on-success'] = list(t['onSuccess'])
            if t['onError']:
                x['on-error'] = list(t['onError'])
            ts[t['name']] = x
        doc['w%d' % d] = {'type': 'direct', 'output': {'who': 'w%d' % d}, 'tasks': ts}
    return yaml.safe_dump(doc, sort_keys=False, default_flow_style=False)


# ======================================================================================= mapping real -> model
class Mapper(object):
    def __init__(self, world, msgs):
        self.w = world
        self.msgs = set(msgs)
        self.wf_rank = {}
        self.task_rank = {}
        self.sent = {}        # wf id -> number of _send_result registrations
        self.got = {}         # wf id -> number of processed result messages
        self._seen_ops = set()
        self._keep = []       # keeps the registered operations alive: their id() is the registration's identity

    def refresh(self):
        from mistral.db.v2 import api as db_api
        o = self.w.id_ord
        with db_api.transaction(read_only=True):
            wfs = sorted((x.id for x in db_api.get_workflow_executions(fields=['id'])), key=lambda i: o.get(i, 0))
            ts = sorted((x.id for x in db_api.get_task_executions(fields=['id'])), key=lambda i: o.get(i, 0))
        self.wf_rank = {i: k for k, i in enumerate(wfs)}
        self.task_rank = {i: k for k, i in enumerate(ts)}

    def action_task(self, action_id):
        from mistral.db.v2 import api as db_api
        with db_api.transaction(read_only=True):
            a = db_api.load_action_execution(action_id)
            return a.task_execution_id if a else None

    @staticmethod
    def _cell(func, pred):
        for c in func.__closure__ or ():
            try:
                o = c.cell_contents
            except ValueError:
                continue
            if pred(o):
                return o
        return None

    @staticmethod
    def _pk(obj):
        """primary key of an ORM object without touching the database (the object may be expired + detached)"""
        try:
            from sqlalchemy import inspect
            ident = inspect(obj).identity
            if ident:
                return ident[0]
        except Exception:
            pass
        return obj.id

    def _cell_id(self, func, ranks):
        """a captured id (repo patch 22: the operations capture plain ids when they are registered)"""
        for c in func.__closure__ or ():
            try:
                o = c.cell_contents
            except ValueError:
                continue
            if isinstance(o, str) and o in ranks:
                return o
        return None

    def op_item(self, op):
        func, args, in_tx = op
        name = getattr(func, '__name__', '')
        if name == '_start_task':
            d = func.__defaults__
            tid = d[3] if len(d) > 3 else self._pk(d[0].task_ex)
            return {'k': 'postStartTask', 'n': self.task_rank.get(tid),
                    'first': bool(func.__defaults__[1])}
        if name == '_run_action':
            o = self._cell(func, lambda o: hasattr(o, 'task_ex') and hasattr(o, 'action_ex'))
            if o is not None:
                return {'k': 'postRunAction', 'n': self.task_rank.get(self._pk(o.task_ex))}
            d = self._cell(func, lambda o: isinstance(o, dict) and 'task_execution_id' in o)
            return {'k': 'postRunAction', 'n': self.task_rank.get(d['task_execution_id'])} if d else None
        if name == '_check':
            o = self._cell(func, lambda o: hasattr(o, 'wf_ex') and hasattr(o, 'task_ex'))
            wid = self._pk(o.wf_ex) if o is not None else self._cell_id(func, self.wf_rank)
            return {'k': 'postCheck', 'n': self.wf_rank.get(wid)} if wid is not None else None
        if name == '_send_result':
            o = self._cell(func, lambda o: hasattr(o, 'wf_ex') and hasattr(o, 'wf_spec'))
            wid = self._pk(o.wf_ex) if o is not None else self._cell_id(func, self.wf_rank)
            return {'k': 'postSendResult', 'n': self.wf_rank.get(wid), '_wf': wid} if wid is not None else None
        if name == '_start_subworkflow':
            p = self._cell(func, lambda o: isinstance(o, dict) and 'task_execution_id' in o)
            return {'k': 'postStartSub', 'n': self.task_rank.get(p['task_execution_id']), 'idx': p['index']} if p else None
        return None

    def item(self, it):
        kind, x = it
        if kind == 'job':
            if x.func_name.endswith('_scheduled_on_action_complete') and x.func_args.get('wf_action'):
                return {'k': 'jobChildComplete', 'n': self.wf_rank.get(x.func_args['action_ex_id'])}
            if x.func_name.endswith('_scheduled_on_action_update') and x.func_args.get('wf_action'):
                return {'k': 'jobChildUpdate', 'n': self.wf_rank.get(x.func_args['action_ex_id'])}
            return None
        if x.kind == 'posttx':
            return self.op_item(x.data[0])
        if x.kind == 'rpc':
            m = x.data['method']
            kw = x.data['kwargs']
            if m == 'start_task':
                return {'k': 'rpcStartTask', 'n': self.task_rank.get(kw['task_ex_id']), 'first': bool(kw.get('first_run'))}
            if m == 'on_action_complete':
                if kw.get('wf_action'):
                    return {'k': 'rpcChildResult', 'n': self.wf_rank.get(kw['action_ex_id']), '_wf': kw['action_ex_id']}
                return {'k': 'rpcResult', 'n': self.task_rank.get(self.action_task(kw['action_ex_id'])),
                        'ok': bool(kw['result'].is_success())}
            if m == 'start_workflow' and kw.get('task_execution_id'):
                return {'k': 'rpcStartSub', 'n': self.task_rank.get(kw['task_execution_id']), 'idx': kw.get('index', 0)}
            return None
        if x.kind == 'action':
            return {'k': 'runAction', 'n': self.task_rank.get(self.action_task(x.data['action_ex_id']))}
        return None

    def scan_sent(self):
        """count the registrations of `_send_result` (each registered operation object once)"""
        for p in self.w.pending:
            if p.kind != 'posttx':
                continue
            for op in p.data:
                if id(op) in self._seen_ops:
                    continue
                self._seen_ops.add(id(op))
                self._keep.append(op)
                if getattr(op[0], '__name__', '') == '_send_result':
                    i = self.op_item(op)
                    if i is not None:
                        self.sent[i['_wf']] = self.sent.get(i['_wf'], 0) + 1

    def pending_strs(self):
        res = []
        for p in self.w.pending:
            if p.kind == 'posttx':
                for op in p.data:
                    res.append(fmt(self.op_item(op)))
            else:
                res.append(fmt(self.item(('p', p))))
        live = _live_job_ids(self.w)
        for j in self.w.jobs():
            if j.func_name.endswith('_check_and_fix_integrity') or j.id not in live:
                continue
            res.append(fmt(self.item(('job', j))))
        return sorted(res)

    def info(self, s):
        if s is None:
            return 'none'
        if s in self.msgs:
            return 'op:' + s
        return 'auto'

    def out(self, o):
        if not o:
            return 'empty'
        if isinstance(o, dict) and set(o.keys()) == {'result'}:
            return 'result:' + self.info(o['result'])
        return 'data'


def fmt(i):
    if i is None or i.get('n') is None:
        return '?'
    k = i['k']
    if k == 'rpcResult':
        return '%s:%d:%s' % (k, i['n'], 'true' if i['ok'] else 'false')
    if k in ('postStartTask', 'rpcStartTask'):
        return '%s:%d:%s' % (k, i['n'], 'true' if i.get('first', True) else 'false')
    if k in ('postStartSub', 'rpcStartSub'):
        return '%s:%d:%d' % (k, i['n'], i['idx'])
    return '%s:%d' % (k, i['n'])


def real_obs(world, mp):
    mp.refresh()
    mp.scan_sent()
    s = world.snapshot()
    execs = []
    trank = {t['ord']: k for k, t in enumerate(s['tasks'])}
    wrank = {x['ord']: k for k, x in enumerate(s['wfs'])}
    for x in s['wfs']:
        execs.append([int(x['name'][1:]), trank.get(x['parent_task']) if x['parent_task'] is not None else None,
                      x['index'] or 0, x['state'], mp.info(x['state_info']), mp.out(x['output']), x['accepted'],
                      mp.sent.get(x['id'], 0), mp.got.get(x['id'], 0), x['backlog']])
    tasks = []
    for t in s['tasks']:
        wi = (t['rt'] or {}).get('with_items')
        tasks.append([wrank.get(t['wf']), t['name'], t['state'], t['processed'], t['has_next'], t['error_handled'],
                      [wi.get('count'), wi.get('capacity')] if wi else None])
    return {'execs': execs, 'tasks': tasks, 'pending': mp.pending_strs(), 'raised': False}


def model_obs(o):
    return {'execs': o['execs'], 'tasks': [t[:7] for t in o['tasks']], 'pending': sorted(o['pending']),
            'raised': o['raised']}


# ======================================================================================= run
def _same_item(a, b):
    return a is not None and fmt(a) == fmt(b)


def run_case(case, script=None, max_steps=500):
    """Drives the real engine.  Returns dict(events, real, errors, exhausted, unsupported, rows)."""
    from oslo_config import cfg
    from harness.engine_driver import EngineWorld
    from harness import engine_run as er
    from harness import subwf_stream
    # sequential ids: the database lists rows in creation order (the order `continue_workflow` walks the tasks)
    w = EngineWorld(seed=case['seed'], id_mode='seq')
    subwf_stream._fast_schema_validation()
    rng = random.Random(case['seed'])
    cfg.CONF.set_override('start_subworkflows_via_rpc', bool(case['viaRpc']), group='engine')
    try:
        y = build_yaml(case)
        w.create_workflows(y)
        msgs = [o['msg'] for o in case['ops'] if o.get('msg')] + [e['msg'] for e in (script or []) if e.get('ev') == 'stop']
        mp = Mapper(w, msgs)
        forced = {}

        def oracle(world, d):
            if 'ok' in forced:
                return ('run', None) if forced['ok'] else ('error', None)
            return ('error', None) if rng.random() < case['p_err'] else ('run', None)

        events = []
        robs = []
        unsupported = None
        lost = []
        swallowed = []
        from mistral.engine import post_tx_queue as _ptq

        def _log_exception(msg, *a, **k):
            import sys as _sys
            swallowed.append(type(_sys.exc_info()[1]).__name__)
        saved_log_exception = _ptq.LOG.exception
        _ptq.LOG.exception = _log_exception
        last_target = [0]

        def do_stop(wf_rank, state, msg, op='stop'):
            ids = [i for i, k in mp.wf_rank.items() if k == wf_rank]
            n_err = len(w.errors)
            if op == 'stop':
                w.op('stop_workflow', ids[0] if ids else 'no-such-id', state, msg)
                events.append({'ev': 'stop', 'wf': wf_rank, 'state': state, 'msg': msg})
            else:
                w.op(op + '_workflow', ids[0] if ids else 'no-such-id')
                events.append({'ev': op, 'wf': wf_rank})
            robs.append(real_obs(w, mp))
            # the entry point raised (declared WorkflowException: invalid transition) and rolled back
            robs[-1]['raised'] = len(w.errors) > n_err
            last_target[0] = wf_rank

        def deliver(it, mi):
            if it[0] == 'p' and it[1].kind == 'action':
                w.deliver(it, oracle=oracle)
                res = [p for p in w.pending if p.kind == 'rpc' and p.data['method'] == 'on_action_complete'
                       and not p.data['kwargs'].get('wf_action')]
                ok = bool(res[-1].data['kwargs']['result'].is_success()) if res else True
                events.append({'ev': 'execute', 't': mi['n'], 'ok': ok})
            else:
                if mi['k'] == 'rpcChildResult':
                    mp.got[mi['_wf']] = mp.got.get(mi['_wf'], 0) + 1
                del swallowed[:]
                w.deliver(it, oracle=oracle)
                item = {k: v for k, v in mi.items() if not k.startswith('_')}
                if swallowed and it[0] == 'p' and it[1].kind == 'posttx':
                    # post_tx_queue swallowed the exception of this (non-transactional) operation: what it
                    # would have sent is lost (repaired by repo patch 22: a monitor hit and a disagreement now)
                    lost.append({'item': item, 'type': swallowed[0], 'step': len(events)})
                events.append({'ev': 'deliver', 'item': item})
            robs.append(real_obs(w, mp))

        w.start_workflow('w0', {})
        events.append({'ev': 'startRoot', 'defn': 0})
        robs.append(real_obs(w, mp))
        step = 0
        exhausted = False
        if script is not None:
            for e in script[1:]:
                if e['ev'] in ('stop', 'pause', 'resume'):
                    do_stop(e['wf'], e.get('state'), e.get('msg'), op=e['ev'])
                    continue
                en = _enabled(w)
                want = e['item'] if e['ev'] == 'deliver' else {'k': 'runAction', 'n': e['t']}
                hit = [it for it in en if _same_item(mp.item(it), want)]
                if not hit:
                    unsupported = ['script-item-not-enabled', e, [fmt(mp.item(it)) for it in en]]
                    break
                forced.clear()
                if e['ev'] == 'execute':
                    forced['ok'] = e['ok']
                deliver(hit[0], mp.item(hit[0]))
            forced.clear()
        # the generated schedule (after a script: everything still pending is delivered)
        ops = sorted(copy.deepcopy(case['ops']), key=lambda o: o['at']) if script is None else []
        oi = 0
        while unsupported is None:
            if step >= max_steps:
                exhausted = True
                break
            while oi < len(ops) and ops[oi]['at'] <= step:
                o = ops[oi]
                oi += 1
                tgt = _choose(robs[-1], o, last_target[0])
                do_stop(tgt, o.get('state'), o.get('msg'), op=o['op'])
            en = _enabled(w)
            if not en:
                if oi < len(ops):
                    ops[oi]['at'] = step
                    continue
                break
            it = er.pick(rng, case['policy'], en)
            mi = mp.item(it)
            if mi is None or mi.get('n') is None:
                unsupported = w.describe(it)
                break
            deliver(it, mi)
            step += 1
        return {'yaml': y, 'events': events, 'real': robs, 'unsupported': unsupported, 'lost': lost,
                'errors': [{k: e.get(k) for k in ('where', 'declared', 'type', 'msg')} for e in w.errors],
                'exhausted': exhausted}
    finally:
        try:
            _ptq.LOG.exception = saved_log_exception
        except NameError:
            pass
        cfg.CONF.clear_override('start_subworkflows_via_rpc', group='engine')


def _live_job_ids(w):
    """ids of the scheduled jobs that have a row: a job scheduled inside a transaction that was rolled back stays
    in the scheduler's memory but can never capture its row; the dispatcher drops it without running it"""
    from mistral.db.v2 import api as db_api
    with db_api.transaction(read_only=True):
        return set(j.id for j in db_api.get_scheduled_jobs())


def _enabled(w):
    live = _live_job_ids(w)
    return [e for e in w.enabled() if not (e[0] == 'job' and (e[1].func_name.endswith('_check_and_fix_integrity')
                                                                 or e[1].id not in live))]


def _choose(obs, o, last=0):
    """which execution an operator command addresses (by creation rank)"""
    ex = obs['execs']
    pref = o.get('pref', 'any')
    cand = list(range(len(ex)))
    if pref == 'again':
        return min(last, len(ex) - 1)
    if pref == 'parent':
        # the execution that owns the parent task of the last target
        e = ex[min(last, len(ex) - 1)]
        return obs['tasks'][e[1]][0] if e[1] is not None else 0
    if pref == 'item':
        cand = [i for i in cand if ex[i][3] == 'RUNNING' and ex[i][1] is not None
                and obs['tasks'][ex[i][1]][6] is not None] or [i for i in cand if ex[i][3] == 'RUNNING'] or cand
    if pref == 'paused':
        cand = [i for i in cand if ex[i][3] == 'PAUSED'] or cand
    if pref == 'finished':
        cand = [i for i in cand if ex[i][3] in FINAL] or cand
    if pref == 'running':
        cand = [i for i in cand if ex[i][3] == 'RUNNING'] or cand
    elif pref == 'inner':
        cand = [i for i in cand if ex[i][1] is not None and ex[i][3] == 'RUNNING'] or cand
    elif pref == 'root':
        cand = [0]
    return cand[o['which'] % len(cand)]


# ======================================================================================= monitors
def _parent_of(obs):
    """execution rank -> rank of the execution that owns its parent task"""
    return {i: (obs['tasks'][e[1]][0] if e[1] is not None and e[1] < len(obs['tasks']) else None)
            for i, e in enumerate(obs['execs'])}


def _ancestors(par, x):
    out = []
    while par.get(x) is not None:
        x = par[x]
        out.append(x)
    return out


def monitor(run):
    """The statement of C11 read on the real rows after every event.  Returns [(kind, signature, detail)]."""
    hits = []
    ev = run['events']
    obs = run['real']
    last = obs[-1]
    quiescent = not last['pending'] and not run['exhausted'] and not run['unsupported']
    par_last = _parent_of(last)
    for e in run['errors']:
        if not e['declared']:
            hits.append(('undeclared-error', {'kind': 'undeclared-error', 'type': e['type']}, e))
    for l in run.get('lost', []):
        hits.append(('post-commit-operation-lost', dict(LOST_SIG, op=l['item']['k'], type=l['type']), l))
    frozen = {}      # execution -> (state, info, out) once final
    ntasks_at_final = {}
    for k, o in enumerate(obs):
        # "a finished node never changes state / output afterwards" (late results are inert)
        for i, e in enumerate(o['execs']):
            if i in frozen:
                if e[3] != frozen[i][0]:
                    hits.append(('finished-state-changed', {'kind': 'finished-state-changed'},
                                 {'exec': i, 'was': frozen[i], 'now': e[3:6], 'step': k, 'event': ev[k]}))
                elif (e[4], e[5]) != frozen[i][1:]:
                    restop = ev[k].get('ev') == 'stop' and ev[k].get('state') == 'SUCCESS' and ev[k].get('wf') == i \
                        and e[5] == frozen[i][2]
                    if restop and not frozen[i][1].startswith('op:'):
                        # a stop(SUCCESS, msg) request on an execution that SUCCEEDED by itself attaches the
                        # message; state and output are unchanged (not a statement of C11)
                        pass
                    else:
                        hits.append(('finished-output-changed', dict(RESTOP_SIG) if restop else {'kind': 'finished-output-changed'},
                                     {'exec': i, 'was': frozen[i], 'now': e[3:6], 'step': k, 'event': ev[k]}))
                    frozen[i] = (e[3], e[4], e[5])
            elif e[3] in FINAL:
                frozen[i] = (e[3], e[4], e[5])
                ntasks_at_final[i] = len([t for t in o['tasks'] if t[0] == i])
        # "No new task is created in a stopped workflow afterwards"
        for i in ntasks_at_final:
            n = len([t for t in o['tasks'] if t[0] == i])
            if n != ntasks_at_final[i]:
                hits.append(('task-created-in-finished-workflow', {'kind': 'task-created-in-finished-workflow'},
                             {'exec': i, 'step': k, 'event': ev[k]}))
                ntasks_at_final[i] = n
        # "it holds the requested final state with the given message"
        e = ev[k]
        if e.get('ev') == 'stop' and k > 0 and e['wf'] < len(obs[k - 1]['execs']):
            before = obs[k - 1]['execs'][e['wf']]
            after = o['execs'][e['wf']]
            if before[3] == 'RUNNING' and (after[3] != e['state'] or after[4] != 'op:' + e['msg']):
                hits.append(('stop-not-applied', {'kind': 'stop-not-applied', 'requested': e['state']},
                             {'exec': e['wf'], 'before': before[3], 'after': after[3:6], 'step': k}))
    # cancel: the tree below
    for k, e in enumerate(ev):
        if e.get('ev') != 'stop' or e['state'] != 'CANCELLED' or k == 0 or e['wf'] >= len(obs[k - 1]['execs']):
            continue
        a = e['wf']
        before = obs[k - 1]
        n_before = len(before['execs'])
        par_b = _parent_of(before)
        if quiescent:
            for x, ex in enumerate(last['execs']):
                anc = _ancestors(par_last, x)
                if a not in anc:
                    continue
                path = anc[:anc.index(a)]          # strictly between x and a
                if x < n_before:
                    if before['execs'][x][3] in FINAL:
                        continue
                    # "every unfinished sub-workflow below a cancelled workflow becomes CANCELLED together with
                    #  its parent task"
                    blocked = [p for p in path if before['execs'][p][3] in FINAL]
                    sig = dict(SKIP_SIG) if blocked else {'kind': 'unfinished-descendant-not-cancelled'}
                    if ex[3] != 'CANCELLED':
                        hits.append(('descendant-not-cancelled', sig,
                                     {'cancelled': a, 'exec': x, 'state': ex[3], 'finished-on-path': blocked, 'step': k}))
                    elif last['tasks'][ex[1]][2] != 'CANCELLED' and \
                            before['tasks'][ex[1]][2] not in ('SUCCESS', 'ERROR', 'CANCELLED'):
                        # (a task that was already completed when the cancel came keeps its state)
                        hits.append(('parent-task-not-cancelled', {'kind': 'parent-task-not-cancelled'},
                                     {'cancelled': a, 'exec': x, 'task': ex[1], 'task_state': last['tasks'][ex[1]][2]}))
        # "No new task is created ... (nor, after a cancel, anywhere below it)"
        for j in range(k + 1, len(obs)):
            pj = _parent_of(obs[j])
            prev_n = len(obs[j - 1]['tasks'])
            for t in obs[j]['tasks'][prev_n:]:
                x = t[0]
                anc = _ancestors(pj, x)
                if x != a and a not in anc:
                    continue
                if x in frozen and False:
                    continue
                created_later = [p for p in [x] + anc[:anc.index(a)] if p >= n_before] if x != a else []
                path = ([x] + anc[:anc.index(a)]) if x != a else []
                blocked = [p for p in path[1:] if p < n_before and before['execs'][p][3] in FINAL]
                if created_later:
                    sig = dict(LATE_SIG)
                elif blocked:
                    sig = dict(SKIP_SIG)
                else:
                    sig = {'kind': 'task-created-below-cancelled-workflow'}
                hits.append(('task-created-below-cancelled', sig,
                             {'cancelled': a, 'exec': x, 'task': t[1], 'step': j, 'event': ev[j],
                              'created-after-cancel': created_later, 'finished-on-path': blocked}))
    # "a cancelled or failed sub-workflow is reported to its parent exactly once"
    for x, ex in enumerate(last['execs']):
        if ex[1] is None:
            continue
        if ex[3] in ('ERROR', 'CANCELLED'):
            if ex[7] != 1 or (quiescent and ex[8] != 1):
                hits.append(('report-count', {'kind': 'report-count', 'state': ex[3]},
                             {'exec': x, 'registered': ex[7], 'processed': ex[8], 'quiescent': quiescent}))
        elif ex[3] not in FINAL and ex[7]:
            hits.append(('report-count', {'kind': 'report-before-final'}, {'exec': x, 'registered': ex[7]}))
    return hits


PAUSE_SKIP_SIG = {'kind': 'pause-skips-running-descendants-of-a-finished-child'}


def monitor_pause(run):
    """The statement of C10 (first sentence) read on the real rows.  Returns [(kind, signature, detail)]."""
    hits = []
    ev = run['events']
    obs = run['real']
    for e in run['errors']:
        if not e['declared']:
            hits.append(('undeclared-error', {'kind': 'undeclared-error', 'type': e['type']}, e))
    for l in run.get('lost', []):
        hits.append(('post-commit-operation-lost', dict(LOST_SIG, op=l['item']['k'], type=l['type']), l))
    for k in range(1, len(obs)):
        b, a, e = obs[k - 1], obs[k], ev[k]
        # "Pause creates no new tasks": no task row appears in an execution that is PAUSED before and after
        for i, x in enumerate(b['execs']):
            if x[3] == 'PAUSED' and i < len(a['execs']) and a['execs'][i][3] == 'PAUSED':
                if len([t for t in a['tasks'] if t[0] == i]) != len([t for t in b['tasks'] if t[0] == i]):
                    hits.append(('task-created-while-paused', {'kind': 'task-created-while-paused'},
                                 {'exec': i, 'step': k, 'event': e}))
        if e.get('ev') not in ('pause', 'resume') or a.get('raised') or e['wf'] >= len(b['execs']):
            continue
        tgt = e['wf']
        par = _parent_of(b)
        if e['ev'] == 'pause':
            # "After a pause request is acknowledged the workflow and its running sub-workflows are PAUSED"
            if b['execs'][tgt][3] == 'RUNNING' and a['execs'][tgt][3] != 'PAUSED':
                hits.append(('pause-not-applied', {'kind': 'pause-not-applied'}, {'exec': tgt, 'step': k,
                                                                                    'after': a['execs'][tgt][3]}))
            if b['execs'][tgt][3] not in ('RUNNING', 'PAUSED'):
                continue
            for x, ex in enumerate(b['execs']):
                anc = _ancestors(par, x)
                if tgt not in anc or ex[3] != 'RUNNING':
                    continue
                blocked = [p for p in anc[:anc.index(tgt)] if b['execs'][p][3] in FINAL]
                if a['execs'][x][3] != 'PAUSED':
                    hits.append(('running-descendant-not-paused',
                                 dict(PAUSE_SKIP_SIG) if blocked else {'kind': 'running-descendant-not-paused'},
                                 {'paused': tgt, 'exec': x, 'state': a['execs'][x][3], 'finished-on-path': blocked, 'step': k}))
        else:
            if b['execs'][tgt][3] != 'PAUSED':
                continue
            if a['execs'][tgt][3] == 'PAUSED':
                hits.append(('resume-not-applied', {'kind': 'resume-not-applied'}, {'exec': tgt, 'step': k}))
            for x, ex in enumerate(b['execs']):
                anc = _ancestors(par, x)
                if tgt not in anc or ex[3] != 'PAUSED':
                    continue
                blocked = [p for p in anc[:anc.index(tgt)] if b['execs'][p][3] in FINAL]
                if a['execs'][x][3] == 'PAUSED' and not blocked:
                    hits.append(('paused-descendant-not-resumed', {'kind': 'paused-descendant-not-resumed'},
                                 {'resumed': tgt, 'exec': x, 'step': k}))
    return hits


def features(run):
    f = set()
    last = run['real'][-1]
    par = _parent_of(last)
    for i, e in enumerate(last['execs']):
        if e[1] is not None:
            f.add('child-' + e[3])
            if len(_ancestors(par, i)) >= 2:
                f.add('grandchild')
        if e[7] > 1:
            f.add('success-reported-again')
    for k, e in enumerate(run['events']):
        if e.get('ev') in ('pause', 'resume'):
            f.add(e['ev'])
            if k and e['wf'] < len(run['real'][k - 1]['execs']):
                b = run['real'][k - 1]['execs'][e['wf']]
                f.add(e['ev'] + '-on-' + b[3])
                f.add(e['ev'] + ('-inner' if b[1] is not None else '-root'))
                n = len([1 for x, c in enumerate(run['real'][k]['execs'])
                         if x < len(run['real'][k - 1]['execs']) and c[3] != run['real'][k - 1]['execs'][x][3]])
                f.add('%s-changed-in-one-tx:%d' % (e['ev'], min(n, 4)))
            if run['real'][k].get('raised'):
                f.add(e['ev'] + '-raised')
        if e.get('ev') == 'stop':
            f.add('stop-' + e['state'])
            if k and e['wf'] < len(run['real'][k - 1]['execs']):
                b = run['real'][k - 1]['execs'][e['wf']]
                f.add('stop-on-' + b[3])
                f.add('stop-inner' if b[1] is not None else 'stop-root')
                if e['state'] == 'CANCELLED':
                    n = len([1 for x, c in enumerate(run['real'][k]['execs'])
                             if c[3] == 'CANCELLED' and x < len(run['real'][k - 1]['execs'])
                             and run['real'][k - 1]['execs'][x][3] != 'CANCELLED'])
                    f.add('cancelled-in-one-tx:%d' % min(n, 4))
    for o in run['real']:
        if len([e for e in o['execs'] if e[3] == 'RUNNING' and e[1] is not None]) >= 2:
            f.add('children-side-by-side')
            break
    return f


# ======================================================================================= check
_FIRST = {}


def _first(ctx, sig):
    k = json.dumps(sig, sort_keys=True)
    d = _FIRST.setdefault(id(ctx), set())
    if k in d:
        return False
    d.add(k)
    return True


def check_case(ctx, case, script=None, origin='gen', expect=None, props=('C11',)):
    run = run_case(case, script=script)
    drv = ctx.driver()
    cfgj = {'defs': case['defs'], 'viaRpc': bool(case['viaRpc'])}
    if run['unsupported']:
        ctx.count(STREAM, 'unsupported-item')
        if script is not None:
            ctx.disagree(STREAM, {'what': 'script', 'case': case, 'script': script}, 'script', run['unsupported'])
        return run
    mo = drv.call('tree.run', {'cfg': cfgj, 'events': run['events']})
    f = features(run)
    for x in sorted(f):
        ctx.count(STREAM, 'feat:' + x)
    ctx.count(STREAM, 'depth:%d' % len(case['defs']))
    ctx.count(STREAM, 'rpc' if case['viaRpc'] else 'inproc')
    ctx.count(STREAM, 'policy:' + case['policy'])
    ctx.count(STREAM, 'events', len(run['events']))
    for d in case['defs']:
        for t in d:
            if t['kind'] != 'action':
                ctx.count(STREAM, 'call:' + ('items' if t['kind'].get('items') is not None else 'plain')
                          + (':conc' if t['kind'].get('conc') else ''))
    ctx.evaluated(STREAM, [case, script], nontrivial=any(x.startswith(('stop-', 'pause', 'resume')) for x in f))
    if not isinstance(mo, list):
        ctx.disagree(STREAM, {'case': case, 'events': run['events']}, mo, 'model refused the input')
        return run
    for k, (m, real) in enumerate(zip(mo, run['real'])):
        mm = model_obs(m)
        if mm != real:
            diff = {key: [mm[key], real[key]] for key in mm if mm[key] != real[key]}
            ctx.disagree(STREAM, {'case': case, 'script': script, 'step': k, 'event': run['events'][k],
                                  'events_so_far': run['events'][:k + 1], 'yaml': run['yaml']},
                         {k2: v[0] for k2, v in diff.items()}, {k2: v[1] for k2, v in diff.items()})
            ctx.count(STREAM, 'disagree-at:' + run['events'][k].get('ev', '?') + ':' +
                      str((run['events'][k].get('item') or {}).get('k', run['events'][k].get('state', ''))))
            break
    hits = (monitor(run) if 'C11' in props else []) + (monitor_pause(run) if 'C10' in props else [])
    kinds = set()
    for kind, sig, det in hits:
        ctx.count(STREAM, 'hit:' + sig['kind'])
        kinds.add(sig['kind'])
        if not _first(ctx, sig):
            continue
        ctx.violation('%s tree monitor %s: %s' % ('/'.join(props), kind, json.dumps(det, default=str)[:400]),
                      {'kind': 'tree', 'case': case, 'script': run['events'], 'hit': [kind, det]}, sig)
    if expect is not None and not (set(expect) <= kinds):
        ctx.disagree(STREAM, {'what': 'witness-no-longer-fails', 'case': case, 'script': script}, sorted(expect), sorted(kinds))
    if ctx.rng.random() < 0.02:
        ctx.sample({'stream': STREAM, 'case': case, 'events': run['events'][:10], 'final': run['real'][-1]['execs']})
    return run


def run_corpus(ctx, props=('C11',)):
    import glob
    import os
    from vlib import core
    for prop in props:
        for f in sorted(glob.glob(os.path.join(core.VERIF, 'corpus', prop, 'tree_*.json'))):
            with open(f) as fh:
                c = json.load(fh)
            check_case(ctx, c['case'], script=c.get('script'), origin='corpus', expect=c.get('expect'), props=props)
            ctx.count('corpus', 'tree')


def run_replay(ctx, r, props=('C11',)):
    return check_case(ctx, r['case'], script=r.get('script'), origin='replay', props=props)


def run_chunk(ctx, n_cases, gen_kw=None, props=('C11',)):
    from harness import boot
    boot.boot()
    rng = ctx.rng
    props = tuple(props)
    if getattr(ctx, 'chunk', 0) == 0:
        run_corpus(ctx, props)
    for _ in range(n_cases):
        check_case(ctx, gen_case(rng, **(gen_kw or {})), props=props)
