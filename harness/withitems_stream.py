"""Stream `withitems` (C07): generated workflows with ONE with-items task on the REAL engine, every
delivery under the harness's control.  After EVERY event the committed bookkeeping of the task
(`runtime_context.with_items {count, capacity}`, `runtime_context.concurrency`, the action
executions (index, state, accepted), the pending `_scheduled_on_action_complete` jobs, the task
state, retry_no) is compared with the Lean model `Mistral.WithItems` stepped with the model
operation the event maps to (start / result pos outcome / handled / rerun reset / continue); at the
end the task result (data_flow.get_task_execution_result, `task(t1).result` published and passed
downstream) is compared with the model's `resultList`.

Independently of the model the C07 *statement* is evaluated on the same traces (monitors M1..M8).

SUB-WORKFLOW ITEMS (case['item_kind'] == 'workflow'): `t1: workflow: sub x=<% $.i %>`.  The executions of t1 are
then its child WORKFLOW executions (index, state, accepted) in creation order; IDLE/RUNNING/PAUSED count as RUNNING.
How the model operations are recognised for them:
  start / rerun / continue / handled : as for actions (start_task of t1, `_continue_task` of t1, the
      `_scheduled_on_action_complete` job - only with-items tasks get such a job, so it is always t1's);
  result pos outcome : the committed transaction in which the pos-th child goes from non-final to final
      (`Workflow.set_state`: state + accepted in ONE transaction - the child's own last task completion, or
      `stop_workflow(child, CANCELLED)`), recognised on the snapshots before/after the delivery.  The model's third
      effect (one more pending completion) is real as a MESSAGE: the same transaction registers `_send_result`
      (post-commit) -> rpc on_action_complete(child id, wf_action=True) -> `WorkflowAction.complete` is a no-op and
      `schedule_on_action_complete` creates the job.  `unhandled` of the real side is therefore
      #jobs + #completion messages of children still in flight; the two forwarding deliveries are NOT model operations;
  everything inside a child (start_task of s0/s1, run_action, on_action_complete of s1's action) is not an operation.
A CANCELLED item = a child that ends CANCELLED: its action returned a cancel result, or it was stopped with
`stop_workflow(child, 'CANCELLED')` (case['stop_child']).
INNER RERUN (case['inner']): `rerun_workflow(<failed task s1 of a child>)`; `_recursive_rerun` puts the child, the
parent workflow and t1 back to RUNNING.  The Lean model has no such operation: from that event on the model comparison
is switched off (counted `inner-rerun:model-comparison-stops`), all statement monitors keep running.
"""
import itertools
import json
import random

TASK = 't1'
SUB_LAST = 's1'          # the task of the child workflow whose action the outcome table drives (always its last task)
FINAL = ('SUCCESS', 'ERROR', 'CANCELLED')
K1 = {'kind': 'rerun-no-reset-reexecutes-succeeded-items'}
K2 = {'kind': 'rerun-or-retry-round-starts-index-twice'}
K3 = {'kind': 'cancelled-item-completes-task-before-all-items'}
# an item input that fails to evaluate in a LATER concurrency round fails the task while siblings are RUNNING
KL = {'kind': 'task-completed-before-all-items', 'state': 'ERROR', 'cause': 'input-evaluation-failed-in-later-round'}
# ... and a rerun of that task starts `concurrency` new children next to the still RUNNING ones
KR = {'kind': 'running-exceeds-concurrency', 'cause': 'rerun-after-late-input-failure'}
# sub-workflow items: a failed child re-run from the inside goes back to RUNNING without taking a unit of capacity
KI = {'kind': 'running-exceeds-concurrency', 'cause': 'inner-rerun-of-failed-sub-workflow'}
# ... and it completes a second time: one completion job more than executions.  Under a limit the task then reaches
# "full capacity" one job early; with a retry policy the surplus job is handled while the task is DELAYED (not completed)
# and schedules the items of the retry round itself, before (and next to) the `_continue_task` of the policy
KJ = {'kind': 'items-started-while-task-delayed', 'cause': 'inner-rerun-of-failed-sub-workflow'}

# ----------------------------------------------------------------------------- evaluation failures
# case['eval'] (optional; old corpus files do not have it) describes how the with-items expression, the
# per-item action input and `concurrency` evaluate on the real engine:
#   'items'   : form of the with-items expression / its value (ITEMS_OK: evaluates to iterables of one length,
#               ITEMS_BAD: InputException / expression error in _get_with_items_values)
#   'input'   : form of the action input whose evaluation (or, 'invalid-param', validation by the action) fails for
#               the item indexes in 'bad'
#   'bad'     : item indexes whose action input fails to evaluate
#   'conc_bad': value `concurrency: <% $.c %>` evaluates to (ill-typed: refused by ConcurrencyPolicy)
#   'conc_div': `concurrency: <% 1 / $.c %>` with c = 0 (the expression itself fails)
#   'ys_len'  : length of the second list for items = 'two-unequal'
ITEMS_OK = ('list', 'dict', 'string', 'nested', 'two-equal')
ITEMS_BAD = ('two-unequal', 'second-not-iterable', 'number', 'null', 'bool', 'expr-nofunc', 'expr-div')
INPUT_FORMS = ('div-inline', 'div-dict', 'div-nested', 'cond-func', 'cond-var', 'dynamic', 'jinja', 'invalid-param')
CONC_BAD_VALUES = ['abc', -1, 1.5, None, [1], True, '2']
DYN_BAD_VALUES = [7, [1], None, 'str']


def eval_spec(case):
    """the model's EvalSpec of a case (None = everything evaluates)"""
    ev = case.get('eval')
    if not ev:
        return None
    return {'itemsOk': ev.get('items', 'list') in ITEMS_OK,
            'concOk': not ('conc_bad' in ev or ev.get('conc_div')),
            'bad': sorted(ev.get('bad') or [])}


def eval_kind(case):
    """classification for the distribution: none | positive:<items form> | conc | items:<form> |
    input-first | input-late (no bad index in the first portion of the first round)"""
    ev = case.get('eval')
    sp = eval_spec(case)
    if not sp:
        return 'none'
    if not sp['concOk']:
        return 'conc'
    if not sp['itemsOk']:
        return 'items:' + ev['items']
    if not sp['bad']:
        return 'positive:' + ev.get('items', 'list')
    lim = eff_conc(case)
    if lim and min(sp['bad']) >= lim:
        return 'input-late'
    return 'input-first'


# ----------------------------------------------------------------------------- generation
def render_yaml(case):
    n, form, conc = case['n'], case['conc_form'], case['conc']
    ev = case.get('eval') or {}
    items, inp = ev.get('items', 'list'), ev.get('input')
    two = items in ('two-equal', 'two-unequal', 'second-not-iterable')
    lines = ["version: '2.0'", 'wf:', '  input:', '    - xs']
    if two:
        lines += ['    - ys: []']
    lines += ['    - c: 0']
    if form == 'defaults':
        lines += ['  task-defaults:', '    concurrency: %d' % conc]
    lines += ['  tasks:', '    t1:']
    if two:
        lines += ['      with-items:', '        - i in <% $.xs %>', '        - j in <% $.ys %>']
    elif items == 'expr-nofunc':
        lines += ['      with-items: i in <% $.xs.no_such_function() %>']
    elif items == 'expr-div':
        lines += ['      with-items: i in <% $.xs.take(1 / 0) %>']
    else:
        lines += ['      with-items: i in <% $.xs %>']
    if is_wf(case):
        lines += ['      workflow: sub x=<% $.i %>']
    elif inp in ('div-inline',):
        lines += ['      action: std.echo output=<% 100 / $.i %>']
    elif inp == 'div-dict':
        lines += ['      action: std.echo', '      input:', '        output: <% 100 / $.i %>']
    elif inp == 'div-nested':
        lines += ['      action: std.echo', '      input:', '        output:', '          a: [<% 100 / $.i %>]']
    elif inp == 'cond-func':
        lines += ['      action: std.echo output=<% switch($.i < 0 => no_such_function($.i), true => $.i) %>']
    elif inp == 'cond-var':
        lines += ['      action: std.echo output=<% switch($.i < 0 => $.nothing.foo, true => $.i) %>']
    elif inp in ('dynamic', 'invalid-param'):
        # 'invalid-param': the input evaluates (a dict) but the action refuses it (check_parameters: "Invalid input
        # ... missing=['output'], unexpected=['nope']"); since repo patch 30 validated with the evaluation, before any
        # execution of the round / portion is created
        lines += ['      action: std.echo', '      input: <% $.i %>']
    elif inp == 'jinja':
        lines += ['      action: std.echo output="{{ 100 // _.i }}"']
    elif case['action'] == 'echo':
        lines += ['      action: std.echo output=<% [$.i, $.j] %>' if items == 'two-equal' else
                  '      action: std.echo output=<% $.i %>']
    else:
        lines += ['      action: std.noop']
    if form == 'literal':
        lines += ['      concurrency: %d' % conc]
    elif form == 'expr':
        lines += ['      concurrency: <% 1 / $.c %>' if ev.get('conc_div') else '      concurrency: <% $.c %>']
    if case.get('retry'):
        lines += ['      retry:', '        count: %d' % case['retry']['count'],
                  '        delay: %d' % case['retry']['delay']]
    lines += ['      publish:', '        r: <% task(t1).result %>',
              '      publish-on-error:', '        re: <% task(t1).result %>']
    if case.get('downstream'):
        lines += ['      on-success:', '        - t2',
                  '    t2:', '      action: std.echo output=<% task(t1).result %>']
    if is_wf(case):
        # the child workflow: [s0 ->] s1; the outcome table drives the action of s1 (key t1:<item index>:<k-th run>)
        lines += ['sub:', '  input:', '    - x', '  output:', '    res: <% task(s1).result %>', '  tasks:']
        if case.get('sub_tasks', 1) >= 2:
            lines += ['    s0:', '      action: std.noop', '      on-success:', '        - s1']
        lines += ['    s1:', '      action: std.echo output=<% $.x %>']
    return '\n'.join(lines) + '\n'


def is_wf(case):
    return case.get('item_kind') == 'workflow'


def item_values(case):
    """the n item values: those of the indexes in eval.bad make the action input fail to evaluate"""
    n = case['n']
    ev = case.get('eval') or {}
    inp, bad = ev.get('input'), set(ev.get('bad') or [])
    if inp in ('div-inline', 'div-dict', 'div-nested', 'jinja'):
        return [0 if i in bad else i + 1 for i in range(n)]
    if inp in ('cond-func', 'cond-var'):
        return [-(i + 1) if i in bad else 100 + i for i in range(n)]
    if inp == 'invalid-param':
        return [{'nope': 100 + i} if i in bad else {'output': 100 + i} for i in range(n)]
    if inp == 'dynamic':
        return [DYN_BAD_VALUES[i % len(DYN_BAD_VALUES)] if i in bad else {'output': 100 + i} for i in range(n)]
    return [100 + i for i in range(n)]


def wf_input(case):
    n = case['n']
    ev = case.get('eval') or {}
    items = ev.get('items', 'list')
    vals = item_values(case)
    if items == 'dict':                    # iterable: its keys
        xs = {'k%d' % i: v for i, v in enumerate(vals)}
    elif items == 'string':                # iterable: its characters
        xs = 'abcdefghijklmnop'[:n]
    elif items == 'nested':                # the outer list counts
        xs = [[v, i] for i, v in enumerate(vals)]
    elif items == 'number':
        xs = 5
    elif items == 'null':
        xs = None
    elif items == 'bool':
        xs = True
    else:
        xs = vals
    res = {'xs': xs, 'c': case['conc'] if case['conc_form'] == 'expr' else 0}
    if case['conc_form'] == 'expr' and case['conc'] and case['seed'] % 4 == 0:
        # regression of repo fix 6a8f54db: the schema type "integer" accepts 2.0; the value must behave as 2
        # (before the fix the slice in _get_next_indexes raised TypeError and the task stayed IDLE for ever)
        res['c'] = float(case['conc'])
    if 'conc_bad' in ev:
        res['c'] = ev['conc_bad']
    elif ev.get('conc_div'):
        res['c'] = 0
    if items == 'two-equal':
        res['ys'] = ['y%d' % i for i in range(n)]
    elif items == 'two-unequal':
        res['ys'] = ['y%d' % i for i in range(ev['ys_len'])]
    elif items == 'second-not-iterable':
        res['ys'] = 7
    return res


def eff_conc(case):
    """the limit the definition configures (None = unlimited)"""
    ev = case.get('eval') or {}
    if 'conc_bad' in ev or ev.get('conc_div'):
        return None
    if case['conc_form'] == 'absent' or not case['conc']:
        return None
    return case['conc']


def gen_table(rng, n, attempts, p_err, p_cancel, scripted=True):
    t = {}
    for i in range(n):
        for k in range(attempts):
            r = rng.random()
            if r < p_err:
                t['%s:%d:%d' % (TASK, i, k)] = ['error', 'e%d.%d' % (i, k)]
            elif r < p_err + p_cancel:
                t['%s:%d:%d' % (TASK, i, k)] = ['cancel']
            elif scripted and rng.random() < 0.6:
                t['%s:%d:%d' % (TASK, i, k)] = ['value', 'v%d.%d' % (i, k)]
            else:
                t['%s:%d:%d' % (TASK, i, k)] = ['run']
    return t


def gen_case(rng):
    wf = rng.random() < 0.28               # sub-workflow items (twice the events per item: n <= 4)
    n = rng.choice([0, 1, 2, 2, 2, 3, 3, 4]) if wf else rng.choice([0, 1, 2, 2, 3, 3, 4, 4, 5, 6, 7, 8])
    form = rng.choice(['absent', 'literal', 'literal', 'literal', 'expr', 'expr', 'defaults'])
    conc = 0 if form == 'absent' else rng.randint(1, n + 1)
    if form == 'literal' and rng.random() < 0.05:
        conc = 0                           # `concurrency: 0` = no limit
    retry = None
    if rng.random() < 0.25:
        retry = {'count': rng.choice([1, 1, 2]), 'delay': rng.choice([0, 0, 1])}
    reruns = []
    if rng.random() < 0.55:
        reruns.append({'reset': rng.random() < 0.5, 'when': rng.choice(['quiescent', 'quiescent', 'asap'])})
        if rng.random() < 0.25:
            reruns.append({'reset': rng.random() < 0.5, 'when': 'quiescent'})
    p_err = rng.choice([0.0, 0.15, 0.3, 0.5]) if not reruns else rng.choice([0.2, 0.35, 0.5])
    p_cancel = rng.choice([0.0, 0.0, 0.0, 0.08])
    attempts = 1 + (retry['count'] if retry else 0) + len(reruns) * (1 + (retry['count'] if retry else 0)) + 2
    case = {'n': n, 'conc_form': form, 'conc': conc, 'action': rng.choice(['echo', 'echo', 'noop']),
            'retry': retry, 'downstream': rng.random() < 0.5,
            'table': gen_table(rng, n, attempts, p_err, p_cancel),
            'policy': rng.choice(['random', 'random', 'random', 'fifo', 'lifo']),
            'reruns': reruns, 'seed': rng.getrandbits(32)}
    if wf:
        return gen_wf_part(rng, case)
    ev = gen_eval(rng, case)
    if ev:
        case['eval'] = ev
        if ev.get('bad') and rng.random() < 0.6:
            # let the items before the failing one succeed more often, so that later rounds are reached
            for k in list(case['table']):
                if case['table'][k][0] in ('error', 'cancel') and rng.random() < 0.7:
                    case['table'][k] = ['run']
    return case


def gen_wf_part(rng, case):
    """sub-workflow items: `workflow: sub x=<% $.i %>`; optionally an INNER rerun of a failed child (n >= 2: while a
    sibling is RUNNING / after the parent task completed) and a child stopped with CANCELLED from outside"""
    n = case['n']
    case['item_kind'] = 'workflow'
    case['sub_tasks'] = rng.choice([1, 1, 1, 2])
    case['action'] = 'echo'
    if n >= 2 and rng.random() < 0.5:
        case['inner'] = {'when': rng.choice(['sibling-running', 'sibling-running', 'after-parent']),
                         'p': rng.choice([1.0, 0.5, 0.2])}
        if rng.random() < 0.7:
            case['reruns'] = []
        # a child must fail for it: one index fails its first run (and mostly succeeds when run again)
        j = rng.randrange(n)
        case['table']['%s:%d:0' % (TASK, j)] = ['error', 'e%d.0' % j]
        if rng.random() < 0.75:
            case['table']['%s:%d:1' % (TASK, j)] = ['value', 'v%d.1' % j]
        if rng.random() < 0.5:
            # the siblings succeed: the run with the failed child re-run is the interesting one
            for i in range(n):
                if i != j and case['table'].get('%s:%d:0' % (TASK, i), ['run'])[0] in ('error', 'cancel'):
                    case['table']['%s:%d:0' % (TASK, i)] = ['run']
    if n >= 1 and rng.random() < 0.12:
        case['stop_child'] = {'index': rng.randrange(n), 'after': rng.randint(1, 5 * n + 2)}
    return case


def gen_eval(rng, case):
    """evaluation failures for ~40 % of the cases (input of some items / the items expression / `concurrency`),
    other well-formed shapes of the items for a few more; may adjust the concurrency of the case so that a failing
    index lies in a later round"""
    n = case['n']
    r = rng.random()
    if r < 0.59:
        if rng.random() < 0.14:
            return {'items': rng.choice(['dict', 'string', 'nested', 'two-equal', 'two-equal'])}
        return None
    if r < 0.86 and n >= 1:
        if n >= 2 and rng.random() < 0.45 and not (eff_conc(case) and eff_conc(case) < n):
            case['conc_form'] = rng.choice(['literal', 'literal', 'expr', 'defaults'])
            case['conc'] = rng.randint(1, n - 1)
        limit = eff_conc(case)
        s = rng.random()
        if limit and n > limit and s < 0.5:
            bad = [rng.randrange(limit, n)]                    # evaluated in a later round only
            if rng.random() < 0.25:
                bad = sorted(set(bad + [rng.randrange(limit, n)]))
        elif s < 0.2 or (0.5 <= s < 0.6):
            bad = [0]
        elif s < 0.35 or (0.6 <= s < 0.7):
            bad = [n - 1]
        elif s < 0.85:
            bad = [rng.randrange(n)]
        else:
            bad = sorted(rng.sample(range(n), min(n, rng.choice([2, 2, 3]))))
        case['action'] = 'echo'
        return {'items': rng.choice(['list', 'list', 'list', 'two-equal']),
                'input': rng.choice(['div-inline', 'div-inline'] + list(INPUT_FORMS)), 'bad': bad}
    if r < 0.95 or n == 0:
        items = rng.choice(ITEMS_BAD + ('two-unequal',))
        ev = {'items': items}
        if items == 'two-unequal':
            ev['ys_len'] = rng.choice([n + 1] + ([n - 1, 0] if n > 0 else []))
        return ev
    case['conc_form'] = 'expr'
    if rng.random() < 0.2:
        return {'conc_div': True}
    return {'conc_bad': rng.choice(CONC_BAD_VALUES)}


# ----------------------------------------------------------------------------- running
class Ev(object):
    __slots__ = ('desc', 'op', 'snap', 'note')

    def __init__(self, desc, op, snap, note=None):
        self.desc = desc      # what was delivered
        self.op = op          # model operation (dict) or None
        self.snap = snap      # committed rows after the event
        self.note = note      # 'rerun-request' etc.


def t1_row(snap):
    for t in snap['tasks']:
        if t['name'] == TASK:
            return t
    return None


def t1_actions(snap):
    """the executions of t1 in creation order: its action executions, or - for a `workflow:` task - its child
    workflow executions in the same shape (IDLE / RUNNING / PAUSED children are RUNNING items)"""
    t = t1_row(snap)
    if t is None:
        return []
    if t.get('type') == 'WORKFLOW':
        return [wf_item(x) for x in snap['wfs'] if x['parent_task'] == t['ord']]
    return [a for a in snap['actions'] if a['task'] == t['ord']]


def wf_item(x):
    st = x['state']
    return {'ord': x['ord'], 'id': x['id'], 'index': x['index'], 'accepted': x['accepted'], 'output': x['output'],
            'state': 'RUNNING' if st in ('IDLE', 'RUNNING', 'PAUSED') else st, 'raw_state': st, 'wf': True,
            'name': x['name'], 'input': x['input']}


def real_state(snap):
    """the bookkeeping the model tracks, read from the committed rows"""
    t = t1_row(snap)
    if t is None:
        return None
    rt = t['rt'] or {}
    wi = rt.get('with_items')
    return {
        'prepared': bool(wi), 'count': (wi or {}).get('count', 0), 'capacity': (wi or {}).get('capacity'),
        'concurrency': rt.get('concurrency'),
        'items': [[a['index'], a['state'], a['accepted']] for a in t1_actions(snap)],
        # pending completion jobs of the task + (sub-workflow items) completion messages of children still on their
        # way to the job: `_send_result` registered / rpc on_action_complete(wf_action) not yet delivered
        'unhandled': len([j for j in snap['jobs'] if j[0] == '_scheduled_on_action_complete'
                          and j[1] == 'th_on_a_c-%s' % t['id']]) + snap.get('inflight', 0),
        'tstate': t['state'],
        'retryNo': (rt.get('retry_task_policy') or {}).get('retry_no', 0),
    }


MODEL_KEYS = ('prepared', 'count', 'capacity', 'concurrency', 'items', 'unhandled', 'tstate', 'retryNo')


class WfOracle(object):
    """outcome table for sub-workflow items: the k-th run of the action of task s1 in a child of item index i is
    `t1:<i>:<k>` (k counts over all children of that index and over inner reruns); every other action runs"""

    def __init__(self, table):
        self.table = dict(table or {})
        self.seen = {}

    def __call__(self, world, d):
        from mistral.db.v2 import api as db_api
        with db_api.transaction(read_only=True):
            a = db_api.load_action_execution(d['action_ex_id'])
            if a is None or not a.task_execution:
                return ('run', None)
            t = a.task_execution
            wf_ex = t.workflow_execution
            if not wf_ex.task_execution_id or t.name != SUB_LAST:
                return ('run', None)
            idx = (wf_ex.runtime_context or {}).get('index', 0)
        k = self.seen.get(idx, 0)
        self.seen[idx] = k + 1
        v = self.table.get('%s:%d:%d' % (TASK, idx, k)) or ['run']
        return (v[0], v[1] if len(v) > 1 else None)


class Runner(object):
    """One case on the real engine.  policy: 'random'|'fifo'|'lifo'|'choices'.
    In 'choices' mode every delivery other than an item result / a handled-job is made eagerly
    (fifo) and `choices` (list of option ordinals; missing = 0) decides among
    [a pending handled-job?] + [pending item results by position]; `self.options` records the
    number of options at every decision so that the caller can enumerate all orders."""

    def __init__(self, case, choices=None, max_steps=600, script=None):
        from harness.engine_driver import EngineWorld
        from harness import engine_run as er
        self.case = case
        self.er = er
        self.w = EngineWorld(seed=case['seed'])
        self.rng = random.Random(case['seed'])
        self.oracle = WfOracle(case['table']) if is_wf(case) else er.Oracle(case['table'])
        self.inner = dict(case['inner']) if case.get('inner') else None       # inner rerun still to do
        self.inner_done = []                                                   # [(event index, when)]
        self.stop_child = dict(case['stop_child']) if case.get('stop_child') else None
        self.choices = list(choices or [])
        self.script = list(script) if script is not None else None   # model ops to follow (policy 'script')
        self.script0 = list(script) if script is not None else None
        self.script_failed = None
        self.options = []
        self.events = []
        self.max_steps = max_steps
        self.exhausted = False
        self.reruns = [dict(r) for r in case.get('reruns') or []]
        self.result_calls = []       # real get_task_execution_result at the end

    # -- classification of deliverable items
    def _result_pos(self, it, snap):
        """the position of the item whose result this delivery decides, None for any other delivery.
        action items: the rpc on_action_complete of the action execution; sub-workflow items: the run of the action
        of the child's last task s1 (everything after it inside the child is delivered eagerly in the scripted modes)"""
        k, x = it
        if k != 'p':
            return None
        items = t1_actions(snap)
        ords = [a['ord'] for a in items]
        if is_wf(self.case):
            if x.kind != 'action':
                return None
            ao = self.w.id_ord.get(x.data['action_ex_id'])
            a = [a for a in snap['actions'] if a['ord'] == ao]
            t = [t for t in snap['tasks'] if a and t['ord'] == a[0]['task']]
            if not t or t[0]['name'] != SUB_LAST or t[0]['wf'] not in ords:
                return None
            return ords.index(t[0]['wf'])
        if x.kind == 'rpc' and x.data['method'] == 'on_action_complete' and not x.data['kwargs'].get('wf_action'):
            o = self.w.id_ord.get(x.data['kwargs']['action_ex_id'])
            if o in ords:
                return ords.index(o)
        return None

    def _snap(self):
        """committed rows + the number of child-completion messages in flight (registered post-commit `_send_result`
        operations and undelivered rpc on_action_complete(wf_action=True)): only t1 has sub-workflows"""
        snap = self.w.snapshot()
        n = 0
        for p in self.w.pending:
            if p.kind == 'rpc' and p.data['method'] == 'on_action_complete' and p.data['kwargs'].get('wf_action'):
                n += 1
            elif p.kind == 'posttx':
                n += len([o for o in p.data if getattr(o[0], '__name__', '') == '_send_result'])
        snap['inflight'] = n
        return snap

    def _with_completions(self, op, before, after):
        """sub-workflow items: the transaction in which a child goes from non-final to final IS the model operation
        `result pos outcome` (state + accepted; the completion message is registered by the same transaction)"""
        if not is_wf(self.case):
            return op
        b = {a['ord']: a for a in t1_actions(before)}
        comp = []
        for pos, a in enumerate(t1_actions(after)):
            pa = b.get(a['ord'])
            if a['state'] in FINAL and (pa is None or pa['state'] not in FINAL):
                comp.append([pos, a['state']])
        if not comp:
            return op
        if op is not None or len(comp) > 1:
            return {'op': 'unexpected-child-completion', 'with': op, 'completions': comp}
        return {'op': 'result', 'pos': comp[0][0], 'outcome': comp[0][1]}

    def _is_handled_job(self, it):
        k, x = it
        return k == 'job' and x.func_name.endswith('._scheduled_on_action_complete')

    def _model_op(self, it, snap_before):
        """the model operation a delivery maps to (None = not an operation of the with-items
        bookkeeping)"""
        k, x = it
        t = t1_row(snap_before)
        if k == 'job':
            fn = x.func_name.split('.')[-1]
            if fn == '_scheduled_on_action_complete':
                if t and x.key != 'th_on_a_c-%s' % t['id']:
                    return {'op': 'unexpected-completion-job-of-another-task'}
                return {'op': 'handled'}
            if fn == '_continue_task' and t and x.func_args.get('task_ex_id') == t['id']:
                return {'op': 'continue'}
            return None
        if x.kind == 'rpc':
            m, kw = x.data['method'], x.data['kwargs']
            if m == 'start_task' and t and kw['task_ex_id'] == t['id']:
                if kw['first_run']:
                    return {'op': 'start'}
                if kw['rerun']:
                    return {'op': 'rerun', 'reset': bool(kw['reset'])}
                return {'op': 'unexpected-start_task'}
            if m == 'on_action_complete' and not kw.get('wf_action') and not is_wf(self.case):
                ords = [a['ord'] for a in t1_actions(snap_before)]
                o = self.w.id_ord.get(kw['action_ex_id'])
                if o in ords:
                    r = kw['result']
                    out = 'CANCELLED' if r.is_cancel() else ('ERROR' if r.is_error() else 'SUCCESS')
                    return {'op': 'result', 'pos': ords.index(o), 'outcome': out}
        return None

    def _enabled(self):
        return [e for e in self.w.enabled()
                if not (e[0] == 'job' and e[1].func_name.endswith('_check_and_fix_integrity'))]

    def _do_rerun(self, r):
        snap = self.events[-1].snap
        t = t1_row(snap)
        self.w.op('rerun_workflow', t['id'], reset=r['reset'])
        self.events.append(Ev(['op', 'rerun', r['reset']], None, self._snap(), 'rerun-request'))

    def _do_inner(self, pos, when):
        """INNER rerun: re-run the failed task inside the pos-th child of t1 (the API call on the child's task);
        `Workflow._recursive_rerun` puts the child, the parent workflow and t1 back to RUNNING.  Not a model
        operation: the model comparison of the run ends here"""
        snap = self.events[-1].snap
        items = t1_actions(snap)
        if pos >= len(items) or not items[pos].get('wf'):
            return False
        ts = [x for x in snap['tasks'] if x['wf'] == items[pos]['ord'] and x['state'] == 'ERROR']
        if not ts:
            return False
        self.w.op('rerun_workflow', ts[0]['id'])
        self.w.forget_broken()
        self.inner_done.append((len(self.events), when))
        self.events.append(Ev(['op', 'inner-rerun', pos, when], None, self._snap(), 'inner-rerun'))
        return True

    def _do_stop(self, pos):
        """`stop_workflow(child, CANCELLED)` from outside: the child ends CANCELLED + accepted in this transaction =
        the model operation `result pos CANCELLED`"""
        snap = self.events[-1].snap
        items = t1_actions(snap)
        if pos >= len(items) or not items[pos].get('wf') or items[pos]['state'] in FINAL:
            return False
        self.w.op('stop_workflow', items[pos]['id'], 'CANCELLED', 'stopped by harness')
        after = self._snap()
        self.events.append(Ev(['op', 'stop-child', pos], self._with_completions(None, snap, after), after, 'stop-child'))
        return True

    def _failed_children(self, snap):
        """positions of the children of t1 that count as failed items now (ERROR and accepted)"""
        return [p for p, a in enumerate(t1_actions(snap)) if a.get('wf') and a['state'] == 'ERROR' and a['accepted']]

    def run(self):
        w, case = self.w, self.case
        w.create_workflows(render_yaml(case))
        w.start_workflow('wf', wf_input(case))
        self.events.append(Ev(['start'], None, self._snap()))
        step = 0
        ci = 0
        while step < self.max_steps:
            snap = self.events[-1].snap
            t = t1_row(snap)
            if self.reruns and self.reruns[0]['when'] == 'asap' and t and t['state'] == 'ERROR' \
                    and snap['wfs'][0]['state'] == 'ERROR' and not (self.inner and self._failed_children(snap)):
                self._do_rerun(self.reruns.pop(0))
                continue
            if self.script is None and self.stop_child and step >= self.stop_child['after'] and t:
                cand = [p for p, a in enumerate(t1_actions(snap))
                        if a.get('wf') and a['index'] == self.stop_child['index']]
                if cand:
                    # the newest child of that index; one that is final already is not stopped
                    self._do_stop(cand[-1])
                    self.stop_child = None
                    continue
            if self.script is None and self.inner and self.inner['when'] == 'sibling-running' and t \
                    and t['state'] == 'RUNNING':
                failed = self._failed_children(snap)
                if failed and any(a['state'] == 'RUNNING' for a in t1_actions(snap)) \
                        and self.rng.random() < self.inner.get('p', 1.0):
                    if self._do_inner(failed[0], 'sibling-running'):
                        self.inner = None
                        continue
            en = self._enabled()
            if not en:
                und = [j for j in w.undue_jobs() if not j.func_name.endswith('_check_and_fix_integrity')]
                if und:
                    nxt = min(j.execute_at for j in und)
                    w.tick(int((nxt - w.now()).total_seconds()))
                    self.events.append(Ev(['tick'], None, self._snap()))
                    continue
                if self.script is None and self.inner and t and t['state'] == 'ERROR' and self._failed_children(snap):
                    # everything is quiet, the parent task completed (ERROR): re-run a failed child from the inside
                    if self._do_inner(self._failed_children(snap)[0], 'after-parent'):
                        self.inner = None
                        continue
                if self.reruns and t and t['state'] == 'ERROR' and snap['wfs'][0]['state'] == 'ERROR':
                    self._do_rerun(self.reruns.pop(0))
                    continue
                if self.script and self.script[0]['op'] == 'rerun' and t and t['state'] == 'ERROR':
                    self._do_rerun({'reset': self.script.pop(0)['reset']})
                    continue
                if self.script and self.script[0]['op'] == 'inner-rerun':
                    o = self.script.pop(0)
                    if self._do_inner(o['pos'], 'script'):
                        continue
                    self.script_failed = o
                break
            if self.script is not None:
                eager = [e for e in en if self._result_pos(e, snap) is None and not self._is_handled_job(e)
                         and not (e[0] == 'job' and e[1].func_name.endswith('._continue_task'))]
                if eager:
                    it = eager[0]
                else:
                    while self.script and self.script[0]['op'] in ('start',):
                        self.script.pop(0)
                    if not self.script:
                        # the scripted prefix is done: the rest of the run follows the case's policy
                        self.script = None
                        continue
                    o = self.script[0]
                    if o['op'] == 'rerun':
                        self.script.pop(0)
                        self._do_rerun({'reset': o['reset']})
                        continue
                    if o['op'] in ('inner-rerun', 'stop'):
                        self.script.pop(0)
                        if not (self._do_inner(o['pos'], 'script') if o['op'] == 'inner-rerun'
                                else self._do_stop(o['pos'])):
                            self.script_failed = o
                            break
                        continue
                    it = None
                    for e in en:
                        if o['op'] == 'handled' and self._is_handled_job(e):
                            it = e
                        elif o['op'] == 'continue' and e[0] == 'job' and e[1].func_name.endswith('._continue_task'):
                            it = e
                        elif o['op'] == 'result' and self._result_pos(e, snap) == o['pos']:
                            it = e
                        if it is not None:
                            break
                    if it is None:
                        self.script_failed = o
                        break
                    self.script.pop(0)
            elif self.case['policy'] == 'choices':
                eager = [e for e in en if self._result_pos(e, snap) is None and not self._is_handled_job(e)]
                if eager:
                    it = eager[0]
                else:
                    opts = []
                    hj = [e for e in en if self._is_handled_job(e)]
                    if hj:
                        opts.append(hj[0])
                    res = [e for e in en if self._result_pos(e, snap) is not None]
                    res.sort(key=lambda e: self._result_pos(e, snap))
                    opts += res
                    c = self.choices[ci] if ci < len(self.choices) else 0
                    ci += 1
                    self.options.append(len(opts))
                    it = opts[c]
            else:
                it = self.er.pick(self.rng, self.case['policy'], en)
            desc = w.describe(it)
            op = self._model_op(it, snap)
            w.deliver(it, oracle=self.oracle)
            step += 1
            after = self._snap()
            self.events.append(Ev(desc, self._with_completions(op, snap, after), after))
        else:
            self.exhausted = True
        self.final = self.events[-1].snap
        self.errors = list(w.errors)
        self.real_result = self._real_result()
        return self

    def _real_result(self):
        """data_flow.get_task_execution_result(t1) at the end (None when the row does not exist)"""
        from mistral.db.v2 import api as db_api
        from mistral.workflow import data_flow
        t = t1_row(self.final)
        if t is None:
            return None
        with db_api.transaction(read_only=True):
            task_ex = db_api.get_task_execution(t['id'])
            return json.loads(json.dumps(data_flow.get_task_execution_result(task_ex), default=str))


# ----------------------------------------------------------------------------- model side
def model_states(drv, case, ops):
    args = {'n': case['n'], 'conc': eff_conc_spec(case), 'retries':
            (case['retry']['count'] if case.get('retry') else 0), 'ops': ops}
    sp = eval_spec(case)
    if sp:
        args['eval'] = sp
    return drv.call('withitems.run', args)


def eff_conc_spec(case):
    """the policy value as the spec gives it (0 stays 0: the model's policyConc drops it); an ill-typed value
    is the model's `concOk = false` (the number does not matter)"""
    ev = case.get('eval') or {}
    if case['conc_form'] == 'absent' or 'conc_bad' in ev or ev.get('conc_div'):
        return None
    return case['conc']


def compare(ctx, case, run, drv, stream='withitems'):
    sched = {'choices': run.choices or None, 'script': run.script0}
    """step the model along the mapped operations and diff after every event; returns True if all
    agreed"""
    # an INNER rerun (a failed child re-run from the inside) is not an operation of the model: the comparison covers
    # the events before it; the statement monitors keep reading the whole run
    cut = len(run.events)
    for ei, e in enumerate(run.events):
        if e.note == 'inner-rerun':
            cut = ei
            ctx.count(stream, 'inner-rerun:model-comparison-stops')
            break
    ops = [e.op for e in run.events[:cut] if e.op is not None]
    bad_ops = [o for o in ops if o['op'].startswith('unexpected')]
    if bad_ops:
        ctx.disagree(stream, {'case': case, 'what': 'event not mapped'}, None, bad_ops)
        return False
    states = model_states(drv, case, ops)
    if not isinstance(states, list):
        ctx.disagree(stream, {'case': case, 'what': 'driver'}, states, None)
        return False
    init = {'prepared': False, 'count': 0, 'capacity': None, 'concurrency': None, 'items': [], 'unhandled': 0,
            'tstate': 'IDLE', 'retryNo': 0}
    cur = init
    k = 0
    ok = True
    rerun_pending = False
    for ei, e in enumerate(run.events[:cut]):
        if e.op is not None:
            cur = states[k]
            k += 1
            if e.op['op'] == 'rerun':
                rerun_pending = False
        if e.note == 'rerun-request':
            rerun_pending = True
        rs = real_state(e.snap)
        if rs is None:
            continue
        keys = MODEL_KEYS
        if rerun_pending:
            # engine.rerun_workflow cleared the runtime context; the task restarts at the next
            # start_task delivery (one model operation `rerun`)
            rt = t1_row(e.snap)['rt']
            if e.note == 'rerun-request' and rt not in ({}, None):
                ctx.disagree(stream, {'case': case, 'event': ei, 'what': 'runtime context after rerun request'},
                             {}, rt)
                ok = False
            keys = ('items', 'unhandled', 'tstate')
        m = {x: cur[x] for x in keys}
        r = {x: rs[x] for x in keys}
        if m != r:
            ctx.disagree(stream, {'case': case, 'choices': sched['choices'], 'script': sched['script'], 'event': ei, 'desc': e.desc, 'op': e.op,
                                       'ops': ops[:k]}, m, r)
            ok = False
            break
    # ---- the result list
    if ok and run.real_result is not None and states and cut == len(run.events):
        last = states[-1] if ops else None
        if last is not None:
            acts = t1_actions(run.final)
            model_vals = [result_value(acts[p]) for (_, p) in last['result']]
            if not same_result(model_vals, run.real_result, last['result'], acts):
                ctx.disagree(stream, {'case': case, 'what': 'result list', 'ops': ops}, model_vals, run.real_result)
                ok = False
    return ok


def result_value(a):
    out = a['output']
    if a.get('wf'):
        return out           # `_extract_execution_result`: the whole output of a child workflow
    if out:
        return out.get('result')
    return None


def same_result(model_vals, real_vals, pairs, acts):
    if model_vals == real_vals:
        return True
    if not isinstance(real_vals, list) or len(model_vals) != len(real_vals):
        return False
    # executions with the SAME index (only in defect cases) may be listed in either order
    groups = {}
    for (i, p) in pairs:
        groups.setdefault(i, []).append(json.dumps(result_value(acts[p]), sort_keys=True))
    pos = 0
    for i in sorted(groups):
        g = groups[i]
        seg = [json.dumps(v, sort_keys=True) for v in real_vals[pos:pos + len(g)]]
        if sorted(seg) != sorted(g):
            return False
        pos += len(g)
    return True


# ----------------------------------------------------------------------------- monitors
def rounds(run):
    """split the events into execution rounds of the task: a new round starts at every rerun /
    retry continuation; returns list of {'kind','reset','start': event index}"""
    rs = [{'kind': 'first', 'reset': None, 'start': 0}]
    for i, e in enumerate(run.events):
        if e.op and e.op['op'] == 'rerun':
            rs.append({'kind': 'rerun', 'reset': e.op['reset'], 'start': i})
        elif e.op and e.op['op'] == 'continue':
            rs.append({'kind': 'retry', 'reset': None, 'start': i})
    for k, r in enumerate(rs):
        r['end'] = rs[k + 1]['start'] if k + 1 < len(rs) else len(run.events)
    return rs


FORCED_PREFIX = ('Failed to run task', 'Failed to handle action completion')
EVAL_MARKS = ('Can not evaluate', 'Wrong dynamic input', 'Wrong input format', 'Invalid data type in ConcurrencyPolicy')


def eval_failed(t):
    """the committed task row says the task was failed by an evaluation error rather than by its items:
    `force_fail_task` messages ("Failed to run task [...]" from run_task / continue_task, "Failed to handle action
    completion [...]" from _on_action_complete), or the message of an evaluation exception handed to Task.complete"""
    if t is None or t['state'] != 'ERROR':
        return False
    si = t.get('state_info') or ''
    return si.startswith(FORCED_PREFIX) or any(m in si for m in EVAL_MARKS)


def monitors(case, run):
    """direct reading of the C07 statement on the committed snapshots; returns [(name, item, sig)]"""
    hits = []
    n = case['n']
    limit = eff_conc(case)
    evs = run.events
    triggers = set()
    sp = eval_spec(case) or {'itemsOk': True, 'concOk': True, 'bad': []}
    dead = not (sp['itemsOk'] and sp['concOk'])      # the items expression / `concurrency` can not be evaluated

    def hit(name, item, sig=None):
        hits.append((name, item, sig))

    def cause(default):
        # consequences of a known trigger in the same trace carry the trigger's signature
        if 'K2' in triggers:
            return K2
        if 'K1' in triggers:
            return K1
        if 'KR' in triggers:
            return KR
        if 'KL' in triggers:
            return KL
        if 'KJ' in triggers:
            return KJ
        if 'KI' in triggers:
            return KI
        return default

    # which executions of the task are new in which snapshot
    new_at = []
    seen = set()
    for e in evs:
        acts = t1_actions(e.snap)
        new_at.append([a for a in acts if a['ord'] not in seen])
        seen |= {a['ord'] for a in acts}

    # the known trigger KL: a completion job (a LATER concurrency round) fails the task by an evaluation error,
    # creates nothing, and siblings started by EARLIER transactions are still RUNNING
    late = []            # (event, ordinals of the RUNNING siblings)
    prev_state = None
    for i, e in enumerate(evs):
        t = t1_row(e.snap)
        st = t['state'] if t else None
        if st in FINAL and prev_state not in FINAL and eval_failed(t) and not new_at[i] \
                and e.op and e.op['op'] == 'handled':
            rn = [a['ord'] for a in t1_actions(e.snap) if a['state'] == 'RUNNING']
            if rn:
                late.append((i, set(rn)))
                triggers.add('KL')
        prev_state = st

    # N1 a transaction never both creates children and completes their task; no child is created for a task
    #    that is (and stays) completed
    # N2 a transaction that fails the task by an evaluation error has created no child at all
    n1 = n2 = False
    for i, e in enumerate(evs):
        t = t1_row(e.snap)
        if not new_at[i] or t is None or t['state'] not in FINAL:
            continue
        item = {'event': i, 'desc': e.desc, 'state': t['state'], 'new_indexes': [a['index'] for a in new_at[i]],
                'state_info': (t.get('state_info') or '')[:160]}
        if not n1:
            n1 = True
            hit('action_created_for_completed_task', item, {'kind': 'action-created-for-completed-task'})
        if eval_failed(t) and not n2:
            n2 = True
            hit('partial_portion_started', item, {'kind': 'input-failure-after-part-of-portion-started'})

    # N4 (sub-workflow items; Lean invariant Props.C09.running_child_not_accepted, over histories with inner reruns):
    #    a child workflow execution of the task that is not final has accepted == False
    for i, e in enumerate(evs):
        bad = [[a['index'], a.get('raw_state')] for a in t1_actions(e.snap)
               if a.get('wf') and a['state'] not in FINAL and a['accepted']]
        if bad:
            hit('running_child_accepted', {'event': i, 'desc': e.desc, 'children': bad},
                {'kind': 'running-child-accepted'})
            break

    # M1 never more than `concurrency` RUNNING children at once
    if limit:
        plain = known = known_i = False
        for i, e in enumerate(evs):
            rn = {a['ord'] for a in t1_actions(e.snap) if a['state'] == 'RUNNING'}
            if len(rn) <= limit:
                continue
            # the known class: after a late input failure (KL) the task was rerun; the children that were RUNNING
            # when the task was failed are not counted by the fresh capacity of the rerun: each of them is either
            # still RUNNING next to `concurrency` new ones, or its completion job (a no-op while the task was ERROR)
            # is handled after the rerun and releases one more unit of capacity.  The excess is at most their number
            orphans = set()
            for (li, lrn) in late:
                if li < i and any(x.op and x.op['op'] == 'rerun' for x in evs[li + 1:i + 1]):
                    orphans |= lrn
            item = {'event': i, 'desc': e.desc, 'running': len(rn), 'limit': limit, 'orphans': len(orphans)}
            # sub-workflow items: children put back to RUNNING by an inner rerun (they took no unit of capacity)
            inner = len([x for x in evs[:i + 1] if x.note == 'inner-rerun'])
            if inner and len(rn) - limit <= inner and not orphans:
                triggers.add('KI')
                item['inner_reruns'] = inner
                if not known_i:
                    known_i = True
                    hit('running_gt_concurrency', item, KI)
            elif orphans and len(rn) - limit <= len(orphans):
                triggers.add('KR')
                if not known:
                    known = True
                    hit('running_gt_concurrency', item, KR)
            elif not plain:
                plain = True
                hit('running_gt_concurrency', item, {'kind': 'running-exceeds-concurrency'})

    rds = rounds(run)
    # M2 / M7 per round: which indexes got a new execution
    for r in rds:
        before = t1_actions(evs[r['start'] - 1].snap) if r['start'] > 0 else []
        had_success = {a['index'] for a in before if a['accepted'] and a['state'] == 'SUCCESS'}
        executed = {a['index'] for a in before if a['state'] in FINAL}
        max_failed = max(executed - had_success) if executed - had_success else -1
        known = {a['ord'] for a in before}
        live = {}          # index -> ordinals created in this round
        for i in range(r['start'], r['end']):
            for a in t1_actions(evs[i].snap):
                if a['ord'] in known:
                    continue
                known.add(a['ord'])
                if a['index'] is None or a['index'] < 0 or a['index'] >= n:
                    hit('index_out_of_range', {'event': i, 'index': a['index']}, {'kind': 'index-out-of-range'})
                if r['kind'] == 'rerun' and r['reset'] is False and a['index'] in had_success:
                    if a['index'] > max_failed:
                        # the known class: a succeeded item AFTER the last failed one
                        triggers.add('K1')
                        hit('rerun_reexecutes_succeeded', {'event': i, 'index': a['index'], 'round': r['kind']}, K1)
                    else:
                        hit('rerun_reexecutes_succeeded', {'event': i, 'index': a['index'], 'round': r['kind'],
                                                           'max_failed': max_failed},
                            cause({'kind': 'rerun-no-reset-reexecutes-succeeded-item-before-last-failed'}))
                elif a['index'] in live:
                    tr = t1_row(evs[i].snap)
                    if any(x.note == 'inner-rerun' for x in evs[:i]) and \
                            ((tr and tr['state'] == 'DELAYED') or 'KJ' in triggers):
                        triggers.add('KJ')
                        hit('index_started_twice', {'event': i, 'index': a['index'], 'round': r['kind'],
                                                    'task_state': tr and tr['state']}, KJ)
                    elif r['kind'] == 'first':
                        hit('index_started_twice', {'event': i, 'index': a['index'], 'round': r['kind']},
                            {'kind': 'index-started-twice-first-run'})
                    elif 'KI' in triggers:
                        # consequence of the excess after an inner rerun: two completions pending at once under a
                        # limit, the first completes the task (retry: DELAYED), the second is handled while the task
                        # is DELAYED and schedules the next portion, then the retry continuation starts it again
                        hit('index_started_twice', {'event': i, 'index': a['index'], 'round': r['kind']}, KI)
                    else:
                        triggers.add('K2')
                        hit('index_started_twice', {'event': i, 'index': a['index'], 'round': r['kind']}, K2)
                live.setdefault(a['index'], []).append(a['ord'])
        r['started'] = live
        r['had_success'] = had_success

    # M3 completes only after every item has completed; M5 final state rule; M6 empty
    prev_state = None
    late_events = {li for (li, _) in late}
    for i, e in enumerate(evs):
        t = t1_row(e.snap)
        st = t['state'] if t else None
        if st in FINAL and prev_state not in FINAL and prev_state is not None or (st in FINAL and prev_state is None):
            acts = t1_actions(e.snap)
            rn = [a['index'] for a in acts if a['state'] == 'RUNNING']
            acc = {}
            for a in acts:
                if a['accepted'] and a['state'] in FINAL:
                    acc.setdefault(a['index'], []).append(a['state'])
            missing = [x for x in range(n) if x not in acc]
            any_c = any(a['accepted'] and a['state'] == 'CANCELLED' for a in acts)
            any_e = any(a['accepted'] and a['state'] == 'ERROR' for a in acts)
            if eval_failed(t):
                # a declared evaluation error: the items that were never started are legitimately missing and the
                # state is ERROR whatever the items did; but nothing may be RUNNING under the failed task
                if i in late_events:
                    hit('completed_before_all_items', {'event': i, 'state': st, 'running': rn, 'missing': missing}, KL)
                elif rn:
                    hit('completed_before_all_items', {'event': i, 'state': st, 'running': rn, 'missing': missing,
                                                       'created_here': [a['index'] for a in new_at[i]]},
                        cause({'kind': 'task-completed-before-all-items', 'state': st}))
            else:
                if rn or missing:
                    if st == 'CANCELLED' and any_c:
                        hit('completed_before_all_items', {'event': i, 'state': st, 'running': rn, 'missing': missing}, K3)
                    else:
                        hit('completed_before_all_items', {'event': i, 'state': st, 'running': rn, 'missing': missing},
                            cause({'kind': 'task-completed-before-all-items', 'state': st}))
                want = 'CANCELLED' if any_c else ('ERROR' if any_e else 'SUCCESS')
                if st != want:
                    hit('final_state_rule', {'event': i, 'state': st, 'want': want},
                        {'kind': 'final-state-rule', 'state': st, 'want': want})
                if n == 0 and not dead and (st != 'SUCCESS' or acts or not (e.op and e.op['op'] == 'start')):
                    hit('empty_list', {'event': i, 'state': st}, {'kind': 'empty-list-not-success-at-once'})
        prev_state = st
    if n == 0 and not dead:
        t = t1_row(run.final)
        if not t or t['state'] != 'SUCCESS':
            hit('empty_list', {'state': t and t['state']}, {'kind': 'empty-list-not-success-at-once'})
    # N3 an items expression that can not be evaluated (not iterable, lists of unequal length, failing expression)
    #    or an ill-typed `concurrency` is a DECLARED error: task ERROR, no child ever (undeclared errors: below)
    if dead:
        t = t1_row(run.final)
        ever = sorted({a['index'] for x in new_at for a in x}, key=str)
        if t is None or not eval_failed(t) or ever:
            hit('unevaluable_not_declared_error', {'state': t and t['state'], 'children': ever,
                                                   'state_info': ((t or {}).get('state_info') or '')[:160]},
                {'kind': 'unevaluable-items-or-concurrency-not-a-declared-error'})
    # M8 the task completes at all; M2(end) exactly one accepted execution per index; M4 result in item order
    t = t1_row(run.final)
    if t is not None:
        acts = t1_actions(run.final)
        ef = eval_failed(t)
        if t['state'] not in FINAL and not run.exhausted:
            hit('never_completes', {'state': t['state'], 'rt': t['rt'],
                                    'items': [[a['index'], a['state'], a['accepted']] for a in acts]},
                cause({'kind': 'with-items-task-never-completes'}))
        if t['state'] in ('SUCCESS', 'ERROR'):
            acc = {}
            for a in acts:
                if a['accepted']:
                    acc.setdefault(a['index'], []).append(a)
            if ef:
                # failed by an evaluation error: items may be missing, none may count twice
                wrong = [x for x in acc if x is not None and x < n and len(acc[x]) != 1]
            else:
                wrong = [x for x in range(n) if len(acc.get(x, [])) != 1]
            wrong += [x for x in acc if x is None or x >= n]
            if wrong:
                hit('accepted_once_per_index', {'indexes': wrong, 'state': t['state']},
                    cause({'kind': 'not-exactly-one-accepted-execution-per-index'}))
            elif ef:
                want = [result_value(acc[x][0]) for x in sorted(acc)]
                if run.real_result != want:
                    hit('result_order', {'want': want, 'got': run.real_result},
                        cause({'kind': 'result-not-in-item-order'}))
            else:
                want = [result_value(acc[x][0]) for x in range(n)]
                got = run.real_result
                pub = (t['published'] or {}).get('r' if t['state'] == 'SUCCESS' else 're')
                if got != want or pub != want:
                    hit('result_order', {'want': want, 'got': got, 'published': pub},
                        cause({'kind': 'result-not-in-item-order'}))
                if case.get('downstream') and t['state'] == 'SUCCESS':
                    t2rows = [x['ord'] for x in run.final['tasks'] if x['name'] == 't2' and x['wf'] == t['wf']]
                    t2 = [a for a in run.final['actions'] if a['name'] == 'std.echo' and a['task'] in t2rows]
                    if not t2 or (t2[0]['input'] or {}).get('output') != want:
                        hit('result_order', {'want': want, 'downstream': t2 and t2[0]['input']},
                            cause({'kind': 'result-not-in-item-order'}))
        # M7 a partial rerun re-executes exactly the failed items, a full one all items (a round that ends by an
        #    evaluation error legitimately leaves items out)
        for r in rds:
            if r['kind'] != 'rerun' or ef:
                continue
            last = r is rds[-1]
            started = set(r['started'])
            if r['reset']:
                if last and t['state'] in ('SUCCESS', 'ERROR') and started != set(range(n)):
                    hit('rerun_reset_all', {'started': sorted(started)}, cause({'kind': 'rerun-reset-not-all-items'}))
            else:
                failed = set(range(n)) - r['had_success']
                if last and t['state'] in ('SUCCESS', 'ERROR') and not failed <= started:
                    hit('rerun_failed_not_reexecuted', {'failed': sorted(failed), 'started': sorted(started)},
                        cause({'kind': 'rerun-failed-item-not-reexecuted'}))
    for e in run.errors:
        if not e['declared']:
            hit('undeclared_error', {k: e[k] for k in ('where', 'type', 'msg')},
                cause({'kind': 'undeclared-error', 'type': e['type']}))
    if run.exhausted:
        hit('exhausted', {}, cause({'kind': 'run-does-not-terminate'}))
    return hits


# ----------------------------------------------------------------------------- one case
def features(case, run):
    f = set()
    order = [e.op['pos'] for e in run.events if e.op and e.op['op'] == 'result']
    if case['n'] >= 2 and order != sorted(order):
        f.add('out-of-order')
    if is_wf(case):
        f.add('wf-items')
        for (_, when) in run.inner_done:
            f.add('inner-rerun:' + when)
        if any(e.note == 'stop-child' for e in run.events):
            f.add('child-stopped')
        if any(a['state'] == 'CANCELLED' for a in t1_actions(run.final)):
            f.add('item-cancelled')
    prev = None
    for e in run.events:
        if e.op:
            f.add('op:' + e.op['op'] + (':%s' % e.op['reset'] if e.op['op'] == 'rerun' else ''))
        t = t1_row(e.snap)
        if t is not None and eval_failed(t) and e.op and prev != 'ERROR':
            # the transaction in which an evaluation failure strikes
            f.add('evalfail-in:' + e.op['op'])
            if any(a['state'] == 'RUNNING' for a in t1_actions(e.snap)):
                f.add('evalfail-with-running-sibling')
        if t is not None and eval_failed(t) and e.op and e.op['op'] in ('rerun', 'continue') and prev == 'ERROR':
            f.add('evalfail-in:' + e.op['op'])
        prev = t['state'] if t else None
    return f


def run_one(ctx, case, drv, choices=None, stream='withitems', script=None):
    run = Runner(case, choices, script=script).run()
    ok = compare(ctx, case, run, drv, stream)
    f = features(case, run)
    t = t1_row(run.final)
    ctx.count(stream, 'n:%d' % case['n'])
    ctx.count(stream, 'conc:%s' % case['conc_form'])
    ctx.count(stream, 'final:%s' % (t['state'] if t else None))
    ctx.count(stream, 'eval:' + eval_kind(case))
    ctx.count(stream, 'items:' + ('workflow' if is_wf(case) else 'action'))
    if (case.get('eval') or {}).get('input'):
        ctx.count(stream, 'evalform:' + case['eval']['input'])
    for x in f:
        ctx.count(stream, 'feat:' + x)
    key = [case, choices]
    ctx.evaluated(stream, key, nontrivial=((case['n'] >= 2 and 'out-of-order' in f)
                                           or 'evalfail-with-running-sibling' in f))
    for (name, item, sig) in monitors(case, run):
        ctx.count(stream, 'hit:%s:%s' % (name, (sig or {}).get('kind')))
        ctx.violation('C07 monitor %s: %s' % (name, json.dumps(item, default=str)[:300]),
                      {'case': case, 'choices': choices, 'script': script, 'hit': [name, item],
                       'schedule_log': run.w.log[:300]}, sig)
    return run, ok


def run_chunk(ctx, n_cases):
    drv = ctx.driver()
    rng = ctx.rng
    if getattr(ctx, 'chunk', 0) == 0:
        run_corpus(ctx, drv)
    for i in range(n_cases):
        case = gen_case(rng)
        run, ok = run_one(ctx, case, drv)
        if rng.random() < 0.02:
            ctx.sample({'stream': 'withitems', 'yaml': render_yaml(case), 'case': {k: case[k] for k in case if k != 'table'},
                        'ops': [e.op for e in run.events if e.op][:40]})


def run_corpus(ctx, drv):
    import glob
    import os
    from vlib import core
    for f in sorted(glob.glob(os.path.join(core.VERIF, 'corpus', 'C07', '*.json'))):
        c = json.load(open(f))
        ctx.count('withitems', 'corpus')
        run, ok = run_one(ctx, c['case'], drv, c.get('choices'), script=c.get('script'))
        if c.get('must_follow') and (run.script_failed is not None or run.script):
            # a fixed scenario that every run has to exercise could not be followed step by step
            ctx.broken_tie('corpus', os.path.basename(f),
                           'the scripted scenario could not be followed on the real engine (stuck at %s, left %s)'
                           % (run.script_failed, run.script))


# ----------------------------------------------------------------------------- exhaustive tier
def all_orders(ctx, case, drv, limit=None, stream='withitems-exh'):
    """every order of item results and handled-jobs of one case (stateless DFS over the decision
    points; each run from scratch).  returns number of runs"""
    stack = [[]]
    runs = 0
    while stack:
        prefix = stack.pop()
        run, ok = run_one(ctx, case, drv, choices=prefix, stream=stream)
        runs += 1
        opts = run.options
        for d in range(len(prefix), len(opts)):
            for c in range(1, opts[d]):
                stack.append(list(prefix) + [0] * (d - len(prefix)) + [c])
        if limit and runs >= limit:
            ctx.count(stream, 'order-limit-reached')
            break
    return runs


def exhaustive_cases(max_n):
    """n <= max_n x concurrency (absent, 1..n+1) x all outcome assignments"""
    res = []
    for n in range(0, max_n + 1):
        for conc in [None] + list(range(1, n + 2)):
            for outs in itertools.product('SEC', repeat=n):
                res.append((n, conc, ''.join(outs)))
    return res


def exh_case(n, conc, outs, seed=1, rerun=None, bad=None, wf=False):
    table = {}
    for i, o in enumerate(outs):
        table['%s:%d:0' % (TASK, i)] = {'S': ['value', 'v%d.0' % i], 'E': ['error', 'e%d.0' % i], 'C': ['cancel']}[o]
    case = {'n': n, 'conc_form': 'absent' if conc is None else 'literal', 'conc': conc or 0, 'action': 'echo',
            'retry': None, 'downstream': False, 'table': table, 'policy': 'choices',
            'reruns': [rerun] if rerun else [], 'seed': seed}
    if bad:
        case['eval'] = {'items': 'list', 'input': 'div-inline', 'bad': sorted(bad)}
    if wf:
        # sub-workflow items: the decision points are the runs of the children's last action and the completion jobs
        case['item_kind'] = 'workflow'
        case['sub_tasks'] = 1
    return case


def exhaustive_eval_cases(max_n):
    """n <= max_n x every non-empty set of failing item inputs x concurrency (absent, 1..n); all items succeed"""
    res = []
    for n in range(1, max_n + 1):
        for k in range(1, n + 1):
            for bad in itertools.combinations(range(n), k):
                for conc in [None] + list(range(1, n + 1)):
                    res.append((n, conc, 'S' * n, list(bad)))
    return res


def run_exhaustive_chunk(ctx, specs, limit=None):
    """specs: (n, conc, outcomes, rerun | None[, order limit[, failing item inputs[, sub-workflow items?]]])"""
    drv = ctx.driver()
    total = 0
    for sp in specs:
        (n, conc, outs, rr) = sp[:4]
        case = exh_case(n, conc, outs, rerun=rr, bad=(sp[5] if len(sp) > 5 else None),
                        wf=bool(sp[6]) if len(sp) > 6 else False)
        total += all_orders(ctx, case, drv, limit=(sp[4] if len(sp) > 4 and sp[4] else limit))
    ctx.count('withitems-exh', 'runs', total)


def run_both_chunk(ctx, n_cases, specs, limit=None):
    """random stream + this worker's share of the exhaustive tier (one process start for both)"""
    run_chunk(ctx, n_cases)
    run_exhaustive_chunk(ctx, specs, limit)
