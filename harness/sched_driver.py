"""Deterministic driver of 1..3 REAL `DefaultScheduler` objects over one in-memory sqlite.

The scheduler threads are never started.  The code the threads would run is executed
piecewise:

* `pop`        one iteration of the real `_dispatcher` loop (its condition variable is
               replaced by a fake that ends the loop after one iteration, its executor by
               a recorder of `submit` calls);
* `task`       the submitted real `_process_memory_job(job)` runs in a thread that is parked
               on a baton *before* each of `_capture_scheduled_job`, `_prepare_job` (label
               'invoke': one step = prepare + invoke, there is no DB access between them; it is
               `_prepare_and_invoke_job` of the code with patch 18), `_delete_scheduled_job`
               (instance-level wrappers); one step = one of them;
* `pollSelect` the real `_process_store_jobs` runs up to (and including) the real
               `get_scheduled_jobs_to_start` call, whose answer is stashed, and is aborted;
* `pollCapture` the real `_process_store_jobs` runs again with that stashed answer (a
               READ COMMITTED select followed later by the CAS updates) and is parked before
               the first `_prepare_job`;
* `pollNext`   the next `_prepare_job` + `_invoke_job` / `_delete_scheduled_job` of that loop;
* `crash`      the instance is dropped, its parked threads never continue.

Transactions of the *caller* of `schedule()`: the call is executed inside a real
`db_api.transaction()` which really commits or really rolls back at once (the outcome is
chosen when the step is generated); for a committing transaction the committed row is
immediately moved to a side table of the harness ("not visible to anybody yet") and put
back by the `commit` step.  That is READ COMMITTED visibility for every other actor.

`cfg['bad']` (optional) lists the ordinals of the jobs that cannot be prepared: such a job is
scheduled with a `func_name` that cannot be imported (`_prepare_job` raises ImportError).  With
patch 18 the job is logged and dropped (prepare+invoke step without an invocation, then the delete
step); without it the exception ends the actor (`Actor.exc`), which is reaped like a finished one.

The clock is `oslo_utils.timeutils` override (whole seconds).
"""
import collections
import datetime
import sys
import threading
import types

T0 = datetime.datetime(2030, 1, 1, 0, 0, 0)
TARGET_MOD = 'c13_sched_target'
BAD_FUNC = 'no_such_function'      # not an attribute of the target module: `_prepare_job` raises
_TL = threading.local()


class Killed(BaseException):
    pass


class AbortSelect(BaseException):
    pass


class Rollback(Exception):
    pass


class Actor(object):
    """A thread that only runs while the main thread waits for it."""

    def __init__(self, fn, inst, park_capture):
        self.fn = fn
        self.inst = inst
        self.park_capture = park_capture
        self.go = threading.Semaphore(0)
        self.back = threading.Semaphore(0)
        self.state = 'new'
        self.label = None
        self.kill = False
        self.unwind = False
        self.exc = None
        self.t = threading.Thread(target=self._run, daemon=True)

    def _run(self):
        self.go.acquire()
        _TL.actor = self
        try:
            if not self.kill:
                self.fn()
        except Killed:
            pass
        except BaseException as e:   # what the real thread pool / checker loop would swallow
            self.exc = e
        finally:
            self.state = 'done'
            self.back.release()

    def park(self, label):
        if self.kill and self.unwind:
            # the instance is dying by EXCEPTION UNWINDING (SystemExit / GreenletExit at service stop): the clean-up
            # code of the real thread (finally clauses) runs for real, nothing parks any more
            return
        self.label = label
        self.state = 'parked'
        self.back.release()
        self.go.acquire()
        self.state = 'running'
        if self.kill:
            raise Killed()

    def start(self):
        self.t.start()
        return self.resume()

    def resume(self):
        self.go.release()
        self.back.acquire()
        return self.state

    def destroy(self, unwind=False):
        if self.state == 'done':
            return
        self.kill = True
        self.unwind = unwind
        if self.state == 'new':
            self.t.start()
        self.resume()


class FakeCond(object):
    """Stands in for DefaultScheduler._cond (single active thread at any time)."""

    def __init__(self, inst):
        self.inst = inst
        self.waits = []

    def __enter__(self):
        return self

    def __exit__(self, *a):
        if self.inst.in_pop:
            self.inst.sched._stopped = True
        return False

    def wait(self, timeout=None):
        self.waits.append(timeout)

    def notify(self):
        pass

    def notify_all(self):
        pass


class FakeExecutor(object):
    def __init__(self, inst):
        self.inst = inst

    def submit(self, fn, *args):
        self.inst.submitted.append((fn, args))

    def shutdown(self, wait=True):
        pass


class Inst(object):
    def __init__(self, world, idx):
        from oslo_config import cfg
        from mistral.scheduler import default_scheduler
        self.world = world
        self.idx = idx
        self.alive = True
        self.sched = default_scheduler.DefaultScheduler(cfg.CONF.scheduler)
        self.sched._stopped = False
        self.in_pop = False
        self.submitted = []
        self.tasks = {}          # ordinal -> Actor   (insertion order = pop order)
        self.poll = None         # None | ('selected', [job objs]) | ('running', Actor)
        self.poll_queue = []     # ordinals captured by the running poll, still to process
        self.sched._cond = FakeCond(self)
        self.sched._executor = FakeExecutor(self)
        self._wrap()

    def _wrap(self):
        s = self.sched
        w = self.world
        real_capture = s._capture_scheduled_job
        real_prepare = s._prepare_job        # staticmethod, always called as self._prepare_job(job)
        real_invoke = s._invoke_job
        real_delete = s._delete_scheduled_job
        me = self

        def capture(job):
            a = getattr(_TL, 'actor', None)
            if a is not None and a.park_capture:
                a.park('capture')
            ok = real_capture(job)
            w.stats['capture-ok' if ok else 'capture-cas-failed'] += 1
            if ok:
                w.trace.append(['captured', w.ordinal(job.id), w.clock, me.idx])
                if a is not None and not a.park_capture:
                    me.poll_queue.append(w.ordinal(job.id))
            return ok

        def prepare(job):
            # one step = `_prepare_job` + `_invoke_job` (no DB access in between)
            a = getattr(_TL, 'actor', None)
            if a is not None:
                a.park('invoke')
            o = w.ids.get(getattr(job, 'id', None))
            if o is not None and o in w.bad:
                w.stats['bad-job-processed'] += 1
                if a is not None and not a.park_capture and len(me.poll_queue) > 1:
                    w.stats['bad-job-processed-in-poll-queue'] += 1
            return real_prepare(job)

        def invoke(auth_ctx, func, args):
            w.current_inst = me.idx
            try:
                return real_invoke(auth_ctx, func, args)
            finally:
                w.current_inst = None

        def delete(job):
            a = getattr(_TL, 'actor', None)
            if a is not None:
                a.park('delete')
            r = real_delete(job)
            w.trace.append(['deleted', w.ordinal(job.id), w.clock, me.idx])
            if a is not None and not a.park_capture and me.poll_queue and \
                    me.poll_queue[0] == w.ordinal(job.id):
                me.poll_queue.pop(0)
            return r

        s._capture_scheduled_job = capture
        s._prepare_job = prepare
        s._invoke_job = invoke
        s._delete_scheduled_job = delete


class World(object):
    """cfg = {'pickup': int, 'timeout': int, 'batch': int|None, 'bad': [ordinals] (optional)},
    n instances."""

    KEYS = {1: 'k1', 2: 'k2', 3: 'k3'}

    def __init__(self, cfg, n):
        self.boot()
        from oslo_config import cfg as ocfg
        from oslo_utils import timeutils
        self.timeutils = timeutils
        self.CONF = ocfg.CONF
        self.cfg = cfg
        self.bad = set(cfg.get('bad') or [])     # ordinals of the jobs that cannot be prepared
        self.CONF.set_override('pickup_job_after', cfg['pickup'], 'scheduler')
        self.CONF.set_override('captured_job_timeout', cfg['timeout'], 'scheduler')
        self.CONF.set_override('batch_size', cfg['batch'], 'scheduler')
        self.clock = 0
        self._set_clock()
        self._clean()
        self.ids = {}            # uuid -> ordinal
        self.uuids = []          # ordinal -> uuid
        self.jobs = []           # ordinal -> {'sched_at','ra','key','tx','fate','state'}
        self.hidden = {}         # ordinal -> column values of a committed-but-not-yet-visible row
        self.trace = []
        self.stats = collections.Counter()
        self.current_inst = None
        self.problems = []       # things the real code did that the harness cannot interpret
        self.insts = [Inst(self, i) for i in range(n)]
        _install_target(self)

    # ------------------------------------------------------------ plumbing
    _booted = False

    @classmethod
    def boot(cls):
        if cls._booted:
            return
        from harness import boot
        boot.boot()
        from oslo_config import cfg as ocfg
        from mistral.db.v2 import api as db_api
        ocfg.CONF.set_default('connection', 'sqlite://', group='database')
        ocfg.CONF.set_default('max_overflow', -1, group='database')
        ocfg.CONF.set_default('max_pool_size', 1000, group='database')
        db_api.setup_db()
        cls._booted = True

    def close(self):
        for inst in self.insts:
            self._kill(inst)
        self.timeutils.clear_time_override()
        for o in ('pickup_job_after', 'captured_job_timeout', 'batch_size'):
            self.CONF.clear_override(o, 'scheduler')

    def _set_clock(self):
        self.timeutils.set_time_override(T0 + datetime.timedelta(seconds=self.clock))

    def _session_do(self, fn):
        from mistral.db.sqlalchemy import base as b
        from mistral.db.v2 import api as db_api
        with db_api.transaction():
            return fn(b._get_thread_local_session())

    def _clean(self):
        from mistral.db.v2.sqlalchemy import models
        self._session_do(lambda ses: ses.query(models.ScheduledJob).delete())

    def ordinal(self, uuid):
        return self.ids[uuid]

    @staticmethod
    def rel(dt):
        if dt is None:
            return None
        d = (dt - T0).total_seconds()
        return int(d) if d == int(d) else d

    # ------------------------------------------------------------ steps
    def do(self, step):
        k = step[0]
        return getattr(self, 'st_' + k)(*step[1:])

    def st_tick(self, n):
        self.clock += n
        self._set_clock()

    def st_schedule(self, i, ra, key, tx, fate='commit'):
        from mistral.db.v2 import api as db_api
        from mistral.db.v2.sqlalchemy import models
        from mistral.scheduler import base as sb
        inst = self.insts[i]
        if not inst.alive:
            return
        ordn = len(self.uuids)
        func = BAD_FUNC if ordn in self.bad else 'target'
        job = sb.SchedulerJob(run_after=ra, func_name=TARGET_MOD + '.' + func,
                              func_args={'j': ordn}, key=self.KEYS[key])
        before = set(id(e[2]) for e in inst.sched._heap)
        try:
            with db_api.transaction():
                inst.sched.schedule(job)
                if fate != 'commit':
                    raise Rollback()
        except Rollback:
            pass
        new = [e[2] for e in inst.sched._heap if id(e[2]) not in before]
        if len(new) != 1:
            self.problems.append('schedule pushed %d heap entries' % len(new))
            return
        uuid = new[0].id
        self.ids[uuid] = ordn
        self.uuids.append(uuid)
        self.jobs.append({'sched_at': self.clock, 'ra': ra, 'key': key, 'tx': tx,
                          'fate': fate, 'state': 'uncommitted', 'inst': i})
        if fate == 'commit':
            # move the committed row out of sight until the `commit` step
            def hide(ses):
                row = ses.query(models.ScheduledJob).filter_by(id=uuid).one()
                vals = {c.name: getattr(row, c.name) for c in row.__table__.columns}
                ses.delete(row)
                return vals
            self.hidden[ordn] = self._session_do(hide)

    def st_scheduleBad(self, i):
        """schedule() whose _persist_job raises (serializer for a missing argument)."""
        from mistral.db.v2 import api as db_api
        from mistral.scheduler import base as sb
        inst = self.insts[i]
        if not inst.alive:
            return
        job = sb.SchedulerJob(run_after=0, func_name=TARGET_MOD + '.target',
                              func_args={'j': -1}, key='k1',
                              func_arg_serializers={'missing': 'no.such.Serializer'})
        try:
            with db_api.transaction():
                inst.sched.schedule(job)
        except Exception:
            pass

    def _end_tx(self, tx, outcome):
        from mistral.db.v2.sqlalchemy import models
        for ordn, j in enumerate(self.jobs):
            if j['tx'] == tx and j['state'] == 'uncommitted':
                if outcome == 'commit' and j['fate'] == 'commit':
                    vals = self.hidden.pop(ordn)
                    self._session_do(lambda ses: ses.add(models.ScheduledJob(**vals)))
                    j['state'] = 'committed'
                    j['committed_at'] = self.clock
                elif outcome == 'rollback' and j['fate'] != 'commit':
                    j['state'] = 'rolledBack'
                else:
                    raise ValueError('step %s of tx %d contradicts the fate chosen at schedule time'
                                     % (outcome, tx))

    def st_commit(self, tx):
        self._end_tx(tx, 'commit')

    def st_rollback(self, tx):
        self._end_tx(tx, 'rollback')

    def st_pop(self, i):
        inst = self.insts[i]
        if not inst.alive:
            return
        s = inst.sched
        inst.in_pop = True
        try:
            s._dispatcher()
        finally:
            inst.in_pop = False
            s._stopped = False
        for fn, args in inst.submitted:
            job = args[0]
            ordn = self.ids.get(getattr(job, 'id', None))
            if ordn is None:
                self.problems.append('dispatcher submitted an unknown job')
                continue
            a = Actor(lambda fn=fn, args=args: fn(*args), inst, True)
            inst.tasks[ordn] = a
            a.start()
            self._reap(inst)
        inst.submitted = []

    def _reap(self, inst):
        for o in [o for o, a in inst.tasks.items() if a.state == 'done']:
            del inst.tasks[o]

    def st_task(self, i, j):
        inst = self.insts[i]
        if not inst.alive or j not in inst.tasks:
            return
        inst.tasks[j].resume()
        self._reap(inst)

    def st_pollSelect(self, i):
        from mistral.db.v2 import api as db_api
        inst = self.insts[i]
        if not inst.alive or inst.poll is not None:
            return
        real = db_api.get_scheduled_jobs_to_start
        got = {}

        def select(*a, **k):
            got['jobs'] = real(*a, **k)
            raise AbortSelect()

        db_api.get_scheduled_jobs_to_start = select
        try:
            inst.sched._process_store_jobs()
        except AbortSelect:
            pass
        finally:
            db_api.get_scheduled_jobs_to_start = real
        if 'jobs' not in got:
            self.problems.append('_process_store_jobs did not query the store')
            got['jobs'] = []
        inst.poll = ('selected', list(got['jobs']))

    def poll_cands(self, inst):
        return [[self.ids[j.id], self.rel(j.captured_at)] for j in inst.poll[1]]

    def set_cands(self, i, order):
        """Continue with the given (model) answer of the select: same execute_at values,
        another order / choice among the ties."""
        from mistral.db.v2.sqlalchemy import models
        inst = self.insts[i]
        by = {self.ids[j.id]: j for j in inst.poll[1]}
        missing = [o for o in order if o not in by]
        if missing:
            def load(ses):
                return ses.query(models.ScheduledJob).filter(
                    models.ScheduledJob.id.in_([self.uuids[o] for o in missing])).all()
            for j in self._session_do(load):
                by[self.ids[j.id]] = j
        inst.poll = ('selected', [by[o] for o in order])

    def st_pollCapture(self, i):
        from mistral.db.v2 import api as db_api
        inst = self.insts[i]
        if not inst.alive or inst.poll is None or inst.poll[0] != 'selected':
            return
        stash = inst.poll[1]
        real = db_api.get_scheduled_jobs_to_start
        inst.poll_queue = []
        a = Actor(inst.sched._process_store_jobs, inst, False)
        db_api.get_scheduled_jobs_to_start = lambda *x, **k: stash
        try:
            st = a.start()
        finally:
            db_api.get_scheduled_jobs_to_start = real
        inst.poll = ('running', a)
        self._poll_done(inst)

    def _poll_done(self, inst):
        if inst.poll and inst.poll[0] == 'running' and inst.poll[1].state == 'done':
            inst.poll = None
            inst.poll_queue = []

    def st_pollNext(self, i):
        inst = self.insts[i]
        if not inst.alive or inst.poll is None or inst.poll[0] != 'running':
            return
        inst.poll[1].resume()
        self._poll_done(inst)

    def _kill(self, inst, unwind=False):
        for a in list(inst.tasks.values()):
            a.destroy(unwind)
        inst.tasks = {}
        if inst.poll and inst.poll[0] == 'running':
            inst.poll[1].destroy(unwind)
        inst.poll = None
        inst.poll_queue = []

    def st_crash(self, i, unwind=0):
        """the instance dies: its parked threads never continue (kill -9), or - unwind=1 - they are unwound by a
        BaseException raised where they are parked, so that the finally clauses of the real code run (a process
        stopped by SystemExit / GreenletExit); for the model both are the same step: the work in flight stays as it is"""
        inst = self.insts[i]
        if not inst.alive:
            return
        self._kill(inst, bool(unwind))
        inst.alive = False
        inst.sched = None

    # ------------------------------------------------------------ observation
    def db_rows(self):
        from mistral.db.v2.sqlalchemy import models

        def q(ses):
            return [(r.id, self.rel(r.execute_at), self.rel(r.captured_at), r.key)
                    for r in ses.query(models.ScheduledJob).all()]
        return {self.ids[r[0]]: r for r in self._session_do(q) if r[0] in self.ids}

    def has(self, i, key, proc):
        f = {}
        if key is not None:
            f['key'] = self.KEYS[key]
        if proc is not None:
            f['processing'] = proc
        # Called inside a transaction, as the engine does: outside one the un-decorated
        # get_scheduled_jobs_count() runs its query on an already closed session, which leaves a
        # checked-out connection behind whose garbage collection rolls back / interferes with
        # whatever uses the single shared sqlite connection at that moment (GC-time dependent).
        from mistral.db.v2 import api as db_api
        try:
            with db_api.transaction(read_only=True):
                return bool(self.insts[i].sched.has_scheduled_jobs(**f))
        except Exception as e:
            return 'exception:' + type(e).__name__

    STAGE = {'capture': 'popped', 'invoke': 'captured', 'delete': 'invoked'}
    RKEY = {'k1': 1, 'k2': 2, 'k3': 3}

    def observe(self, keys, with_has=True):
        rows = self.db_rows()
        out_rows = []
        for o in range(len(self.uuids)):
            r = rows.get(o)
            out_rows.append([r[1], r[2], self.RKEY.get(r[3], r[3])] if r else None)
        insts = []
        for inst in self.insts:
            if not inst.alive:
                insts.append({'alive': False, 'heap': [], 'mem': [], 'tasks': [], 'poll': ['idle']})
                continue
            s = inst.sched
            heap = [[self.rel(e[0]), self.ids.get(e[2].id, -1)] for e in sorted(s._heap, key=lambda e: (e[0], e[1]))]
            mem = [[self.ids.get(k, -1), self.rel(v.captured_at)] for k, v in s.in_memory_jobs.items()]
            tasks = [[o, self.STAGE.get(a.label, a.label)] for o, a in inst.tasks.items()]
            if inst.poll is None:
                poll = ['idle']
            elif inst.poll[0] == 'selected':
                poll = ['selected', self.poll_cands(inst)]
            else:
                poll = ['running', list(inst.poll_queue), inst.poll[1].label == 'delete']
            insts.append({'alive': True, 'heap': heap, 'mem': mem, 'tasks': tasks, 'poll': poll})
        obs = {'clock': self.clock, 'rows': out_rows, 'insts': insts,
               'trace': [list(e) for e in self.trace]}
        if with_has:
            has = []
            for inst in self.insts:
                if inst.alive:
                    for k in [None] + list(keys):
                        for p in (None, False, True):
                            has.append([inst.idx, k, p, self.has(inst.idx, k, p)])
            obs['has'] = has
        return obs


def model_view(m):
    """Project a model observation (Drv/Sched stateJson) on what `World.observe` reports."""
    rows = [[r[0], r[1], r[2]] if r[3] == 'committed' else None for r in m['rows']]
    out = {'clock': m['clock'], 'rows': rows, 'insts': m['insts'], 'trace': m['trace']}
    if 'has' in m:
        out['has'] = m['has']
    return out


def _install_target(world):
    mod = sys.modules.get(TARGET_MOD)
    if mod is None:
        mod = types.ModuleType(TARGET_MOD)
        sys.modules[TARGET_MOD] = mod

    def target(j=None, **kw):
        w = mod.world
        w.trace.append(['invoked', j, w.clock, w.current_inst])

    mod.target = target
    mod.world = world
