"""Stream `flow` (C05, engine level): generated programs on the REAL engine; at the end of every
run the inbound context of every task execution is recomputed by the Lean data-flow model
(Mistral.Ctx) from the real rows of the tasks that causally precede it and compared with the stored
one; and the C05 monitor reads the statement on the real rows: the value of a variable visible to a
task is the one published by the causally latest publisher among its ancestors, else the workflow
input; the stored contexts of completed tasks never change afterwards."""
import json
import random

from harness import ctx_stream
from harness import engine_run as er
from harness import engine_stream as es
from harness import wfgen

INTERNAL = ('__versions', '__task_execution', '__execution', 'openstack')


def split_ctx(c):
    c = c or {}
    return {'data': {k: v for k, v in c.items() if k not in ('__versions', '__task_execution')},
            'vers': {ctx_stream.UNHASH.get(k, k): v for k, v in c.get('__versions', {}).items()}}


def norm(x):
    return json.loads(json.dumps(x, sort_keys=True))


def parents_of(t, tasks_by_ord, by_name, prog_tasks):
    """the executions whose outbound contexts make up t's inbound context"""
    spec = prog_tasks.get(t['name'], {})
    if spec.get('join') is not None:
        res = []
        for p in tasks_by_ord.values():
            if p['wf'] == t['wf'] and p['state'] in ('SUCCESS', 'ERROR', 'CANCELLED') and \
                    any(nt[0] == t['name'] for nt in p['next_tasks']):
                res.append(p)
        return res
    trig = (t['rt'] or {}).get('triggered_by') or []
    ids = [x['task_id'] for x in trig]
    return [p for p in tasks_by_ord.values() if p['id'] in ids]


def check_run(ctx, prog, y, tr, seed, case=None):
    case = case or {}
    drv = ctx.driver()
    snap = tr.final
    prog_tasks = {t['name']: t for t in prog['tasks']}
    tasks = {t['ord']: t for t in snap['tasks']}
    wf = snap['wfs'][0]
    hist = []
    names = [t['name'] for t in tasks.values() if t['wf'] == wf['ord']]
    if len(set(names)) < len(names):
        # a task was activated more than once although the definition is of the single-activation class (a join that
        # fails - an inbound route can no longer fire - dispatches its on-error clause at every refresh, the first
        # time before its inbound context is evaluated: the C04 family "a join runs exactly once", not data flow):
        # outside the class this stream is about
        ctx.count('flow', 'skipped:task-activated-more-than-once')
        return
    for t in tasks.values():
        ctx_stream.learn_paths(t['published'])
    for t in tasks.values():
        if t['state'] not in er.COMPLETED or t['wf'] != wf['ord']:
            continue
        ps = sorted(parents_of(t, tasks, None, prog_tasks), key=lambda p: p['id'])
        hist.append({'name': '%s#%d' % (t['name'], t['ord']), 'row': t, 'parents': ps})
        if not ps:
            continue
        outs = []
        for p in ps:
            o = drv.call('ctx.outbound', {'in': split_ctx(p['in_context']), 'published': p['published'] or {}})
            outs.append(o)
        mo = drv.call('ctx.upstream', {'outs': outs})
        real = split_ctx(t['in_context'])
        ctx.evaluated('flow', [y, seed, t['name']], nontrivial=len(ps) >= 2 or bool(t['published']))
        ctx.count('flow', 'inbound-recomputed:%d-parents' % min(len(ps), 3))
        if norm(mo) != norm(real):
            ctx.disagree('flow', dict(case, task=t['name'],
                                      parents=[[p['name'], p['published']] for p in ps]), mo, real)
    # ---- monitors on the real rows.  LEAF-granular (every history, also those that republish a variable
    # without a leaf or with another shape): the visible value of a leaf path is that of a maximal
    # publisher of that leaf, never a stale copy (ctx_stream.check_leaves); whole-variable (shape-
    # preserving histories only): the value of the causally latest publisher, else the workflow input
    h2 = [{'name': h['name'], 'parents': ['%s#%d' % (p['name'], p['ord']) for p in h['parents']],
           'published': h['row']['published'] or {}} for h in hist]
    names = {h['name'] for h in h2}
    h2 = [dict(h, parents=[p for p in h['parents'] if p in names]) for h in h2]
    h2 = topo(h2)
    causal = ctx_stream.Causal(h2)
    ctx.count('flow', 'history:' + ctx_stream.hist_class(h2, causal))
    for h in h2:
        row = [x for x in hist if x['name'] == h['name']][0]['row']
        ctx_stream.check_leaves(ctx, 'flow', causal, h['name'],
                                {k: v for k, v in (row['in_context'] or {}).items() if k not in INTERNAL},
                                dict(case, task=row['name']))
    # ---- "... and to the workflow output": with no `output:` clause the output of a successful run is the final
    # context = what a join of ALL the end tasks (completed, no next tasks) would see; every leaf an end task
    # published is in it
    if not prog.get('output') and wf['state'] == 'SUCCESS' and isinstance(wf.get('output'), dict):
        ends = [h['name'] for h in h2 if not [x for x in hist if x['name'] == h['name']][0]['row']['next_tasks']]
        virt = h2 + [{'name': '<workflow output>', 'parents': ends, 'published': {}}]
        c2 = ctx_stream.Causal(virt)
        out = {k: v for k, v in wf['output'].items() if k not in INTERNAL}
        ctx.count('flow', 'output-checked:%d-end-tasks' % min(len(ends), 8))
        ctx_stream.check_leaves(ctx, 'flow', c2, '<workflow output>', out, dict(case, task='<workflow output>'))
        for e in ends:
            for v, leaves in c2.leaves[e].items():
                others = [a for a in c2.anc['<workflow output>'] if v in c2.leaves[a]]
                for p in leaves:
                    if any(p not in c2.leaves[a][v] for a in others):
                        continue
                    if ctx_stream.lookup(out, p)[0] != 'leaf':
                        ctx.violation('end task %s published %s, the workflow output does not have it'
                                      % (e, '.'.join(p)), dict(case, leaf=list(p), end_task=e),
                                      {'kind': 'end-task-publication-missing-from-output'})
    if ctx_stream.shape_change(h2):
        ctx.count('flow', 'shape-changing-history')
        return
    inputs = wf['input'] or {}
    for h in h2:
        row = [x for x in hist if x['name'] == h['name']][0]['row']
        anc = ctx_stream.ancestors(h2, h['name'])
        by = {x['name']: x for x in h2}
        for v in wfgen.VARS:
            ps = [a for a in anc if v in by[a]['published']]
            if not ps:
                exp = inputs.get(v, '<unset>')
            else:
                latest = [p for p in ps if all(q == p or q in ctx_stream.ancestors(h2, p) for q in ps)]
                if len(latest) != 1:
                    continue
                exp = by[latest[0]]['published'][v]
            got = (row['in_context'] or {}).get(v, inputs.get(v, '<unset>'))
            ctx.count('flow', 'latest-checked')
            if norm(got) != norm(exp):
                ctx.violation('task %s sees %s=%r, the causally latest publisher says %r' % (row['name'], v, got, exp),
                              dict(case, task=row['name'], var=v, expected=exp, got=got),
                              {'kind': 'stale-value-engine'})
    # ---- monitor: the stored contexts of a completed task do not change while it stays completed
    # (consecutive snapshots; a join that is re-evaluated legitimately gets a new inbound context)
    prev = {}
    for desc, s in tr.events:
        if s is None:
            continue
        cur_all = {}
        for t in s['tasks']:
            cur = json.dumps([t['published'], t['in_context']], sort_keys=True)
            cur_all[t['ord']] = (cur, t['state'])
            if t['state'] in er.COMPLETED and t['ord'] in prev and prev[t['ord']][1] == t['state'] and \
                    prev[t['ord']][0] != cur:
                ctx.violation('stored context of completed task %s changed at %s' % (t['name'], desc),
                              dict(case, task=t['name'], event=desc, before=json.loads(prev[t['ord']][0]),
                                   after=json.loads(cur)),
                              {'kind': 'stored-context-changed-after-completion'})
        prev = cur_all


def topo(h2):
    """the rows in a causal order (parents first), as ctx_stream.Causal expects"""
    done, out, left = set(), [], list(h2)
    while left:
        nxt = [h for h in left if all(p in done for p in h['parents'])]
        if not nxt:
            nxt = left[:1]      # cannot happen for single-activation runs; keep the monitor total
        for h in nxt:
            out.append(h)
            done.add(h['name'])
        left = [h for h in left if h['name'] not in done]
    return out


def hist_to_program(hist):
    """a publish history of ctx_stream (fork/join DAG of literal publishes) as a direct workflow: one noop
    task per history task, on-success routes to its children, `join: all` where it has >= 2 parents"""
    tasks = []
    for t in hist:
        tasks.append({'name': t['name'], 'action': ['noop'], 'join': 'all' if len(t['parents']) >= 2 else None,
                      'publish': {v: ['lit', val] for v, val in t['published'].items()},
                      'on_success': [{'to': c['name'], 'guard': None} for c in hist if t['name'] in c['parents']],
                      'on_error': [], 'on_complete': []})
    return {'name': 'wf', 'type': 'direct', 'tasks': tasks, 'syntax': 'yaql', 'input': [],
            'output': {'o0': ['var', ctx_stream.VARS[0]]}}


def patch_batches(size):
    """the database read of the end tasks in slices of `size` rows instead of 20 (the loop of
    sqlalchemy.api.get_completed_task_executions_as_batches re-stated with the slice size a parameter, same query,
    same slicing), so that a handful of end tasks spans several batches; returns the undo function"""
    from mistral.db.v2 import api as db_api
    from mistral.db.v2.sqlalchemy import api as sa_api
    orig = db_api.get_completed_task_executions_as_batches

    def small(**kwargs):
        query = sa_api._get_completed_task_executions_query(kwargs)
        idx = 0
        while idx < query.count():
            yield query.slice(idx, idx + size).all()
            idx += size
    db_api.get_completed_task_executions_as_batches = small
    return lambda: setattr(db_api, 'get_completed_task_executions_as_batches', orig)


def _plain_keys(hashed=True):
    # the model keeps version keys as plain leaf paths; real md5 keys are mapped back (ctx_stream.UNHASH)
    from harness import boot
    boot.boot()
    from oslo_config import cfg
    cfg.CONF.set_override('hash_version_keys', hashed, group='context_versioning')


def run_chunk(ctx, n_programs):
    from harness.engine_driver import EngineWorld
    rng = ctx.rng
    done = 0
    tries = 0
    while done < n_programs and tries < n_programs * 6:
        tries += 1
        batch = None
        if rng.random() < 0.45:
            # the fork/join publish histories of the ctx stream (nested dict before a fork, a leaf
            # republished in one branch, wholesale republication without it in a sibling, chained joins,
            # branches from independent roots) as real workflows: concurrent publishers of one VARIABLE
            # are allowed here, the leaf-granular monitor knows what the statement says about them
            r = rng.random()
            hist = (ctx_stream.gen_fork_nested if r < 0.45 else ctx_stream.gen_multi_root if r < 0.7
                    else ctx_stream.gen_wide_ends)(rng)
            if len(hist) > (16 if r >= 0.7 else 12):
                continue
            prog = hist_to_program(hist)
            if r >= 0.7:
                # many end tasks: no `output:` clause (the output is the whole final context) and the end tasks
                # are read from the database in batches of 2 or 3 rows
                prog['output'] = None
                batch = rng.choice([2, 2, 3])
            ctx.count('flow', 'program:publish-history-motif' + (',wide,batch=%d' % batch if r >= 0.7 else ''))
            table = {}
        else:
            prog = wfgen.gen_program(rng, p_bad=0.0, p_cmd=0.0, p_fail=0.08)
            wfgen.make_single_activation(prog)
            if not es.deterministic_class(prog):
                continue
            ctx.count('flow', 'program:generated')
            table = wfgen.gen_oracle_table(rng, prog, p_err=0.08)
        y = wfgen.render_yaml(prog)
        policy = rng.choice(['random', 'fifo', 'lifo'])
        seed = rng.getrandbits(32)
        hashed = rng.random() < 0.7
        _plain_keys(hashed)
        ctx.count('flow', 'hashed-version-keys' if hashed else 'plain-version-keys')
        w = EngineWorld(seed=seed)
        undo = patch_batches(batch) if batch else (lambda: None)
        try:
            tr = er.run_case(w, [y], 'wf', {}, er.Oracle(table), random.Random(seed), policy=policy)
        except Exception as e:
            from mistral import exceptions as exc
            if isinstance(e, exc.MistralException):
                ctx.count('flow', 'rejected')
                continue
            raise
        finally:
            undo()
        done += 1
        check_run(ctx, prog, y, tr, seed, {'stream': 'flow', 'program': prog, 'yaml': y, 'table': table,
                                           'policy': policy, 'seed': seed, 'hashed': hashed, 'batch': batch})


def replay(ctx, case):
    from harness.engine_driver import EngineWorld
    _plain_keys(case.get('hashed', True))
    w = EngineWorld(seed=case['seed'])
    undo = patch_batches(case['batch']) if case.get('batch') else (lambda: None)
    try:
        tr = er.run_case(w, [case['yaml']], 'wf', {}, er.Oracle(case['table']), random.Random(case['seed']),
                         policy=case['policy'])
    finally:
        undo()
    check_run(ctx, case['program'], case['yaml'], tr, case['seed'], case)
