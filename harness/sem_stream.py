"""Stream `sem` (C02 / C10): the tie between the DECLARATIVE semantics `Mistral.Sem` (the object of the
theorems of Mistral.Props.C02Sem: the outcome is a function of definition + action results only) and
the real engine.

For generated programs of the class of the theorem (small acyclic direct workflows: forks, joins
all / one / N with successors, on-error / on-complete routes, guards that do not fire, optionally a
non-join task with several inbound routes; larger single-activation DAGs with task-defaults) and an
oracle = a set of failing tasks, the REAL engine is run to quiescence under a random / fifo / lifo
schedule with 0-2 pause / resume rounds and (half of the runs) spec-cache eviction before every
event.  The real outcome - workflow state and the set of rows (name, state, next_tasks) - is
compared with the semantics computed by the compiled Lean driver (`sem.rows`): NOT with another run.
On every prefix the real rows must be SOUND w.r.t. the semantics (theorem `sound`): every row a task
of the semantic set, every completed row with the prescribed state and next_tasks.

The theorems hold for EVERY plain history, so every mismatch contradicts theorem + tie.  The model
classifies the recorded history (`sem.check`): a mismatch on a history in which a stale start request
(`start_task(first_run=False)` for a task that has meanwhile failed) was delivered is reported as a
violation with the signature of that (fixed) defect - the regression of repo_patches/20 -, any other
mismatch as a disagreement.  The number of histories that exercise the fixed path is counted.
Monitor of the multiset reading (NOT a theorem): at quiescence, in a definition of the single-activation class
(`singleActB` / `singleActWideB` of Model/Sem.lean, evaluated by the driver) every task has exactly one execution; in the
wide-but-not-strict class a hit is the known finding `failed-join-reopened-by-late-branch`, in the strict class a violation.
corpus/C02/*.json: former counter-witnesses (model event lists) replayed on the real engine; they must
agree with the model after every event and with the semantics at the end.
"""
import glob
import json
import os
import random

from harness import core_stream as cs
from harness import engine_run as er
from harness import live_explore as le
from harness import live_replay as lr
from harness import live_stream as ls
from harness import wfgen

SIG_STALE = {'kind': 'sem-mismatch', 'cause': 'stale-restart-of-failed-task'}
SIG_TWICE = {'kind': 'task-executed-twice', 'cause': 'failed-join-reopened-by-late-branch'}


def failing_of(prog, table):
    f = set(k.split(':')[0] for k in table)
    for t in prog['tasks']:
        if t.get('action') and t['action'][0] == 'fail':
            f.add(t['name'])
    return sorted(f)


def oracle_table(rng, prog, p_err):
    """the same result for EVERY action of a task (the oracle of the semantics is per task)"""
    tbl = {}
    for t in prog['tasks']:
        if rng.random() < p_err:
            for k in range(12):
                tbl['%s:%d' % (t['name'], k)] = ['error']
    return tbl


def real_outcome(obs):
    rows = sorted(set((t[0].split('#')[0], t[1], json.dumps(sorted(list(x) for x in t[5]))) for t in obs['tasks']))
    return obs['wf'], rows


def sem_outcome(sem):
    rows = sorted(set((r[0], r[1], json.dumps(sorted(list(x) for x in r[2]))) for r in sem['rows']))
    return sem['verdict'], rows


def unsound_prefix(real, sem):
    """first observation of the real run whose rows are not sound w.r.t. the semantics"""
    want = {r[0]: (r[1], sorted(list(x) for x in r[2])) for r in sem['rows']}
    for k, o in enumerate(real):
        for t in o['tasks']:
            name = t[0].split('#')[0]
            if name not in want:
                return k, 'row of a task outside the semantic set: %s' % t[0]
            if t[1] in ('SUCCESS', 'ERROR', 'CANCELLED', 'SKIPPED'):
                got = (t[1], sorted(list(x) for x in t[5]))
                if got != want[name]:
                    return k, 'completed row %s: %s, semantics: %s' % (t[0], got, want[name])
    return None


def run_case(ctx, prog, table, policy, seed, ops=None, evict=False, max_steps=400):
    """harness/core_stream.run_case + spec-cache eviction before every delivery"""
    from harness.engine_driver import EngineWorld
    w = EngineWorld(seed=seed)
    y = wfgen.render_yaml(prog)
    w.create_workflows(y)
    rng = random.Random(seed)
    oracle = er.Oracle(table)
    mapper = cs.Mapper(w)
    root = w.start_workflow('wf', {})
    events = [{'ev': 'start'}]
    robs = [cs.real_obs(w, mapper)]
    ops = sorted(ops or [], key=lambda o: o['at'])
    oi = 0
    step = 0
    unsupported = None

    def enabled():
        return [e for e in w.enabled() if not (e[0] == 'job' and e[1].func_name.endswith('_check_and_fix_integrity'))]

    while step < max_steps:
        while oi < len(ops) and ops[oi]['at'] <= step:
            o = ops[oi]
            oi += 1
            w.op('pause_workflow' if o['op'] == 'pause' else 'resume_workflow', root)
            events.append({'ev': o['op']})
            robs.append(cs.real_obs(w, mapper))
        en = enabled()
        if not en:
            if oi < len(ops):
                ops[oi]['at'] = step
                continue
            break
        it = er.pick(rng, policy, en)
        mi = mapper.item(it)
        if mi is None or mi.get('t', 'x') is None:
            unsupported = w.describe(it)
            break
        if evict:
            w.clear_caches()
        if it[0] == 'p' and it[1].kind == 'action':
            w.deliver(it, oracle=oracle)
            res = [p for p in w.pending if p.kind == 'rpc' and p.data['method'] == 'on_action_complete']
            ok = bool(res[-1].data['kwargs']['result'].is_success()) if res else True
            events.append({'ev': 'execute', 't': mi['t'], 'occ': mi.get('occ', 0), 'ok': ok})
        else:
            w.deliver(it, oracle=oracle)
            events.append({'ev': 'deliver', 'item': mi})
        robs.append(cs.real_obs(w, mapper))
        step += 1
    return {'yaml': y, 'events': events, 'real': robs, 'unsupported': unsupported,
            'errors': list(w.errors), 'exhausted': step >= max_steps, 'quiescent': not enabled()}


def gen_program(rng):
    r = rng.random()
    if r < 0.5:
        prog = le.gen_small(random.Random(rng.getrandbits(48)), 5, multi=rng.random() < 0.3, cyclic=False)
        shape = 'small'
    elif r < 0.7:
        prog = ls.gen_indirect(random.Random(rng.getrandbits(48)))
        shape = 'indirect-join'
    else:
        prog = cs.gen_core_program(random.Random(rng.getrandbits(48)))
        shape = 'dag'
    return prog, shape


def gen_ops(rng):
    ops = []
    k = 0
    for _ in range(rng.choice([0, 1, 1, 2])):
        k1 = k + rng.randint(0, 18)
        k2 = rng.choice([k1 + rng.randint(0, 14), k1 + rng.randint(0, 14), 10 ** 6])
        ops += [{'at': k1, 'op': 'pause'}, {'at': k2, 'op': 'resume'}]
        if k2 >= 10 ** 6:
            break
        k = k2
    return ops


def classify(chk):
    if chk.get('stale') is not None:
        return dict(SIG_STALE)
    return None


def compare(ctx, drv, case, prog, failing, r):
    """real run `r` against the semantics; returns True if they agree"""
    spec = cs.spec_json(prog)
    chk = drv.call('sem.check', {'spec': spec, 'failing': failing, 'events': r['events']})
    if not isinstance(chk, dict) or 'sem' not in chk:
        ctx.disagree('sem', case, chk, 'model refused the input')
        return False
    if chk.get('foreign') is not None:
        # an executor result that is not the oracle's: the run is not a run under this oracle
        ctx.count('sem', 'skipped:foreign-result')
        return True
    sig = classify(chk)
    if sig is not None:
        ctx.count('sem', 'exercised:stale-start-request-delivered')
    sem = chk['sem']
    # (a) soundness of every prefix of the REAL run
    bad = unsound_prefix(r['real'], sem)
    final = r['real'][-1]
    ok = True
    if bad is not None:
        ok = False
        what = 'C02 sem: real rows not sound w.r.t. the declarative semantics after event %d: %s' % bad
    elif r['quiescent'] and not r['exhausted'] and final['wf'] not in ('PAUSED', 'IDLE'):
        # (b) completeness at quiescence
        if real_outcome(final) != sem_outcome(sem):
            ok = False
            what = 'C02 sem: quiescent real outcome differs from the declarative semantics: real %s %s, semantics %s %s' % (
                final['wf'], real_outcome(final)[1], sem['verdict'], sem_outcome(sem)[1])
        ctx.count('sem', 'quiescent')
        # the multiset reading (monitor, not a theorem): in the single-activation class every task is executed once
        names = [t[0].split('#')[0] for t in final['tasks']]
        twice = sorted(set(n for n in names if names.count(n) > 1))
        if chk.get('singleAct'):
            ctx.count('sem', 'single-activation:strict')
        elif chk.get('singleActWide'):
            ctx.count('sem', 'single-activation:wide-only')
        if twice and chk.get('singleAct'):
            ctx.violation('C02 sem: task(s) %s executed more than once in a definition of the strict single-activation '
                          'class: %s' % (twice, json.dumps(final['tasks'])[:300]),
                          dict(case, stream='sem', events=r['events']),
                          {'kind': 'task-executed-twice', 'class': 'single-activation-strict'})
        elif twice and chk.get('singleActWide'):
            ctx.count('sem', 'hit:task-executed-twice')
            ctx.violation('C02 sem: task(s) %s executed more than once (a join that failed early was re-opened by a late '
                          'branch): %s' % (twice, json.dumps(final['tasks'])[:300]),
                          dict(case, stream='sem', events=r['events']), dict(SIG_TWICE))
        elif twice:
            ctx.count('sem', 'multi-activation:duplicates')
    else:
        ctx.count('sem', 'not-quiescent:%s' % final['wf'])
    if ok:
        # the model followed the same events: it must be sound / complete too
        if chk.get('unsound') is not None or not chk.get('complete'):
            ctx.disagree('sem', case, {'model unsound at': chk.get('unsound'), 'complete': chk.get('complete')},
                         'theorems sound / complete_at_quiescence')
            return False
        return True
    ctx.count('sem', 'mismatch:' + (sig['cause'] if sig else 'other'))
    if sig is not None:
        ctx.violation(what, dict(case, stream='sem', events=r['events']), sig)
    else:
        ctx.disagree('sem', case, {'semantics': sem}, {'real': final, 'what': what})
    return False


def run_corpus(ctx):
    from vlib import core
    drv = ctx.driver()
    for f in sorted(glob.glob(os.path.join(core.VERIF, 'corpus', 'C02', '*.json'))):
        c = json.load(open(f))
        if 'events' not in c or 'prog' not in c:
            continue
        evs = lr.parse_events(c['events']) if c['events'] and isinstance(c['events'][0], str) else c['events']
        ctx.count('sem', 'corpus')
        out = lr.replay(c['prog'], evs, drv=drv)
        ctx.evaluated('sem', ['corpus', os.path.basename(f)], nontrivial=True)
        case = {'corpus': os.path.basename(f), 'prog': c['prog'], 'failing': c['failing']}
        if not out['ok']:
            ctx.disagree('sem', dict(case, at=out['diverged_at']), 'model event list', out['why'])
            continue
        r = {'events': evs, 'real': [out['final']], 'quiescent': True, 'exhausted': False}
        compare(ctx, drv, case, c['prog'], c['failing'], r)


def run_chunk(ctx, n_programs):
    drv = ctx.driver()
    rng = ctx.rng
    if getattr(ctx, 'chunk', 0) == 0:
        run_corpus(ctx)
    done = 0
    tries = 0
    while done < n_programs and tries < 20 * n_programs:
        tries += 1
        prog, shape = gen_program(rng)
        if not le.acyclic(prog):
            continue
        done += 1
        for t in prog['tasks']:
            if rng.random() < 0.1:
                t['action'] = ['fail']
        table = oracle_table(rng, prog, 0.15)
        failing = failing_of(prog, table)
        policy = rng.choice(['random', 'random', 'fifo', 'lifo'])
        seed = rng.getrandbits(32)
        ops = gen_ops(rng)
        evict = rng.random() < 0.5
        case = {'prog': prog, 'failing': failing, 'oracle': table, 'policy': policy, 'seed': seed, 'ops': ops, 'evict': evict}
        try:
            r = run_case(ctx, prog, table, policy, seed, ops=[dict(o) for o in ops], evict=evict)
        except Exception as e:
            from mistral import exceptions as exc
            if isinstance(e, exc.MistralException):
                ctx.count('sem', 'rejected:' + type(e).__name__)
                continue
            raise
        if r['unsupported']:
            ctx.count('sem', 'unsupported-item')
            continue
        joins = [t.get('join') for t in prog['tasks'] if t.get('join') is not None]
        ctx.count('sem', 'shape:' + shape)
        ctx.count('sem', 'policy:' + policy)
        ctx.count('sem', 'events', len(r['events']))
        ctx.count('sem', 'pauses:%d' % (len(ops) // 2))
        ctx.count('sem', 'evict:%s' % evict)
        ctx.count('sem', 'failing:%d' % min(len(failing), 3))
        for j in joins:
            ctx.count('sem', 'join:%s' % ('all' if j == 'all' else 'partial'))
        ctx.evaluated('sem', [r['yaml'], failing, policy, seed, ops, evict],
                      nontrivial=bool(joins) or bool(ops) or bool(failing))
        compare(ctx, drv, case, prog, failing, r)
        if ctx.rng.random() < 0.01:
            ctx.sample({'stream': 'sem', 'yaml': r['yaml'], 'failing': failing, 'events': len(r['events']),
                        'final': r['real'][-1]['wf']})


def replay(ctx, rep):
    r = rep['replay']
    drv = ctx.driver()
    if 'corpus' in r or 'policy' not in r:
        evs = r['events']
        if evs and isinstance(evs[0], str):
            evs = lr.parse_events(evs)
        out = lr.replay(r['prog'], evs, drv=drv)
        print('replay: model/real agree on every event: %s; real final %s' % (out['ok'], json.dumps(out['final'])[:300]))
        compare(ctx, drv, {'prog': r['prog'], 'failing': r['failing']}, r['prog'], r['failing'],
                {'events': evs, 'real': [out['final']], 'quiescent': True, 'exhausted': False})
        return
    rr = run_case(ctx, r['prog'], r['oracle'], r['policy'], r['seed'], ops=[dict(o) for o in r['ops']], evict=r.get('evict', False))
    print('replay: real final %s' % json.dumps(rr['real'][-1])[:300])
    compare(ctx, drv, {k: r[k] for k in ('prog', 'failing', 'oracle', 'policy', 'seed', 'ops', 'evict') if k in r},
            r['prog'], r['failing'], rr)
