"""C14 harness: runs the real definition parsers / services on one text with a watchdog.

Seams (all stated in props/C14.py TRUSTED):
  * in-memory sqlite, one default (non-admin) auth context, config defaults;
  * `jsonschema` validator `check_schema` is memoised by *schema content* (it re-validates the
    constant spec-class schema against the metaschema on every call, ~0.14 s each); the stream
    `seam` re-runs a sample without the memo and compares outcomes;
  * hang detection on CPU time of this process (ITIMER_PROF -> SIGPROF raising a BaseException in the main
    thread; the `re` engine and PyYAML's pure-python loader both poll signals), limit calibrated in-process
    (see calibrate); a wall-clock SIGALRM watchdog (>= 300 s) only produces an infrastructure error.
"""
import copy
import inspect
import json
import os
import signal
import traceback

_state = {}


class Hang(BaseException):
    pass


def setup():
    if _state:
        return _state
    import oslo_service.backend as service_backend
    try:
        service_backend.init_backend(service_backend.BackendType.THREADING)
    except Exception:
        pass
    from harness import boot
    boot.boot()
    from oslo_config import cfg
    try:
        cfg.CONF(args=[], default_config_files=[])
    except Exception:
        pass
    from mistral import context as auth_context
    from mistral.db.v2 import api as db_api
    from mistral.services import security
    cfg.CONF.set_default('connection', 'sqlite://', group='database')
    cfg.CONF.set_default('max_overflow', -1, group='database')
    cfg.CONF.set_default('max_pool_size', 1000, group='database')
    db_api.setup_db()
    actx = auth_context.MistralContext.from_dict({
        'user_name': 'test-user', 'user': '1-2-3-4', 'tenant': security.DEFAULT_PROJECT_ID,
        'project_id': security.DEFAULT_PROJECT_ID, 'project_name': 'test-project', 'is_admin': False})
    auth_context.set_ctx(actx)
    import mistral
    from mistral import exceptions as exc
    from mistral.lang import base as lang_base
    from mistral.lang import parser as sp
    from mistral.services import adhoc_actions
    from mistral.services import workbooks as wb_service
    from mistral.services import workflows as wf_service
    _state.update(dict(
        cfg=cfg, db_api=db_api, exc=exc, sp=sp, lang_base=lang_base, wf_service=wf_service,
        wb_service=wb_service, adhoc_actions=adhoc_actions, auth_context=auth_context, actx=actx,
        pkg_dir=os.path.dirname(os.path.abspath(mistral.__file__))))
    memo_on()
    return _state


# ---------------------------------------------------------------- check_schema memo
_memo = {}
_orig_check = {}


def _validator_cls():
    from jsonschema import validators
    return validators.validator_for({})


def memo_on():
    cls = _validator_cls()
    if cls in _orig_check:
        return
    orig = cls.__dict__['check_schema'].__func__ if 'check_schema' in cls.__dict__ \
        else cls.check_schema.__func__
    _orig_check[cls] = cls.__dict__.get('check_schema')

    def check_schema(c, schema, *a, **k):
        try:
            key = json.dumps(schema, sort_keys=True, default=repr)
        except Exception:
            return orig(c, schema, *a, **k)
        if key in _memo:
            return None
        r = orig(c, schema, *a, **k)      # raises SchemaError if the schema itself is broken
        _memo[key] = True
        return r
    cls.check_schema = classmethod(check_schema)


def memo_off():
    cls = _validator_cls()
    if cls in _orig_check:
        o = _orig_check.pop(cls)
        if o is None:
            del cls.check_schema
        else:
            cls.check_schema = o


# ---------------------------------------------------------------- guarded call
def _cpu_alarm(signum, frame):
    raise Hang()


class WallTimeout(BaseException):
    """wall-clock watchdog: infrastructure only (exit 2), never a verdict about the code."""


def _wall_alarm(signum, frame):
    raise WallTimeout()


CPU_LIMIT_MIN = 5.0          # seconds of CPU time
CPU_LIMIT_FACTOR = 200       # x the CPU time of parsing the largest bundled definition
WALL_GUARD_MIN = 300.0       # seconds of wall time; only an infrastructure guard


def cpu_now():
    import time
    return time.process_time()


def calibrate(texts):
    """Hang detection is load independent: it counts the *CPU time of this process* (ITIMER_PROF /
    process_time), and the limit is calibrated in this very process against a fixed reference workload:
    limit = max(5 s CPU, 200 x CPU time of validating the largest bundled definition that parses)."""
    st = _state
    if 'cpu_limit' in st:
        return st['cpu_limit']
    sp = st['sp']
    ref = 0.0
    ref_name = None
    cands = sorted(texts, key=lambda p: -len(p[1]))[:4]
    for name, text in cands:
        best = None
        for _ in range(2):
            t0 = cpu_now()
            try:
                sp.get_workflow_list_spec_from_yaml(text, validate=True)
            except Exception:
                try:
                    sp.get_workbook_spec_from_yaml(text, validate=True)
                except Exception:
                    pass
            dt = cpu_now() - t0
            best = dt if best is None else min(best, dt)
        if best > ref:
            ref, ref_name = best, name
    if ref_name is None:
        # no bundled definitions at hand (replay): a fixed synthetic reference
        text = "version: '2.0'\nwf:\n  tasks:\n" + ''.join(
            '    t%d:\n      action: std.echo output=<%% $.x %%>\n      on-success: [t%d]\n' % (i, i + 1)
            for i in range(60)) + '    t60: {action: std.noop}\n'
        t0 = cpu_now()
        sp.get_workflow_list_spec_from_yaml(text, validate=True)
        ref, ref_name = cpu_now() - t0, '<synthetic 61-task workflow>'
    st['cpu_ref'] = ref
    st['cpu_ref_name'] = ref_name
    st['cpu_limit'] = max(CPU_LIMIT_MIN, CPU_LIMIT_FACTOR * ref)
    st['wall_guard'] = max(WALL_GUARD_MIN, 20 * st['cpu_limit'])
    return st['cpu_limit']


def site_of(tb, pkg_dir):
    """Innermost frame inside the mistral package: (relpath:function, source line text)."""
    best = None
    for fs in traceback.extract_tb(tb):
        fn = os.path.abspath(fs.filename)
        if fn.startswith(pkg_dir + os.sep) and '/tests/' not in fn:
            best = ('mistral/' + os.path.relpath(fn, pkg_dir) + ':' + fs.name, (fs.line or '').strip())
    last = traceback.extract_tb(tb)[-1]
    lib = os.path.basename(os.path.dirname(last.filename)) + '/' + os.path.basename(last.filename) + ':' + last.name
    return best or (lib, ''), lib


def guarded(fn, factor=1.0):
    """-> (kind, detail, value); kind in ok | declared | undeclared | hang.
    `hang` = the call used more than factor x cpu_limit seconds of *CPU time* (see calibrate); the wall-clock
    watchdog (>= 300 s) raises WallTimeout (a BaseException), which props/C14.py turns into an infrastructure
    error (exit 2), never a VIOLATION."""
    st = _state
    exc = st['exc']
    limit = st.get('cpu_limit', CPU_LIMIT_MIN) * factor
    wall = st.get('wall_guard', WALL_GUARD_MIN) * max(1.0, factor)
    old_prof = signal.signal(signal.SIGPROF, _cpu_alarm)
    old = signal.signal(signal.SIGALRM, _wall_alarm)
    t0 = cpu_now()
    signal.setitimer(signal.ITIMER_REAL, wall)
    signal.setitimer(signal.ITIMER_PROF, limit)
    try:
        try:
            v = fn()
            signal.setitimer(signal.ITIMER_PROF, 0)
            return 'ok', None, v
        finally:
            signal.setitimer(signal.ITIMER_PROF, 0)
            signal.setitimer(signal.ITIMER_REAL, 0)
            used = cpu_now() - t0
            st['last_cpu'] = used
            if used < 0.98 * limit:
                st['max_fraction_of_limit'] = max(st.get('max_fraction_of_limit', 0.0), used / limit)
    except Hang as e:
        (site, line), lib = site_of(e.__traceback__, st['pkg_dir'])
        return 'hang', {'limit_s': round(limit, 1), 'site': site, 'line': line, 'lib': lib, 'exc': 'hang', 'msg': ''}, None
    except exc.MistralFailuresBase as e:
        code = getattr(e, 'http_code', 500)
        name = type(e).__name__
        if isinstance(code, int) and 400 <= code < 500:
            return 'declared', {'cls': name, 'code': code, 'msg': str(e)[:160]}, None
        (site, line), lib = site_of(e.__traceback__, st['pkg_dir'])
        return 'undeclared', {'exc': name, 'site': site, 'line': line, 'lib': lib, 'code': code,
                              'msg': str(e)[:200]}, None
    except RecursionError as e:
        (site, line), lib = site_of(e.__traceback__, st['pkg_dir'])
        return 'undeclared', {'exc': 'RecursionError', 'site': site, 'line': line, 'lib': lib,
                              'msg': str(e)[:200]}, None
    except Exception as e:
        (site, line), lib = site_of(e.__traceback__, st['pkg_dir'])
        return 'undeclared', {'exc': type(e).__name__, 'site': site, 'line': line, 'lib': lib,
                              'msg': str(e)[:200]}, None
    finally:
        signal.signal(signal.SIGALRM, old)
        signal.signal(signal.SIGPROF, old_prof)
        _rollback_if_open()


def _rollback_if_open():
    """After a Hang/undeclared exception inside a transaction make sure no session is left open."""
    try:
        from mistral.db.sqlalchemy import base as sa_base
        if sa_base._get_thread_local_session() is not None:
            try:
                sa_base.rollback_tx()
            finally:
                sa_base.end_tx()
    except Exception:
        pass


def clean_db():
    db_api = _state['db_api']
    with db_api.transaction():
        db_api.delete_workbooks()
        db_api.delete_workflow_definitions()
        db_api.delete_action_definitions()


# ---------------------------------------------------------------- observation of a spec object
MAX_GRAPH = 80


def publish_obs(x):
    """What the engine reads through TaskSpec.get_publish(state) (which merges in place, DESIGN 9-H)."""
    lb = _state['lang_base']
    out = {}
    if isinstance(x, lb.BaseSpec) and hasattr(x, 'get_tasks') and x.get_tasks() is not None:
        for t in x.get_tasks():
            if hasattr(t, 'get_publish'):
                out[_key(t.get_name())] = {s: observe(t.get_publish(s)) for s in ('SUCCESS', 'ERROR', 'SKIPPED')}
    if isinstance(x, lb.BaseSpec) and hasattr(x, 'get_workflows') and x.get_workflows() is not None \
            and not isinstance(x, lb.BaseListSpec):
        for w in x.get_workflows():
            out['wf:' + _key(w.get_name())] = publish_obs(w)
    return out


_SKIP_GETTERS = {'get_schema', 'get_version'}


def _key(k):
    return k if isinstance(k, str) else '<%s>%r' % (type(k).__name__, k)


def observe(x, depth=0):
    """Structural, class-independent observation of a specification object through its public
    getters (every zero-argument get_* method, recursively), so that a getter added later is
    covered automatically."""
    lb = _state['lang_base']
    if depth > 40:
        return '<deep>'
    if isinstance(x, lb.BaseSpecList):
        return {'__speclist__': {_key(k): observe(x[k], depth + 1) for k in x.item_keys()}}
    if isinstance(x, lb.BaseSpec):
        out = {'__class__': type(x).__name__}
        for name in sorted(dir(x)):
            if not name.startswith('get_') or name in _SKIP_GETTERS:
                continue
            m = getattr(x, name)
            try:
                params = [p for p in inspect.signature(m).parameters.values()
                          if p.default is inspect.Parameter.empty and
                          p.kind in (p.POSITIONAL_ONLY, p.POSITIONAL_OR_KEYWORD)]
            except (TypeError, ValueError):
                continue
            if params:
                continue          # get_publish(state) mutates the spec: see publish_obs
            out[name] = observe(m(), depth + 1)
        if hasattr(x, 'find_start_tasks') and len(x.get_tasks()) <= MAX_GRAPH:
            out['find_start_tasks'] = sorted(_key(t.get_name()) for t in x.find_start_tasks())
            g = {}
            for t in x.get_tasks():
                n = t.get_name()
                g[_key(n)] = {
                    'out': sorted(_key(s) for s in x.find_outbound_task_names(n)),
                    'in': sorted(_key(s.get_name()) for s in x.find_inbound_task_specs(t)),
                    'on-success': observe(x.get_on_success_clause(n), depth + 1),
                    'on-error': observe(x.get_on_error_clause(n), depth + 1),
                    'on-complete': observe(x.get_on_complete_clause(n), depth + 1),
                    'on-skip': observe(x.get_on_skip_clause(n), depth + 1),
                }
            out['graph'] = g
        if hasattr(x, 'get_task_requires'):
            out['requires'] = {_key(t.get_name()): sorted(_key(r) for r in x.get_task_requires(t))
                               for t in x.get_tasks()}
        return out
    if isinstance(x, dict):
        return {_key(k): observe(v, depth + 1) for k, v in x.items()}
    if isinstance(x, (list, tuple)):
        return [observe(v, depth + 1) for v in x]
    if x is None or isinstance(x, (bool, int, str)):
        return x
    if isinstance(x, float):
        return repr(x)
    if isinstance(x, type):
        return '<class %s>' % x.__name__
    return '<%s>%s' % (type(x).__name__, x)


def first_diff(a, b, path=''):
    if type(a) is not type(b):
        return path, a, b
    if isinstance(a, dict):
        # non-string mapping keys (observed as '<type>repr') first: they are what a JSON round trip changes
        for k in sorted(set(a) | set(b), key=lambda k: (not k.startswith('<'), k)):
            if k not in a or k not in b:
                return path + '/' + k, a.get(k, '<absent>'), b.get(k, '<absent>')
            d = first_diff(a[k], b[k], path + '/' + k)
            if d:
                return d
        return None
    if isinstance(a, list):
        if len(a) != len(b):
            return path + '/#len', len(a), len(b)
        for i, (x, y) in enumerate(zip(a, b)):
            d = first_diff(x, y, '%s/%d' % (path, i))
            if d:
                return d
        return None
    return None if a == b else (path, a, b)


def dcopy(x):
    return copy.deepcopy(x)


def hot_site(fn, interval):
    """Run fn() while sampling (on CPU time) the innermost frame inside the mistral package; returns the most
    frequent (site, source line) and the CPU time used."""
    import collections
    import linecache
    st = _state
    pkg = st['pkg_dir'] + os.sep
    counts = collections.Counter()

    def tick(signum, frame):
        f = frame
        while f is not None:
            fn_ = os.path.abspath(f.f_code.co_filename)
            if fn_.startswith(pkg) and '/tests/' not in fn_:
                counts[('mistral/' + os.path.relpath(fn_, st['pkg_dir']) + ':' + f.f_code.co_name,
                        linecache.getline(fn_, f.f_lineno).strip())] += 1
                return
            f = f.f_back
    old = signal.signal(signal.SIGPROF, tick)
    old_alarm = signal.signal(signal.SIGALRM, _wall_alarm)
    signal.setitimer(signal.ITIMER_REAL, st.get('wall_guard', WALL_GUARD_MIN))
    signal.setitimer(signal.ITIMER_PROF, interval, interval)
    t0 = cpu_now()
    try:
        try:
            fn()
        except Exception:
            pass
    finally:
        signal.setitimer(signal.ITIMER_PROF, 0)
        signal.setitimer(signal.ITIMER_REAL, 0)
        signal.signal(signal.SIGPROF, old)
        signal.signal(signal.SIGALRM, old_alarm)
        _rollback_if_open()
    used = cpu_now() - t0
    return (counts.most_common(1)[0][0] if counts else ('<no sample>', '')), used
