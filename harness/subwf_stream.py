"""Streams of property C09 (a sub-workflow and its parent task stay consistent).

  * `resolve`  (function level, high volume): the REAL engine_utils.resolve_workflow_definition with a
    recording fake db_api, vs Mistral.SubWf.resolve, on generated names over a small alphabet (so that
    the character-set behaviour of str.rstrip is hit all the time).
  * `schedule` (function level, high volume): the REAL WorkflowAction.schedule (its collaborators
    stubbed, the real EngineClient.start_workflow signature kept) vs Mistral.SubWf (baseParams /
    splitInput / rpc keyword clash), on generated parents, declared-input lists and inputs.
  * `tree`     (engine level): generated root / middle / leaf definitions (nesting <= 3) run on the REAL
    engine under a chosen schedule; every child row is compared with the model's prediction
    (resolve + schedule + parentTask) and the MONITOR reads the property statement on the final rows.
"""
import copy
import json
import random

from harness import engine_run as er

FINAL = ('SUCCESS', 'ERROR', 'CANCELLED')
STREAM_R, STREAM_S, STREAM_T = 'resolve', 'schedule', 'tree'

# undeclared input keys that collide with a parameter the engine itself sets or reads
RESERVED = {
    'namespace': 'zz',
    'root_execution_id': None,
    'task_execution_id': None,
    'index': 7,
    'description': 'd',
}
SHADOW_KIND = 'undeclared-input-shadows-reserved-param'      # fixed by /repo f99833f3 (kept as a regression)
RPC_KIND = 'undeclared-input-clashes-with-rpc-start-keyword'  # still open
LINK_KEYS = ('root_execution_id', 'task_execution_id', 'index', 'namespace')
RSTRIP_SIG = {'kind': 'rstrip-charset-workbook-name', 'requires': 'definition validation skipped'}
RPC_KEYWORDS = ('wf_identifier', 'wf_namespace', 'wf_ex_id', 'wf_input', 'description', 'async_')


def norm(x):
    return json.loads(json.dumps(x, sort_keys=True, default=str))


def _first(ctx, sig):
    """each finding signature is reported once per chunk (the worker keeps only 20 violations, and a
    known finding hit many times must not crowd out a new one)"""
    seen = ctx.__dict__.setdefault('_c09_reported', set())
    k = json.dumps(sig, sort_keys=True)
    if k in seen:
        return False
    seen.add(k)
    return True


# ======================================================================================= resolve
ALPHA = 'abw1._'


def rname(rng, lo=1, hi=4, dots=True):
    n = rng.randint(lo, hi)
    al = ALPHA if dots else ALPHA.replace('.', '')
    return ''.join(rng.choice(al) for _ in range(n))


class _Def(object):
    def __init__(self, name, namespace):
        self.name = name
        self.namespace = namespace
        self.id = 'def:%s:%s' % (name, namespace)
        self.updated_at = None


class FakeDbApi(object):
    """load_workflow_definition with the semantics of the SQL (name match, namespace in [ns, ''],
    non-default namespace first); records the names looked up.  The SQL itself is exercised by the
    `tree` stream."""

    def __init__(self, defs):
        self.defs = set(defs)
        self.lookups = []

    def load_workflow_definition(self, name, namespace='', fields=()):
        self.lookups.append(name)
        if (name, namespace) in self.defs:
            return _Def(name, namespace)
        if (name, '') in self.defs:
            return _Def(name, '')
        return None


def gen_resolve_case(rng):
    dotted = rng.random() < 0.3
    spec = rname(rng, 1, 4, dots=dotted)
    r = rng.random()
    if r < 0.7:
        wb = rname(rng, 1, 4, dots=rng.random() < 0.3)
        parent = wb + '.' + spec
    elif r < 0.9:
        wb = None
        parent = spec
    else:
        wb = None
        parent = rname(rng, 1, 6)
    child = rname(rng, 1, 3, dots=rng.random() < 0.3)
    ns = rng.choice(['', 'ns1'])
    pool = {child, rname(rng, 1, 3)}
    if wb is not None:
        pool.add(wb + '.' + child)
        pool.add('.' + child)
        pool.add(wb[:-1] + '.' + child)
    defs = []
    for nm in sorted(pool):
        for dns in ('', 'ns1', 'ns2'):
            if rng.random() < 0.4:
                defs.append([nm, dns])
    return {'parent': parent, 'spec': spec, 'wb': wb, 'child': child, 'ns': ns, 'defs': defs}


def real_resolve(c):
    from mistral.engine import utils as engine_utils
    from mistral import exceptions as exc
    fake = FakeDbApi([tuple(d) for d in c['defs']])
    orig = engine_utils.db_api
    engine_utils.db_api = fake
    try:
        try:
            d = engine_utils.resolve_workflow_definition(c['parent'], c['spec'], c['ns'], c['child'])
            found = [d.name, d.namespace]
        except exc.WorkflowException:
            found = None
    finally:
        engine_utils.db_api = orig
    return {'lookups': fake.lookups, 'found': found}


def check_resolve(ctx, c, corpus=False):
    drv = ctx.driver()
    mo = drv.call('subwf.resolve', {k: c[k] for k in ('defs', 'parent', 'spec', 'ns', 'child')})
    io = real_resolve(c)
    # the model lists all candidates, the code stops at the first one found
    m_lookups = []
    dset = {tuple(d) for d in c['defs']}
    for cand in mo['candidates']:
        m_lookups.append(cand)
        if (cand, c['ns']) in dset or (cand, '') in dset:
            break
    model = {'lookups': m_lookups, 'found': mo['found']}
    in_wb = c['wb'] is not None
    ctx.evaluated(STREAM_R, c, nontrivial=in_wb)
    ctx.count(STREAM_R, 'in-workbook' if in_wb else 'standalone')
    ctx.count(STREAM_R, 'found' if io['found'] else 'not-found')
    if norm(model) != norm(io):
        ctx.disagree(STREAM_R, c, model, io)
    # MONITOR: a workflow of workbook `wb` that names a child resolves to `wb.child` when that
    # exists (in the caller's namespace, else the default one), otherwise to the global `child`
    if in_wb:
        exp = None
        for nm in (c['wb'] + '.' + c['child'], c['child']):
            for dns in ([c['ns'], ''] if c['ns'] else ['']):
                if (nm, dns) in dset and exp is None:
                    exp = [nm, dns]
        if exp != io['found']:
            dotted = '.' in c['spec']
            ctx.count(STREAM_R, 'wrong:' + ('dotted-spec-name' if dotted else 'OTHER'))
            sig = dict(RSTRIP_SIG) if dotted else {'kind': 'workbook-relative-resolution-wrong'}
            if _first(ctx, sig):
                ctx.violation('resolve_workflow_definition(%r, %r, ns=%r, %r) found %r, the workbook-relative '
                              'rule prescribes %r' % (c['parent'], c['spec'], c['ns'], c['child'], io['found'], exp),
                              {'kind': 'resolve', 'case': c, 'expected': exp, 'got': io}, sig)
    return model, io


# ======================================================================================= schedule
KEYS = ['x', 'y', 'extra', 'foo', 'env', 'task_name', 'notify', 'evaluate_env']
VALS = [0, 1, 'a', None, True, [1, 2], {'k': 'childenv'}, {}]


class _Obj(object):
    def __init__(self, **kw):
        self.__dict__.update(kw)


def gen_schedule_case(rng):
    pparams = {}
    if rng.random() < 0.97:
        pparams['namespace'] = rng.choice(['', 'ns1'])
    if rng.random() < 0.3:
        pparams['notify'] = [{'type': 'noop'}]
    if rng.random() < 0.5:
        pparams['env'] = {'k': 'rootenv'}
    declared = [k for k in KEYS if rng.random() < 0.3]
    inp = {}
    for k in KEYS:
        if rng.random() < 0.35:
            inp[k] = copy.deepcopy(rng.choice(VALS))
    if rng.random() < 0.35:
        k = rng.choice(sorted(RESERVED) + list(RPC_KEYWORDS))
        inp[k] = RESERVED.get(k, 'v')
        if rng.random() < 0.2:
            declared.append(k)
    return {'parentParams': pparams, 'parentRoot': rng.choice([None, None, '', 'ROOT-1']),
            'parentId': 'PARENT-1', 'taskId': 'TASK-1', 'index': rng.randint(0, 3),
            'declared': declared, 'input': inp, 'viaRpc': rng.random() < 0.5}


def real_schedule(c):
    """WorkflowAction.schedule with its collaborators stubbed; returns what reaches start_workflow."""
    from unittest import mock
    from oslo_config import cfg
    from mistral.engine import actions
    from mistral import exceptions as exc
    from mistral.rpc import clients as rpc_clients
    # state: WorkflowAction.schedule refuses a completed parent execution (repo patch 16)
    parent = _Obj(id=c['parentId'], root_execution_id=c['parentRoot'], workflow_name='parent', state='RUNNING',
                  params=copy.deepcopy(c['parentParams']))
    task_ex = _Obj(id=c['taskId'], workflow_execution=parent)
    pspec = _Obj(get_name=lambda: 'parent')
    cspec = _Obj(get_input=lambda: {k: None for k in c['declared']})
    wf_def = _Def('child', 'defns')
    rec = {}

    def start_inproc(wf_identifier, wf_namespace, wf_ex_id, wf_input, desc, params):
        rec['args'] = [wf_identifier, wf_namespace, wf_ex_id, desc]
        rec['input'] = copy.deepcopy(wf_input)
        rec['params'] = copy.deepcopy(params)

    class _Client(object):
        def async_call(self, ctx, method, **kw):
            rec['args'] = [kw['wf_identifier'], kw['wf_namespace'], kw['wf_ex_id'], kw['description']]
            rec['input'] = copy.deepcopy(kw['wf_input'])
            rec['params'] = copy.deepcopy(kw['params'])
            rec['method'] = method

        sync_call = async_call

    client = rpc_clients.EngineClient.__new__(rpc_clients.EngineClient)
    client._client = _Client()

    def register(op, in_tx=False):
        op()

    cfg.CONF.set_override('start_subworkflows_via_rpc', bool(c['viaRpc']), group='engine')
    try:
        with mock.patch.object(actions.spec_parser, 'get_workflow_spec_by_execution_id', lambda i: pspec), \
                mock.patch.object(actions.engine_utils, 'resolve_workflow_definition', lambda *a, **k: wf_def), \
                mock.patch.object(actions.spec_parser, 'get_workflow_spec_by_definition_id', lambda i, u: cspec), \
                mock.patch.object(actions.wf_handler, 'start_workflow', start_inproc), \
                mock.patch.object(actions.rpc, 'get_engine_client', lambda: client), \
                mock.patch.object(actions.post_tx_queue, 'register_operation', register), \
                mock.patch.object(rpc_clients.auth_ctx, 'ctx', lambda: None):
            act = actions.WorkflowAction(wf_name='child', task_ex=task_ex)
            try:
                act.schedule(copy.deepcopy(c['input']), None, index=c['index'])
            except KeyError:
                return {'err': 'KeyError'}
            except TypeError:
                return {'err': 'TypeError'}
            except exc.InputException:
                # an undeclared input key named like a parameter linking the child to its parent
                return {'err': 'InputException'}
            except exc.MistralException as e:
                # rpc/base.py wrap_messaging_exception turns the TypeError of the keyword clash into this
                if str(e).startswith('TypeError'):
                    return {'err': 'TypeError'}
                raise
    finally:
        cfg.CONF.clear_override('start_subworkflows_via_rpc', group='engine')
    if rec.get('args') != ['def:child:defns', 'defns', None, 'sub-workflow execution']:
        return {'err': 'bad positional args %r' % (rec.get('args'),)}
    return {'input': rec['input'], 'params': rec['params']}


def check_schedule(ctx, c):
    drv = ctx.driver()
    mo = drv.call('subwf.scheduleArgs', {k: c[k] for k in (
        'parentParams', 'parentRoot', 'parentId', 'taskId', 'index', 'declared', 'input', 'viaRpc')})
    io = real_schedule(c)
    und = [k for k in c['input'] if k not in c['declared']]
    ctx.evaluated(STREAM_S, c, nontrivial=bool(und))
    ctx.count(STREAM_S, 'undeclared:%d' % min(len(und), 3))
    ctx.count(STREAM_S, 'rpc' if c['viaRpc'] else 'inproc')
    if 'err' in io:
        ctx.count(STREAM_S, 'err:' + io['err'][:12])
    if norm(mo) != norm(io):
        ctx.disagree(STREAM_S, c, mo, io)
    # MONITOR (statement on the call that leaves WorkflowAction.schedule)
    shadow = sorted(k for k in und if k in ('root_execution_id', 'task_execution_id', 'index', 'namespace')
                    or (c['viaRpc'] and k in RPC_KEYWORDS))
    if 'namespace' not in c['parentParams']:
        return
    hits = []
    if io.get('err') == 'InputException' and any(k in LINK_KEYS for k in und):
        # refused with the declared error: the task fails, nothing is started and nothing silently dropped
        ctx.count(STREAM_S, 'refused-link-key')
    elif 'err' in io:
        hits.append(('call-failed', io['err']))
    else:
        for k, v in c['input'].items():
            if k in c['declared']:
                if k not in io['input'] or norm(io['input'][k]) != norm(v):
                    hits.append(('declared-input-lost', k))
            elif k not in io['params'] or norm(io['params'][k]) != norm(v) or k in io['input']:
                hits.append(('undeclared-input-dropped', k))
        exp_root = c['parentRoot'] or c['parentId']
        if io['params'].get('root_execution_id') != exp_root:
            hits.append(('root', io['params'].get('root_execution_id')))
        if io['params'].get('namespace') != c['parentParams']['namespace']:
            hits.append(('namespace', io['params'].get('namespace')))
        if io['params'].get('task_execution_id') != c['taskId']:
            hits.append(('task-link', io['params'].get('task_execution_id')))
        if io['params'].get('index') != c['index']:
            hits.append(('index', io['params'].get('index')))
    cause = {'root': ['root_execution_id'], 'namespace': ['namespace'], 'task-link': ['task_execution_id'],
             'index': ['index'], 'call-failed': [k for k in und if c['viaRpc'] and k in RPC_KEYWORDS]}
    for kind, what in hits:
        keys = [k for k in cause.get(kind, []) if k in shadow]
        if keys:
            for k in keys:
                sig = {'kind': RPC_KIND if kind == 'call-failed' else SHADOW_KIND, 'key': k}
                ctx.count(STREAM_S, 'shadow:' + k)
                if not _first(ctx, sig):
                    continue
                ctx.violation('undeclared input key %r collides with the engine\'s own parameter of the same name '
                              '(WorkflowAction.schedule): %s %r' % (k, kind, what),
                              {'kind': 'schedule', 'case': c, 'got': io}, sig)
        else:
            ctx.violation('WorkflowAction.schedule: %s %r' % (kind, what),
                          {'kind': 'schedule', 'case': c, 'got': io}, {'kind': 'schedule-' + kind})


# ======================================================================================= tree: generator
ROOT_NAMES = ['r', 'main', 'wf_a']
MID_NAMES = ['m', 'mid', 'a_wf']
LEAF_NAMES = ['l', 'leaf', 'f_a']
WB_NAMES = ['wb', 'r', 'niam', 'bw_a', 'leaf', 'l']
EXTRA_POOL = [('extra', 5), ('foo', 'bar'), ('env', {'k': 'childenv'}), ('opts', {'a': [1, 2]}), ('task_name', 'c2')]


def gen_tree_case(rng, p_reserved=0.06, p_dotted=0.03, p_stop=0.2):
    depth = rng.choice([2, 2, 3, 3, 3])
    names = [rng.choice(ROOT_NAMES)] + ([rng.choice(MID_NAMES)] if depth == 3 else []) + [rng.choice(LEAF_NAMES)]
    pack = rng.choice(['flat', 'flat', 'wb', 'wb', 'mixed'])
    case = {'depth': depth, 'names': names, 'pack': pack, 'wb': rng.choice(WB_NAMES),
            'ns': rng.choice(['', '', 'ns1']), 'leaf_ns': rng.choice(['same', 'same', 'default', 'both']),
            'decoy': rng.random() < 0.5, 'skip_validation': False,
            'rpc': rng.random() < 0.5, 'env': rng.choice([None, {'k': 'rootenv'}, {'k': 'rootenv', 'z': 1}]),
            'policy': rng.choice(['random', 'random', 'fifo', 'lifo']), 'seed': rng.getrandbits(32),
            'dup': rng.choice([0.0, 0.3, 0.6]), 'ops': [], 'calls': [], 'oracle': {}}
    if pack != 'flat' and rng.random() < p_dotted:
        # only accepted when definition validation is skipped (api.validation_mode != mandatory)
        case['skip_validation'] = True
        i = rng.randrange(depth - 1)
        case['names'][i] = rng.choice(['a.b', 'x.w', 'm.l', 'b.wb'])
    for lvl in range(depth - 1):
        kind = rng.choice(['plain', 'plain', 'items'])
        items = rng.sample(['i0', 'i1', 'i2', 'i3'], rng.randint(1, 3)) if kind == 'items' else None
        call = {'kind': kind, 'items': items,
                'concurrency': rng.choice([None, None, 1, 2]) if kind == 'items' else None,
                'ref': rng.choice(['short', 'short', 'full', 'expr']),
                'x': ['item'] if kind == 'items' else ['lit', rng.choice(['vx', 1, {'d': 1}])],
                'pass_y': rng.random() < 0.4, 'on_error': rng.random() < 0.5, 'extra': {}}
        for k, v in EXTRA_POOL:
            if rng.random() < 0.3:
                call['extra'][k] = copy.deepcopy(v)
        case['calls'].append(call)
    if rng.random() < p_reserved:
        k = rng.choice(sorted(RESERVED))
        rng.choice(case['calls'])['extra'][k] = RESERVED[k]
    for k in range(8):
        r = rng.random()
        if r < 0.18:
            case['oracle']['c1:%d' % k] = ['error']
        elif r < 0.28:
            case['oracle']['c1:%d' % k] = ['cancel']
    # a second engine process completing the same child first, just before this one's CAS (see _Race)
    case['race'] = rng.choice([0, 0, 0, 1, 2, 5])
    if rng.random() < p_stop:
        case['ops'].append({'at': rng.randint(2, 25), 'op': 'stop_child', 'which': rng.randint(0, 3)})
    return case


def _full(case, lvl):
    """the name under which the definition of level `lvl` is stored"""
    nm = case['names'][lvl]
    leaf = lvl == case['depth'] - 1
    if case['pack'] == 'wb' or (case['pack'] == 'mixed' and not leaf):
        return case['wb'] + '.' + nm
    return nm


def call_input(case, lvl, item=None):
    """the evaluated `input` of the sub-workflow task of level `lvl` (for with-items: of one item)"""
    call = case['calls'][lvl]
    d = {'x': item if call['x'][0] == 'item' else call['x'][1]}
    if call['pass_y']:
        d['y'] = 'py'
    d.update(copy.deepcopy(call['extra']))
    return d


def declared_of(case, lvl):
    """declared inputs (name -> default or REQUIRED) of the definition of level `lvl`"""
    d = {'x': '<required>', 'y': 'dy'}
    if lvl < case['depth'] - 1 and case['calls'][lvl]['ref'] == 'expr':
        d['wfname'] = child_ref(case, lvl, literal=True)
    return d


def child_ref(case, lvl, literal=False):
    call = case['calls'][lvl]
    child = case['names'][lvl + 1]
    if call['ref'] == 'full' or (call['ref'] == 'expr' and call.get('expr_full')):
        return _full(case, lvl + 1)
    return child


def wf_dict(case, lvl, marker):
    depth = case['depth']
    if lvl == depth - 1:
        return {'type': 'direct', 'input': ['x', {'y': 'dy'}],
                'output': {'o': '<% $.x %>', 'y': '<% $.y %>', 'e': "<% env().get('k') %>", 'who': marker},
                'tasks': {'c1': {'action': 'std.echo', 'input': {'output': '<% $.x %>'}, 'on-success': ['c2']},
                          'c2': {'action': 'std.noop'}}}
    call = case['calls'][lvl]
    inp = ['x', {'y': 'dy'}]
    ref = child_ref(case, lvl)
    if call['ref'] == 'expr':
        inp.append({'wfname': ref})
        ref = '<% $.wfname %>'
    tin = {'x': '<% $.i %>' if call['x'][0] == 'item' else call['x'][1]}
    if call['pass_y']:
        tin['y'] = 'py'
    tin.update(copy.deepcopy(call['extra']))
    t1 = {'workflow': ref, 'input': tin, 'publish': {'sub': '<% task().result %>'}, 'on-success': ['t2']}
    if call['kind'] == 'items':
        t1['with-items'] = 'i in <% [' + ', '.join("'%s'" % i for i in call['items']) + '] %>'
        if call['concurrency']:
            t1['concurrency'] = call['concurrency']
    tasks = {'t1': t1, 't2': {'action': 'std.noop'}}
    if call['on_error']:
        t1['on-error'] = ['te']
        tasks['te'] = {'action': 'std.noop'}
    return {'type': 'direct', 'input': inp,
            'output': {'sub': "<% $.get('sub') %>", 'e': "<% env().get('k') %>", 'who': marker},
            'tasks': tasks}


def build_defs(case):
    """list of ('workflows'|'workbook', yaml text, namespace)"""
    import yaml
    depth = case['depth']
    ns = case['ns']
    out = []
    leaf = depth - 1

    def dump(d):
        return yaml.safe_dump(d, sort_keys=False, default_flow_style=False)

    if case['pack'] in ('wb', 'mixed'):
        lv = range(depth) if case['pack'] == 'wb' else range(depth - 1)
        wb = {'version': '2.0', 'name': case['wb'],
              'workflows': {case['names'][i]: wf_dict(case, i, 'wb:' + case['names'][i]) for i in lv}}
        out.append(('workbook', dump(wb), ns))
    if case['pack'] == 'flat':
        for i in range(depth - 1):
            out.append(('workflows', dump({'version': '2.0', case['names'][i]: wf_dict(case, i, 'global')}), ns))
    if case['pack'] in ('flat', 'mixed') or case['decoy']:
        # the global leaf (for pack 'wb' it is only a decoy that must NOT be chosen by a short name)
        where = [ns]
        if ns and case['leaf_ns'] == 'default':
            where = ['']
        elif ns and case['leaf_ns'] == 'both':
            where = [ns, '']
        for w in where:
            out.append(('workflows', dump({'version': '2.0',
                                           case['names'][leaf]: wf_dict(case, leaf, 'global:' + (w or 'default'))}), w))
    return out


# ======================================================================================= tree: run
_SCHEMA_OK = {}


def _fast_schema_validation():
    """Local speed-up (no shared file touched): `jsonschema.validate` re-validates the (constant) spec
    SCHEMA against the meta-schema on every call, ~0.15 s per spec object, which dominated a run.
    The wrapper meta-validates each schema object once and still validates every INSTANCE."""
    import jsonschema
    from mistral.lang import base as lang_base
    if getattr(lang_base.jsonschema, '_verif_fast', False):
        return

    class _JS(object):
        _verif_fast = True
        ValidationError = jsonschema.ValidationError

        def __getattr__(self, name):
            return getattr(jsonschema, name)

        @staticmethod
        def validate(instance, schema, *args, **kwargs):
            cls = jsonschema.validators.validator_for(schema)
            if id(schema) not in _SCHEMA_OK:
                cls.check_schema(schema)
                _SCHEMA_OK[id(schema)] = schema
            err = jsonschema.exceptions.best_match(cls(schema, *args, **kwargs).iter_errors(instance))
            if err is not None:
                raise err

    lang_base.jsonschema = _JS()


class _Race(object):
    """Simulates the only interleaving of two engine processes the serial harness cannot produce by
    reordering deliveries: process B is about to run the compare-and-swap of `Workflow.set_state`
    (RUNNING -> final) for a CHILD execution when process A, handling the same completion check, commits
    first.  At B's CAS the whole `wf_handler.check_and_complete` of A runs (nested, same database), then
    B's CAS executes and must lose.  With a correct guard exactly one result message is registered."""

    def __init__(self, n):
        from mistral.db.v2 import api as db_api
        self.db_api = db_api
        self.armed = n
        self.depth = 0
        self.fired = 0
        self.orig = db_api.update_workflow_execution_state

    def __enter__(self):
        if self.armed:
            self.db_api.update_workflow_execution_state = self._cas
        return self

    def __exit__(self, *a):
        self.db_api.update_workflow_execution_state = self.orig

    def _cas(self, id, cur_state, state):
        from mistral.engine import workflow_handler as wf_handler
        if self.armed and self.depth == 0 and cur_state == 'RUNNING' and state in FINAL:
            wf_ex = self.db_api.load_workflow_execution(id)
            if wf_ex is not None and wf_ex.task_execution_id:
                self.armed -= 1
                self.depth = 1
                self.fired += 1
                # process A has its own database session; here both share one, so A's `expire_all()`
                # (re-read what parallel transactions committed) would expire B's objects and leave them
                # unloadable after the commit: a no-op for A, everything in the shared session is current
                expire_all = self.db_api.expire_all
                self.db_api.expire_all = lambda: None
                try:
                    wf_handler.check_and_complete(id)
                finally:
                    self.db_api.expire_all = expire_all
                    self.depth = 0
        return self.orig(id=id, cur_state=cur_state, state=state)


def start_in_ns(world, name, ns, wf_input, params):
    world.log.append(['start_workflow', name, ns, wf_input, params])
    r = world._call('start_workflow', world.engine.start_workflow, name, ns, None, dict(wf_input), '', **params)
    return r.id if r is not None else None


def run_tree(case):
    """returns dict(final, results, sent, stopped, errors, log, exhausted, extras, defs)"""
    from oslo_config import cfg
    from harness.engine_driver import EngineWorld
    from mistral.services import workbooks as wb_service
    from mistral.services import workflows as wf_service
    from mistral.db.v2 import api as db_api
    from mistral.workflow import data_flow
    from mistral import exceptions as exc
    w = EngineWorld(seed=case['seed'])
    _fast_schema_validation()
    rng = random.Random(case['seed'])
    cfg.CONF.set_override('start_subworkflows_via_rpc', bool(case['rpc']), group='engine')
    if case.get('skip_validation'):
        cfg.CONF.set_override('validation_mode', 'enabled', group='api')
    out = {'rejected': None}
    try:
        try:
            for kind, text, ns in build_defs(case):
                if kind == 'workbook':
                    wb_service.create_workbook_v2(text, namespace=ns, validate=not case.get('skip_validation'))
                else:
                    wf_service.create_workflows(text, namespace=ns, validate=not case.get('skip_validation'))
        except exc.MistralException as e:
            out['rejected'] = type(e).__name__ + ': ' + str(e)[:200]
            return out
        with db_api.transaction(read_only=True):
            out['defs'] = sorted([d.name, d.namespace] for d in db_api.get_workflow_definitions())
        params = {}
        if case['env'] is not None:
            params['env'] = copy.deepcopy(case['env'])
        root = start_in_ns(w, _full(case, 0), case['ns'], {'x': 'rx'}, params)
        oracle = er.Oracle(case['oracle'])
        sent = {}          # child execution id -> number of result messages REGISTERED
        seen_seq = set()
        stopped = []
        ops = sorted(case['ops'], key=lambda o: o['at'])
        oi = 0
        step = 0
        dup_budget = 3
        exhausted = True

        def scan():
            for p in w.pending:
                if p.kind == 'rpc' and p.seq not in seen_seq:
                    seen_seq.add(p.seq)
                    if p.data['method'] == 'on_action_complete' and p.data['kwargs'].get('wf_action'):
                        cid = p.data['kwargs']['action_ex_id']
                        sent[cid] = sent.get(cid, 0) + 1

        def do_op(o):
            snap = w.snapshot()
            cands = [x for x in snap['wfs'] if x['state'] == 'RUNNING' and x['parent_task'] is not None]
            if not cands:
                return
            x = cands[o['which'] % len(cands)]
            stopped.append(x['ord'])
            w.op('stop_workflow', x['id'], 'CANCELLED', 'stopped by harness')

        scan()
        race = _Race(case.get('race', 0)).__enter__()
        while step < 800:
            while oi < len(ops) and ops[oi]['at'] <= step:
                do_op(ops[oi])
                scan()
                oi += 1
            en = [e for e in w.enabled()
                  if not (e[0] == 'job' and e[1].func_name.endswith('_check_and_fix_integrity'))]
            if not en:
                und = [j for j in w.undue_jobs() if not j.func_name.endswith('_check_and_fix_integrity')]
                if und:
                    nxt = min(j.execute_at for j in und)
                    w.tick(int((nxt - w.now()).total_seconds()))
                    continue
                if oi < len(ops):
                    do_op(ops[oi])
                    scan()
                    oi += 1
                    continue
                exhausted = False
                break
            it = er.pick(rng, case['policy'], en)
            dup = False
            if (case['dup'] and it[0] == 'p' and it[1].kind == 'rpc' and dup_budget > 0
                    and it[1].data['method'] == 'on_action_complete' and it[1].data['kwargs'].get('wf_action')
                    and rng.random() < case['dup']):
                dup = True
                dup_budget -= 1
            w.deliver(it, oracle=oracle, duplicate=dup)
            scan()
            step += 1
        race.__exit__()
        final = w.snapshot()
        results = {}
        extras = {}
        with db_api.transaction(read_only=True):
            for t in db_api.get_task_executions():
                if t.type == 'WORKFLOW':
                    results[w.id_ord[t.id]] = norm(data_flow.get_task_execution_result(t))
            for x in db_api.get_workflow_executions():
                extras[w.id_ord[x.id]] = {'wf_ns': x.workflow_namespace}
        out.update({'final': final, 'results': results, 'sent': sent, 'stopped': stopped, 'root_id': root,
                    'errors': [{k: e.get(k) for k in ('where', 'declared', 'type', 'msg')} for e in w.errors],
                    'dups': 3 - dup_budget, 'steps': step, 'exhausted': exhausted, 'extras': extras,
                    'races': race.fired})
        return out
    finally:
        from mistral.db.v2 import api as _db
        if getattr(_db.update_workflow_execution_state, '__self__', None) is not None:
            _db.update_workflow_execution_state = _db.update_workflow_execution_state.__self__.orig
        cfg.CONF.clear_override('start_subworkflows_via_rpc', group='engine')
        if case.get('skip_validation'):
            cfg.CONF.clear_override('validation_mode', group='api')


# ======================================================================================= tree: reading the rows
class Tree(object):
    def __init__(self, case, run):
        self.case = case
        self.run = run
        f = run['final']
        self.wfs = {x['ord']: x for x in f['wfs']}
        self.tasks = {t['ord']: t for t in f['tasks']}
        self.by_id = {x['id']: x for x in f['wfs']}
        self.root = None
        for x in f['wfs']:
            if x['id'] == run['root_id']:
                self.root = x
        self.children = {}
        for x in f['wfs']:
            if x['parent_task'] is not None:
                self.children.setdefault(x['parent_task'], []).append(x)
        self.level = {}
        if self.root:
            self._levels(self.root, 0)

    def _levels(self, x, lvl):
        self.level[x['ord']] = lvl
        for t in self.tasks.values():
            if t['wf'] == x['ord']:
                for c in self.children.get(t['ord'], []):
                    if c['ord'] not in self.level:
                        self._levels(c, lvl + 1)

    def stopped_set(self):
        """executions stopped by the operator and all their descendants"""
        s = set(self.run['stopped'])
        changed = True
        while changed:
            changed = False
            for x in self.wfs.values():
                if x['ord'] not in s and x['parent_task'] is not None:
                    t = self.tasks.get(x['parent_task'])
                    if t and t['wf'] in s:
                        s.add(x['ord'])
                        changed = True
        return s

    def item_of(self, lvl, child):
        """which item of the caller's with-items list a child stands for (items are distinct)"""
        call = self.case['calls'][lvl]
        if call['kind'] != 'items':
            return None
        x = (child['input'] or {}).get('x')
        return x if x in call['items'] else None


def monitor(case, run):
    """The property statement read on the final rows.  Returns [(kind, detail dict)]."""
    hits = []
    T = Tree(case, run)
    if T.root is None:
        return [('root-not-started', {'errors': run['errors']})]
    root = T.root
    stopped = T.stopped_set()
    for e in run['errors']:
        if not e['declared']:
            hits.append(('undeclared-error', {'where': e['where'], 'type': e['type'], 'msg': e['msg']}))
    if run['exhausted']:
        hits.append(('not-quiescent', {'steps': run['steps']}))
    root_env = (root['params'] or {}).get('env') or {}
    for x in T.wfs.values():
        if x['ord'] == root['ord']:
            continue
        # "every descendant execution records the same root execution and the caller's namespace"
        if x['parent_task'] is None or x['ord'] not in T.level:
            hits.append(('orphan', {'wf': x['name'], 'ord': x['ord']}))
            continue
        caller = T.wfs[T.tasks[x['parent_task']]['wf']]
        if x['root'] != root['ord']:
            hits.append(('root', {'wf': x['name'], 'root': x['root'], 'expected': root['ord'], 'level': T.level[x['ord']]}))
        if (x['params'] or {}).get('namespace') != (caller['params'] or {}).get('namespace'):
            hits.append(('namespace', {'wf': x['name'], 'ns': (x['params'] or {}).get('namespace'),
                                       'caller_ns': (caller['params'] or {}).get('namespace'), 'level': T.level[x['ord']]}))
        # "evaluates its expressions against the root execution's environment"
        if x['state'] == 'SUCCESS' and isinstance(x['output'], dict) and 'e' in x['output']:
            if x['output']['e'] != root_env.get('k'):
                hits.append(('env', {'wf': x['name'], 'saw': x['output']['e'], 'root_env': root_env, 'level': T.level[x['ord']]}))
        # "the sub-workflow's output": a SUCCESS leaf has the output its definition prescribes
        if x['state'] == 'SUCCESS' and T.level[x['ord']] == case['depth'] - 1:
            out = x['output'] if isinstance(x['output'], dict) else {}
            if norm(out.get('o', '<missing>')) != norm((x['input'] or {}).get('x')) or 'who' not in out:
                hits.append(('child-output', {'wf': x['name'], 'output': x['output'], 'input': x['input']}))
        # "input not declared by the child definition is passed on as execution parameters"
        lvl = T.level[x['ord']] - 1
        item = T.item_of(lvl, x)
        if case['calls'][lvl]['kind'] == 'items' and item is None:
            hits.append(('child-for-no-item', {'wf': x['name'], 'x': (x['input'] or {}).get('x')}))
            continue
        decl = declared_of(case, lvl + 1)
        for k, v in call_input(case, lvl, item).items():
            if k in decl:
                if norm((x['input'] or {}).get(k, '<missing>')) != norm(v):
                    hits.append(('declared-input-lost', {'wf': x['name'], 'key': k, 'level': lvl + 1}))
            elif k not in (x['params'] or {}) or norm(x['params'][k]) != norm(v) or k in (x['input'] or {}):
                hits.append(('undeclared-input-dropped', {'wf': x['name'], 'key': k, 'level': lvl + 1,
                                                          'params': sorted((x['params'] or {}).keys())}))
    for t in T.tasks.values():
        if t['type'] != 'WORKFLOW':
            continue
        pw = T.wfs[t['wf']]
        if pw['ord'] not in T.level:
            continue
        lvl = T.level[pw['ord']]
        call = case['calls'][lvl] if lvl < len(case['calls']) else None
        if call is None:
            hits.append(('unexpected-subworkflow-task', {'task': t['name']}))
            continue
        ch = sorted(T.children.get(t['ord'], []), key=lambda c: c['ord'])
        det = {'task': t['name'], 'level': lvl, 'kind': call['kind'], 'task_state': t['state'],
               'children': [[c['name'], c['state'], c['index']] for c in ch]}
        for c in ch:
            n_sent = run['sent'].get(c['id'], 0)
            if c['state'] in FINAL:
                # "the parent continues exactly once per sub-workflow completion": one hand-off message
                if n_sent != 1:
                    hits.append(('report-count', dict(det, child=c['ord'], registered=n_sent)))
            else:
                hits.append(('child-not-final', dict(det, child=c['ord'], child_state=c['state'])))
                if n_sent:
                    hits.append(('report-count', dict(det, child=c['ord'], registered=n_sent)))
        if call['kind'] == 'items':
            its = [T.item_of(lvl, c) for c in ch]
            twice = sorted(set(i for i in its if i is not None and its.count(i) > 1))
            if twice:
                # each item's sub-workflow is started once (C07's clause, but here it decides whether the
                # parent task can ever complete: count != number of accepted children)
                hits.append(('item-started-twice', dict(det, items=twice, concurrency=call['concurrency'])))
        if t['state'] not in er.COMPLETED:
            # quiescent and nothing pending: the task can only be waiting for a child that will never report
            if not ch or all(c['state'] in FINAL for c in ch):
                hits.append(('parent-task-never-completed', det))
            continue
        allfinal = bool(ch) and all(c['state'] in FINAL for c in ch)
        if call['kind'] == 'plain':
            if len(ch) > 1:
                hits.append(('more-than-one-child', det))
            if len(ch) == 1 and allfinal:
                c = ch[0]
                # "ends SUCCESS ... iff the sub-workflow succeeded, ERROR iff it failed, CANCELLED iff cancelled"
                if t['state'] != c['state']:
                    hits.append(('state-mismatch', det))
                if c['state'] == 'SUCCESS' and norm(run['results'].get(t['ord'])) != norm(c['output']):
                    hits.append(('result-mismatch', dict(det, result=run['results'].get(t['ord']), output=c['output'])))
            if not ch and t['state'] != 'ERROR':
                hits.append(('completed-without-child', det))
        else:
            sts = [c['state'] for c in ch]
            exp = None
            if 'CANCELLED' in sts:
                exp = 'CANCELLED'
            elif allfinal and len(ch) == len(call['items']):
                exp = 'ERROR' if 'ERROR' in sts else 'SUCCESS'
            if exp is not None and t['state'] != exp:
                hits.append(('state-mismatch', dict(det, expected=exp)))
            if exp == 'SUCCESS':
                by_item = {T.item_of(lvl, c): c for c in ch}
                want = [by_item[i]['output'] for i in call['items'] if i in by_item]
                if norm(run['results'].get(t['ord'])) != norm(want):
                    hits.append(('result-mismatch', dict(det, result=run['results'].get(t['ord']), output=want)))
        # continuation: exactly one downstream task per completion (none on CANCELLED)
        rows = {}
        for u in T.tasks.values():
            if u['wf'] == pw['ord']:
                rows[u['name']] = rows.get(u['name'], 0) + 1
        exp_t2 = 1 if t['state'] == 'SUCCESS' else 0
        exp_te = 1 if (t['state'] == 'ERROR' and call['on_error']) else 0
        got = (rows.get('t2', 0), rows.get('te', 0))
        if pw['ord'] in stopped or pw['state'] == 'CANCELLED' and pw['ord'] == root['ord']:
            ok = got[0] <= exp_t2 and got[1] <= exp_te
        else:
            ok = got == (exp_t2, exp_te)
        if not ok:
            hits.append(('continuation-count', dict(det, t2=got[0], te=got[1], expected=[exp_t2, exp_te],
                                                    parent_state=pw['state'])))
        if rows.get('t1', 0) != 1:
            hits.append(('caller-task-rows', dict(det, rows=rows.get('t1', 0))))
    # every execution is finished at quiescence (a parent whose child reported must itself move on)
    for x in T.wfs.values():
        if x['state'] not in FINAL:
            hits.append(('execution-not-final', {'wf': x['name'], 'state': x['state'], 'level': T.level.get(x['ord'])}))
    return hits


SHADOW_EFFECTS = {
    'namespace': {'namespace', 'undeclared-input-dropped:namespace'},
    'root_execution_id': {'root', 'env', 'state-mismatch', 'execution-not-final', 'child-not-final'},
    'task_execution_id': {'orphan', 'parent-task-never-completed', 'execution-not-final', 'report-count',
                          'completed-without-child', 'child-not-final'},
    'index': {'result-mismatch', 'state-mismatch', 'parent-task-never-completed', 'execution-not-final',
              'child-not-final'},
    'description': {'parent-task-never-completed', 'execution-not-final', 'child-not-final'},
}


DUP_ITEM_SIG = {'kind': 'with-items-concurrency-rpc-start-item-started-twice'}
DUP_ITEM_EFFECTS = {'item-started-twice', 'parent-task-never-completed', 'execution-not-final', 'child-not-final',
                    'result-mismatch', 'state-mismatch', 'continuation-count'}


def classify(case, kind, det, all_kinds=()):
    """finding signature of a monitor hit"""
    for call in case['calls']:
        for k in call['extra']:
            if k in RESERVED and (kind in SHADOW_EFFECTS[k] or '%s:%s' % (kind, det.get('key')) in SHADOW_EFFECTS[k]):
                if k == 'description' and not case['rpc']:
                    continue
                return {'kind': RPC_KIND if k == 'description' else SHADOW_KIND, 'key': k}
    if kind == 'wrong-definition' and case.get('skip_validation') and any('.' in n for n in case['names'][:-1]):
        return dict(RSTRIP_SIG)
    if case['rpc'] and 'item-started-twice' in all_kinds and kind in DUP_ITEM_EFFECTS and \
            any(c['kind'] == 'items' and c['concurrency'] for c in case['calls']):
        return dict(DUP_ITEM_SIG)
    sig = {'kind': kind}
    for k in ('key', 'type'):
        if k in det:
            sig[k] = det[k]
    return sig


# ======================================================================================= tree: model comparison
def compare_with_model(ctx, case, run):
    """Tie B on the engine rows: for every sub-workflow task the model predicts which definition is
    chosen, the child's row (input/params/links/index) and, from the children's final rows, the task's
    state and result."""
    drv = ctx.driver()
    T = Tree(case, run)
    if T.root is None:
        return []
    hits = []
    for t in T.tasks.values():
        if t['type'] != 'WORKFLOW':
            continue
        pw = T.wfs[t['wf']]
        lvl = T.level.get(pw['ord'])
        if lvl is None or lvl >= len(case['calls']):
            continue
        call = case['calls'][lvl]
        ch = sorted(T.children.get(t['ord'], []), key=lambda c: c['ord'])
        # ---- resolution
        ref = child_ref(case, lvl)
        mres = drv.call('subwf.resolve', {'defs': run['defs'], 'parent': pw['name'], 'spec': case['names'][lvl],
                                          'ns': (pw['params'] or {}).get('namespace', ''), 'child': ref})
        found = mres['found']
        for c in ch:
            got = [c['name'], run['extras'][c['ord']]['wf_ns']]
            ctx.count(STREAM_T, 'resolve-checked')
            if found != got:
                ctx.disagree(STREAM_T, {'what': 'resolve', 'case': case, 'task': t['name'], 'level': lvl}, found, got)
            # MONITOR (workbook-relative name first, then global; caller's namespace before the default one)
            exp = None
            cands = [ref]
            if pw['name'] != case['names'][lvl] and pw['name'].endswith('.' + case['names'][lvl]):
                cands = [pw['name'][:-len(case['names'][lvl]) - 1] + '.' + ref, ref]
            cns = (pw['params'] or {}).get('namespace', '')
            for nm in cands:
                for dns in ([cns, ''] if cns else ['']):
                    if [nm, dns] in run['defs'] and exp is None:
                        exp = [nm, dns]
            if exp != got:
                hits.append(('wrong-definition', {'task': t['name'], 'level': lvl, 'expected': exp, 'got': got}))
        if found is None:
            if ch:
                ctx.disagree(STREAM_T, {'what': 'resolve-none', 'case': case}, None, [c['name'] for c in ch])
            continue
        # ---- the child rows
        items = call['items'] if call['kind'] == 'items' else [None]
        decl = declared_of(case, lvl + 1)
        root_id = T.wfs[pw['root']]['id'] if pw['root'] is not None and pw['root'] in T.wfs else None
        for c in ch:
            item = T.item_of(lvl, c)
            if call['kind'] == 'items' and item is None:
                continue
            idx = items.index(item)
            ms = drv.call('subwf.schedule', {
                'parentParams': pw['params'] or {}, 'parentRoot': root_id, 'parentId': pw['id'], 'taskId': t['id'],
                'index': idx, 'declared': sorted(decl), 'input': call_input(case, lvl, item),
                'viaRpc': bool(case['rpc']), 'defNs': found[1]})
            ctx.count(STREAM_T, 'schedule-checked')
            if 'ok' not in ms:
                ctx.disagree(STREAM_T, {'what': 'schedule-err-but-child-exists', 'case': case}, ms, c['params'])
                continue
            m = ms['ok']
            minput = dict(m['input'])
            for k, v in decl.items():        # Workflow.prepare_input: defaults of missing declared inputs
                if k not in minput and v != '<required>':
                    minput[k] = v
            model = {'input': minput, 'params': m['params'], 'task': m['task'], 'root': m['root'], 'index': m['index']}
            impl = {'input': c['input'], 'params': c['params'],
                    'task': T.tasks[c['parent_task']]['id'] if c['parent_task'] in T.tasks else None,
                    'root': T.wfs[c['root']]['id'] if c['root'] in T.wfs else None, 'index': c['index']}
            if norm(model) != norm(impl):
                ctx.disagree(STREAM_T, {'what': 'child-row', 'case': case, 'task': t['name'], 'level': lvl}, model, impl)
        # ---- parent task from the children's rows
        if ch and all(c['state'] in FINAL for c in ch) and t['state'] in er.COMPLETED and \
                (call['kind'] == 'plain' and len(ch) == 1 or
                 call['kind'] == 'items' and (len(ch) == len(items) or any(c['state'] == 'CANCELLED' for c in ch))):
            if len(set(c['index'] for c in ch)) != len(ch):
                # equal indexes (only under the recorded findings): python's stable sort keeps the order in
                # which the database lists the rows, which is not an input of the model
                ctx.count(STREAM_T, 'parent-task-skipped-index-tie')
                continue
            mp = drv.call('subwf.parentTask', {'withItems': call['kind'] == 'items', 'children': [
                {'index': c['index'] or 0, 'state': c['state'], 'accepted': c['accepted'], 'output': c['output']}
                for c in ch]})
            impl = {'state': t['state'], 'result': run['results'].get(t['ord'])}
            ctx.count(STREAM_T, 'parent-task-checked')
            if norm(mp) != norm(impl):
                ctx.disagree(STREAM_T, {'what': 'parent-task', 'case': case, 'task': t['name'], 'level': lvl}, mp, impl)
    return hits


def features(case, run):
    f = set()
    T = Tree(case, run)
    for x in T.wfs.values():
        if x['parent_task'] is not None:
            f.add('child-' + x['state'])
            if T.level.get(x['ord'], 0) >= 2:
                f.add('grandchild')
    if run['dups']:
        f.add('dup-result-msg')
    if run['stopped']:
        f.add('stop-child')
    if run.get('races'):
        f.add('cas-race')
    return f


def check_tree(ctx, case, origin='gen'):
    run = run_tree(case)
    if run.get('rejected'):
        ctx.count(STREAM_T, 'rejected')
        ctx.evaluated(STREAM_T, None)
        return run
    f = features(case, run)
    for x in sorted(f):
        ctx.count(STREAM_T, 'feat:' + x)
    ctx.count(STREAM_T, 'depth:%d' % case['depth'])
    ctx.count(STREAM_T, 'pack:' + case['pack'])
    ctx.count(STREAM_T, 'rpc' if case['rpc'] else 'inproc')
    ctx.count(STREAM_T, 'ns:' + (case['ns'] or 'default'))
    for c in case['calls']:
        ctx.count(STREAM_T, 'call:%s:%s' % (c['kind'], c['ref']))
    root_state = [x['state'] for x in run['final']['wfs'] if x['id'] == run['root_id']]
    ctx.count(STREAM_T, 'root:' + (root_state[0] if root_state else 'none'))
    ctx.evaluated(STREAM_T, case, nontrivial=any(x.startswith('child-') and x[6:] in FINAL for x in f))
    if ctx.rng.random() < 0.02:
        ctx.sample({'stream': STREAM_T, 'case': case,
                    'rows': [[x['name'], x['state'], x['parent_task'], x['root']] for x in run['final']['wfs']]})
    hits = monitor(case, run) + compare_with_model(ctx, case, run)
    all_kinds = set(k for k, _ in hits)
    for kind, det in hits:
        sig = classify(case, kind, det, all_kinds)
        ctx.count(STREAM_T, 'hit:' + sig['kind'] + (':' + sig['key'] if 'key' in sig else ''))
        if not _first(ctx, sig):
            continue
        ctx.violation('C09 monitor %s: %s' % (kind, json.dumps(det, default=str)[:400]),
                      {'kind': 'tree', 'case': case, 'hit': [kind, det],
                       'rows': {'wfs': [{k: x[k] for k in ('ord', 'name', 'state', 'parent_task', 'root', 'params', 'input',
                                                            'output', 'index')} for x in run['final']['wfs']],
                                'tasks': [{k: t[k] for k in ('ord', 'wf', 'name', 'state', 'type')}
                                          for t in run['final']['tasks']]}}, sig)
    return run


# ======================================================================================= chunks
def run_corpus(ctx):
    import glob
    import os
    from vlib import core
    for f in sorted(glob.glob(os.path.join(core.VERIF, 'corpus', 'C09', '*.json'))):
        with open(f) as fh:
            c = json.load(fh)
        run_replay(ctx, c)
        ctx.count('corpus', c['kind'])


def run_replay(ctx, c):
    if c['kind'] == 'resolve':
        check_resolve(ctx, c['case'])
    elif c['kind'] == 'schedule':
        check_schedule(ctx, c['case'])
    elif c['kind'] == 'tree':
        return check_tree(ctx, c['case'], origin='corpus')


def run_chunk(ctx, n_resolve, n_schedule, n_tree, gen_kw=None):
    from harness import boot
    boot.boot()
    rng = ctx.rng
    if getattr(ctx, 'chunk', 0) == 0:
        run_corpus(ctx)
    for _ in range(n_resolve):
        check_resolve(ctx, gen_resolve_case(rng))
    for _ in range(n_schedule):
        check_schedule(ctx, gen_schedule_case(rng))
    for _ in range(n_tree):
        check_tree(ctx, gen_tree_case(rng, **(gen_kw or {})))
