"""Generator of structured workflow programs, rendered both as Mistral YAML (for the real
engine) and as JSON (for the Lean model).  All random choices come from the rng passed in.

Program:
  {'name', 'type': 'direct', 'input': [name | [name, default]], 'vars': {k: v},
   'output': {k: Expr} | None, 'defaults': {'on_success'|'on_error'|'on_complete': [Route]} | None,
   'tasks': [Task], 'syntax': 'yaql' | 'jinja'}
Task:
  {'name', 'action': ['echo', Expr] | ['noop'] | ['fail'],
   'join': None | 'all' | 'one' | int, 'publish': {k: Expr}, 'publish_on_error': {k: Expr},
   'on_success': [Route], 'on_error': [Route], 'on_complete': [Route], ... policies}
Route: {'to': task name | 'fail' | 'succeed' | 'pause' | 'noop', 'guard': Expr | None}
Expr:  ['lit', json] | ['var', 'a.b'] | ['res'] | ['eq', Expr, Expr] | ['not', Expr] | ['bad']
"""
import json

ENGINE_CMDS = ('fail', 'succeed', 'pause', 'noop')


# ----------------------------------------------------------------------------- rendering
def _yaql_lit(v):
    if v is None:
        return 'null'
    if v is True:
        return 'true'
    if v is False:
        return 'false'
    if isinstance(v, int):
        return str(v)
    if isinstance(v, str):
        return "'%s'" % v
    if isinstance(v, list):
        return '[' + ', '.join(_yaql_lit(x) for x in v) + ']'
    if isinstance(v, dict):
        return 'dict(' + ', '.join('%s=>%s' % (k, _yaql_lit(x)) for k, x in v.items()) + ')'
    raise ValueError(v)


def _jinja_lit(v):
    if v is None:
        return 'none'
    if v is True:
        return 'true'
    if v is False:
        return 'false'
    if isinstance(v, int):
        return str(v)
    if isinstance(v, str):
        return "'%s'" % v
    if isinstance(v, list):
        return '[' + ', '.join(_jinja_lit(x) for x in v) + ']'
    if isinstance(v, dict):
        return '{' + ', '.join("'%s': %s" % (k, _jinja_lit(x)) for k, x in v.items()) + '}'
    raise ValueError(v)


def expr_src(e, syntax):
    """inner source text of an expression (without delimiters)"""
    k = e[0]
    y = syntax == 'yaql'
    if k == 'lit':
        return _yaql_lit(e[1]) if y else _jinja_lit(e[1])
    if k == 'var':
        return ('$.' if y else '_.') + e[1]
    if k == 'res':
        return 'task().result'
    if k == 'eq':
        return '(%s) %s (%s)' % (expr_src(e[1], syntax), '=' if y else '==', expr_src(e[2], syntax))
    if k == 'not':
        return 'not (%s)' % expr_src(e[1], syntax)
    if k == 'bad':
        return '1 / 0' if y else '1 / 0'
    raise ValueError(e)


def render_expr(e, syntax):
    """YAML scalar for an expression: plain literals stay plain YAML values."""
    if e[0] == 'lit':
        return e[1]
    if syntax == 'yaql':
        return '<%% %s %%>' % expr_src(e, syntax)
    return '{{ %s }}' % expr_src(e, syntax)


def render_guard(e, syntax):
    # a guard must be an expression string, even for a literal
    if syntax == 'yaql':
        return '<%% %s %%>' % expr_src(e, syntax)
    return '{{ %s }}' % expr_src(e, syntax)


def _routes(rs, syntax):
    out = []
    for r in rs:
        if r.get('guard') is None:
            out.append(r['to'])
        else:
            out.append({r['to']: render_guard(r['guard'], syntax)})
    return out


def to_dict(prog):
    """The definition as a python dict (yaml.dump'ed by render_yaml)."""
    sx = prog.get('syntax', 'yaql')
    wf = {'type': prog.get('type', 'direct')}
    if prog.get('input'):
        wf['input'] = [i if isinstance(i, str) else {i[0]: i[1]} for i in prog['input']]
    if prog.get('vars'):
        wf['vars'] = prog['vars']
    if prog.get('output'):
        wf['output'] = {k: render_expr(e, sx) for k, e in prog['output'].items()}
    if prog.get('output_on_error'):
        wf['output-on-error'] = {k: render_expr(e, sx) for k, e in prog['output_on_error'].items()}
    d = prog.get('defaults')
    if d:
        td = {}
        for k, yk in (('on_success', 'on-success'), ('on_error', 'on-error'), ('on_complete', 'on-complete')):
            if d.get(k):
                td[yk] = _routes(d[k], sx)
        for k in ('retry', 'timeout', 'wait_before', 'wait_after', 'pause_before', 'concurrency'):
            if d.get(k) is not None:
                td[k.replace('_', '-')] = d[k]
        wf['task-defaults'] = td
    tasks = {}
    for t in prog['tasks']:
        td = {}
        a = t.get('action', ['noop'])
        if a[0] == 'echo':
            td['action'] = 'std.echo'
            td['input'] = {'output': render_expr(a[1], sx)}
        elif a[0] == 'noop':
            td['action'] = 'std.noop'
        elif a[0] == 'fail':
            td['action'] = 'std.fail'
        elif a[0] == 'wf':
            td['workflow'] = a[1]
            if len(a) > 2 and a[2]:
                td['input'] = {k: render_expr(e, sx) for k, e in a[2].items()}
        if t.get('join') is not None:
            td['join'] = t['join']
        if t.get('publish'):
            td['publish'] = {k: render_expr(e, sx) for k, e in t['publish'].items()}
        if t.get('publish_on_error'):
            td['publish-on-error'] = {k: render_expr(e, sx) for k, e in t['publish_on_error'].items()}
        for k, yk in (('on_success', 'on-success'), ('on_error', 'on-error'), ('on_complete', 'on-complete')):
            if t.get(k):
                td[yk] = _routes(t[k], sx)
        if t.get('with_items') is not None:
            td['with-items'] = 'i in %s' % render_expr(t['with_items'], sx)
        for k in ('retry', 'timeout', 'wait_before', 'wait_after', 'pause_before', 'concurrency',
                  'keep_result', 'safe_rerun', 'requires'):
            if t.get(k) is not None:
                td[k.replace('_', '-')] = t[k]
        tasks[t['name']] = td
    wf['tasks'] = tasks
    return {'version': '2.0', prog['name']: wf}


def render_yaml(prog):
    import yaml
    return yaml.safe_dump(to_dict(prog), sort_keys=False, default_flow_style=False)


def graph_json(prog):
    """The part of a program the join logic reads (Mistral.Join.Graph)."""
    def names(rs):
        return [r['to'] for r in (rs or [])]
    d = prog.get('defaults')
    return {
        'tasks': [{'name': t['name'], 'join': t.get('join'),
                   'onSuccess': names(t.get('on_success')), 'onError': names(t.get('on_error')),
                   'onComplete': names(t.get('on_complete')), 'onSkip': names(t.get('on_skip'))}
                  for t in prog['tasks']],
        'defaults': None if not d else {
            'onSuccess': names(d.get('on_success')), 'onError': names(d.get('on_error')),
            'onComplete': names(d.get('on_complete')), 'onSkip': names(d.get('on_skip'))},
    }


# ----------------------------------------------------------------------------- graph shapes
def gen_dag(rng, n_tasks=None, p_join=0.35, p_cycle=0.0, p_defaults=0.15, p_cmd=0.05):
    """A direct workflow graph: tasks t0..tn-1; edges mostly forward (DAG); joins where a task has
    >=2 inbound (or by choice); optionally back edges (cycles) and engine commands."""
    n = n_tasks or rng.randint(2, 9)
    names = ['t%d' % i for i in range(n)]
    tasks = [{'name': nm, 'action': ['noop'], 'join': None, 'on_success': [], 'on_error': [],
              'on_complete': []} for nm in names]
    # forward edges: each non-first task gets 0..3 inbound from earlier tasks (0 => extra start task)
    for i in range(1, n):
        k = rng.choice([0, 1, 1, 1, 2, 2, 3])
        srcs = rng.sample(range(i), min(k, i))
        for s in srcs:
            clause = rng.choice(['on_success', 'on_success', 'on_success', 'on_error', 'on_complete'])
            if not any(r['to'] == names[i] for r in tasks[s][clause]):
                tasks[s][clause].append({'to': names[i], 'guard': None})
    if rng.random() < p_cycle:
        for _ in range(rng.randint(1, 2)):
            a, b = sorted(rng.sample(range(n), 2))
            clause = rng.choice(['on_success', 'on_error', 'on_complete'])
            if not any(r['to'] == names[a] for r in tasks[b][clause]):
                tasks[b][clause].append({'to': names[a], 'guard': None})
    for t in tasks:
        if rng.random() < p_cmd:
            t[rng.choice(['on_success', 'on_error', 'on_complete'])].append(
                {'to': rng.choice(['fail', 'succeed', 'noop']), 'guard': None})
    prog = {'name': 'wf', 'type': 'direct', 'tasks': tasks, 'syntax': 'yaql'}
    if rng.random() < p_defaults and n >= 2:
        # task-defaults route to the LAST task, which gets no on-clauses of its own, so the
        # defaults cannot close a cycle (a join inside an unsatisfiable cycle is a deadlocked
        # definition, outside the property's grammar of DAGs and bounded cycles)
        last = tasks[-1]
        for clause in ('on_success', 'on_error', 'on_complete'):
            last[clause] = []
        d = {}
        for clause in ('on_success', 'on_error', 'on_complete'):
            if rng.random() < 0.5:
                d[clause] = [{'to': last['name'], 'guard': None}]
        if d:
            prog['defaults'] = d
    # joins: decided after all edges are known (inbound computed with defaults semantics)
    inb = inbound_counts(prog)
    for t in tasks:
        c = inb[t['name']]
        if c >= 2 and rng.random() < 0.8 or (c == 1 and rng.random() < p_join * 0.3):
            kind = rng.choice(['all', 'all', 'all', 'all', 'all', 'all', 'one', 'num'])
            if kind == 'num':
                t['join'] = rng.randint(1, c)
            else:
                t['join'] = kind
    return prog


def out_names(prog, t):
    """python rendering of the clause resolution (used only to build generator inputs such as
    plausible next_tasks; the model has its own definition, compared against the real spec)."""
    d = prog.get('defaults') or {}
    res = []
    for clause in ('on_error', 'on_success', 'on_complete', 'on_skip'):
        own = [r['to'] for r in (t.get(clause) or [])]
        if not own:
            own = [r['to'] for r in (d.get(clause) or []) if r['to'] != t['name']]
        res += own
    return res


def inbound_counts(prog):
    cnt = {t['name']: 0 for t in prog['tasks']}
    for t in prog['tasks']:
        for nm in set(out_names(prog, t)):
            if nm in cnt:
                cnt[nm] += 1
    return cnt


# ----------------------------------------------------------------------------- full programs
VARS = ['v0', 'v1', 'v2', 'v3']


def gen_expr(rng, depth=0, p_bad=0.02, bool_only=False):
    r = rng.random()
    if r < p_bad:
        return ['bad']
    if bool_only:
        k = rng.choice(['eq', 'eq', 'not', 'lit'])
        if k == 'lit':
            return ['lit', rng.choice([True, True, False])]
        if k == 'not' and depth < 2:
            return ['not', gen_expr(rng, depth + 1, 0, True)]
        return ['eq', ['var', rng.choice(VARS + ['x'])], ['lit', rng.choice([0, 1, 2, 'a', None])]]
    k = rng.choice(['lit', 'lit', 'var', 'var', 'res'])
    if k == 'lit':
        return ['lit', rng.choice([0, 1, 2, 'a', 'b', None, True, [1, 2], {'k': 1}, {'k': {'m': 2}}])]
    if k == 'var':
        return ['var', rng.choice(VARS + ['x']) if rng.random() > p_bad else 'nope']
    return ['res']


def gen_program(rng, n_tasks=None, p_fail=0.12, p_guard=0.3, p_publish=0.6, p_cmd=0.04, p_defaults=0.15,
                p_bad=0.02, syntax=None, cyclic=False):
    prog = gen_dag(rng, n_tasks, p_cycle=0.0, p_defaults=p_defaults, p_cmd=p_cmd)
    prog['syntax'] = syntax or rng.choice(['yaql', 'yaql', 'jinja'])
    # every variable the expressions mention is a declared input with a default, so that a
    # reference is an error only when the generator asks for one ('nope', p_bad)
    prog['input'] = [['x', rng.choice([0, 1, 2, 'a'])]] + [[v, rng.choice([0, 1, None, 'a'])] for v in VARS]
    if rng.random() < 0.3:
        prog['vars'] = {'w0': rng.choice([0, 1, 'a'])}
    for t in prog['tasks']:
        r = rng.random()
        if r < p_fail:
            t['action'] = ['fail']
        elif r < 0.7:
            t['action'] = ['echo', gen_expr(rng, p_bad=p_bad)]
        if rng.random() < p_publish:
            t['publish'] = {rng.choice(VARS): gen_expr(rng, p_bad=p_bad) for _ in range(rng.randint(1, 2))}
        if rng.random() < 0.2:
            t['publish_on_error'] = {rng.choice(VARS): gen_expr(rng, p_bad=p_bad)}
        for clause in ('on_success', 'on_error', 'on_complete'):
            for rt in t[clause]:
                if rng.random() < p_guard:
                    rt['guard'] = gen_expr(rng, p_bad=p_bad, bool_only=True)
    if rng.random() < 0.6:
        prog['output'] = {'o%d' % i: ['var', rng.choice(VARS + ['x'])] for i in range(rng.randint(1, 2))}
    if rng.random() < 0.85:
        make_single_activation(prog)
    return prog


def gen_oracle_table(rng, prog, p_err=0.15, p_cancel=0.0):
    tbl = {}
    for t in prog['tasks']:
        r = rng.random()
        if r < p_err:
            tbl['%s:0' % t['name']] = ['error']
        elif r < p_err + p_cancel:
            tbl['%s:0' % t['name']] = ['cancel']
    return tbl


def route_counts(prog):
    """number of on-clause entries (after task-defaults resolution) that target each task"""
    cnt = {t['name']: 0 for t in prog['tasks']}
    for t in prog['tasks']:
        for nm in out_names(prog, t):
            if nm in cnt:
                cnt[nm] += 1
    return cnt


def make_single_activation(prog):
    """every task that more than one on-clause entry can trigger becomes a join (a non-join task
    triggered twice gets two executions: outside the single-activation class of the engine model)"""
    rc = route_counts(prog)
    for t in prog['tasks']:
        if rc[t['name']] >= 2 and t.get('join') is None:
            t['join'] = 'all'
    return prog
