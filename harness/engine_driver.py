"""Deterministic in-process driver of the REAL mistral engine (Tie B, DESIGN section 3).

No source hooks: the seams are monkeypatched.
  * post_tx_queue: the thread that runs post-commit operations is replaced by a
    recorder; each originating transaction yields one FIFO of operations of which
    only the head is deliverable.
  * rpc.get_engine_client(): a recorder of engine messages.
  * exe.get_executor(): a recorder of run_action requests; on delivery the REAL
    DefaultExecutor runs the (possibly scripted) action and reports through the
    recorded engine client.
  * the system scheduler: a REAL DefaultScheduler whose threads are never started;
    the harness plays dispatcher / store poller by calling its own methods.
  * time: oslo_utils.timeutils time override (virtual clock, whole seconds).
  * ids: oslo_utils.uuidutils.generate_uuid draws from the case PRNG so that id
    order (= the order the DB lists rows when no sort key is given) is a chosen input.
"""
import datetime
import json
import random
import traceback

from harness import boot

_SETUP = False
BASE_TIME = datetime.datetime(2030, 1, 1, 0, 0, 0)


class Pending(object):
    __slots__ = ('kind', 'data', 'ctx', 'seq', 'origin')

    def __init__(self, kind, data, ctx, seq, origin=None):
        self.kind = kind      # 'rpc' | 'action' | 'posttx'
        self.data = data
        self.ctx = ctx
        self.seq = seq
        self.origin = origin

    def __repr__(self):
        return 'Pending(%s,%s,#%d)' % (self.kind, self.describe(), self.seq)

    def describe(self):
        if self.kind == 'rpc':
            return self.data['method']
        if self.kind == 'action':
            return 'run_action'
        return 'posttx[%d]' % len(self.data)


class FakeEngineClient(object):
    def __init__(self, world):
        self.w = world

    def _enq(self, method, **kw):
        from mistral import context as auth_ctx
        ctx = auth_ctx.ctx() if auth_ctx.has_ctx() else None
        self.w._add('rpc', {'method': method, 'kwargs': kw}, ctx)

    def start_workflow(self, wf_identifier, wf_namespace='', wf_ex_id=None,
                       wf_input=None, description='', async_=False, **params):
        self._enq('start_workflow', wf_identifier=wf_identifier, wf_namespace=wf_namespace,
                  wf_ex_id=wf_ex_id, wf_input=wf_input, description=description, **params)

    def start_task(self, task_ex_id, first_run, waiting, triggered_by, rerun, reset, **params):
        self._enq('start_task', task_ex_id=task_ex_id, first_run=first_run, waiting=waiting,
                  triggered_by=triggered_by, rerun=rerun, reset=reset)

    def on_action_complete(self, action_ex_id, result, wf_action=False, async_=False):
        self._enq('on_action_complete', action_ex_id=action_ex_id, result=result, wf_action=wf_action)

    def on_action_update(self, action_ex_id, state, wf_action=False, async_=False):
        self._enq('on_action_update', action_ex_id=action_ex_id, state=state, wf_action=wf_action)

    def process_action_heartbeats(self, action_ex_ids):
        self._enq('process_action_heartbeats', action_ex_ids=action_ex_ids)

    def __getattr__(self, name):
        raise AttributeError('FakeEngineClient: unexpected engine client call %s' % name)


class FakeExecutor(object):
    def __init__(self, world):
        self.w = world

    def run_action(self, action, action_ex_id, safe_rerun, exec_ctx, redelivered=False,
                   target=None, async_=True, timeout=None):
        from mistral import context as auth_ctx
        ctx = auth_ctx.ctx() if auth_ctx.has_ctx() else None
        self.w._add('action', {'action': action, 'action_ex_id': action_ex_id,
                               'safe_rerun': safe_rerun, 'exec_ctx': exec_ctx,
                               'target': target, 'timeout': timeout}, ctx)
        return None


class _FakeThread(object):
    """Stands in for threading.Thread inside post_tx_queue: runs the target at once; the
    target only *records* the queue (post_tx_queue._process_queue is patched)."""

    def __init__(self, target=None, args=(), kwargs=None):
        self.target = target

    def start(self):
        self.target()


class _FakeThreading(object):
    Thread = _FakeThread

    def __getattr__(self, name):
        import threading
        return getattr(threading, name)


_WORLD = None


def _setup_once():
    global _SETUP
    if _SETUP:
        return
    boot.boot()
    from oslo_config import cfg
    import oslo_messaging as messaging
    from mistral.tests.unit import base as tbase  # noqa: parses test config
    import logging
    logging.disable(logging.CRITICAL)
    CONF = cfg.CONF
    from mistral.db.v2 import api as db_api
    cfg.CONF.set_default('connection', 'sqlite://', group='database')
    cfg.CONF.set_default('max_overflow', -1, group='database')
    cfg.CONF.set_default('max_pool_size', 1000, group='database')
    messaging.get_transport(CONF)
    CONF.set_default('transport_url', 'fake:/')
    CONF.set_override('only_builtin_actions', True, 'legacy_action_provider')
    CONF.set_override('load_action_generators', False, 'legacy_action_provider')
    CONF.set_override('type', 'local', 'executor')
    db_api.setup_db()
    from mistral.services import actions as action_service
    from mistral import context as auth_context
    auth_context.set_ctx(tbase.get_context())
    action_service.get_system_action_provider()
    # ---- seams
    from mistral.engine import post_tx_queue
    from mistral.rpc import clients as rpc_clients
    from mistral.executors import base as exe
    from mistral.scheduler import base as sched_base
    from mistral.scheduler import default_scheduler
    from oslo_utils import uuidutils

    post_tx_queue.threading = _FakeThreading()
    orig_process_queue = post_tx_queue._process_queue

    def recording_process_queue(queue):
        from mistral import context as auth_ctx
        ctx = auth_ctx.ctx() if auth_ctx.has_ctx() else None
        _WORLD._add('posttx', list(queue), ctx)

    post_tx_queue._process_queue = recording_process_queue
    post_tx_queue._verif_orig_process_queue = orig_process_queue

    rpc_clients.get_engine_client = lambda: _WORLD.engine_client
    exe.get_executor = lambda t: _WORLD.executor
    sched_base.get_system_scheduler = lambda: _WORLD.scheduler

    orig_invoke = default_scheduler.DefaultScheduler._invoke_job

    def recording_invoke(auth_ctx, func, args):
        def wrapped(**kw):
            try:
                return func(**kw)
            except Exception as e:
                _WORLD._record_error('job:' + getattr(func, '__name__', str(func)), e)
                raise
        return orig_invoke(auth_ctx, wrapped, args)

    default_scheduler.DefaultScheduler._invoke_job = staticmethod(recording_invoke)

    uuidutils.generate_uuid = lambda dashed=True: _WORLD._gen_id()
    _SETUP = True


class ScriptedAction(object):
    """Built lazily (needs mistral_lib)."""


def _scripted_action(kind, value=None):
    from mistral_lib import actions as ml

    class _Scripted(ml.Action):
        def run(self, context):
            if kind == 'error':
                return ml.Result(error=value if value is not None else 'scripted error')
            if kind == 'cancel':
                return ml.Result(error='scripted cancel', cancel=True)
            if kind == 'value':
                return ml.Result(data=value)
            raise RuntimeError('bad scripted kind')

        def is_sync(self):
            return True

    return _Scripted()


class EngineWorld(object):
    """One run of the real engine with all deliveries under the caller's control."""

    def __init__(self, seed=0, id_mode='random'):
        global _WORLD
        _setup_once()
        _WORLD = self
        self.rng = random.Random('world-%s' % seed)
        self.id_mode = id_mode
        self._reset()

    # ------------------------------------------------------------------ infra
    def _reset(self):
        from oslo_config import cfg
        from oslo_utils import timeutils
        from mistral.db.v2 import api as db_api
        from mistral.db.sqlalchemy import sqlite_lock
        from mistral.lang import parser as spec_parser
        from mistral.scheduler import default_scheduler
        from mistral.executors import default_executor
        from mistral import context as auth_context
        from mistral.tests.unit import base as tbase
        self.pending = []
        self._seq = 0
        self._ids = 0
        self.id_ord = {}          # id -> creation ordinal
        self.errors = []          # (where, declared?, exception type, message)
        self.log = []             # delivered events
        self.clock = 0
        self.current_origin = None
        timeutils.set_time_override(BASE_TIME)
        self.engine_client = FakeEngineClient(self)
        self.executor = FakeExecutor(self)
        self.scheduler = default_scheduler.DefaultScheduler(cfg.CONF.scheduler)
        self.real_executor = default_executor.DefaultExecutor()
        self.ctx = tbase.get_context()
        auth_context.set_ctx(self.ctx)
        with db_api.transaction():
            db_api.delete_event_triggers()
            db_api.delete_cron_triggers()
            db_api.delete_workflow_executions()
            db_api.delete_task_executions()
            db_api.delete_action_executions()
            db_api.delete_workbooks()
            db_api.delete_workflow_definitions()
            db_api.delete_environments()
            db_api.delete_resource_members()
            db_api.delete_delayed_calls()
            db_api.delete_scheduled_jobs()
        sqlite_lock.cleanup()
        spec_parser.clear_caches()
        from mistral.engine import default_engine
        self.engine = default_engine.DefaultEngine()

    def _gen_id(self):
        self._ids += 1
        if self.id_mode == 'seq':
            pre = '%08x' % self._ids
        else:
            pre = '%08x' % self.rng.getrandbits(32)
        i = '%s-0000-4000-8000-%012x' % (pre, self._ids)
        self.id_ord[i] = self._ids
        return i

    def _add(self, kind, data, ctx):
        self._seq += 1
        self.pending.append(Pending(kind, data, ctx, self._seq, self.current_origin))

    def _record_error(self, where, e):
        from mistral import exceptions as exc
        from mistral_lib import exceptions as lib_exc
        declared = isinstance(e, (exc.MistralException, exc.MistralError, lib_exc.MistralException))
        self.errors.append({'where': where, 'declared': declared, 'type': type(e).__name__,
                            'msg': str(e)[:300],
                            'tb': ''.join(traceback.format_exception(type(e), e, e.__traceback__))[-1500:]})

    def _call(self, where, fn, *a, **kw):
        """Run an engine entry point; never lets an exception escape the harness."""
        from mistral import context as auth_context
        from mistral.db.sqlalchemy import base as db_base
        try:
            return fn(*a, **kw)
        except Exception as e:
            self._record_error(where, e)
            return None
        finally:
            auth_context.set_ctx(self.ctx)
            # a leaked session would poison everything after it
            try:
                s = db_base._get_thread_local_session()
                if s is not None:
                    self.errors.append({'where': where, 'declared': False, 'type': 'LeakedSession', 'msg': '', 'tb': ''})
                    db_base._set_thread_local_session(None)
            except Exception:
                pass

    # ------------------------------------------------------------------ time
    def now(self):
        return BASE_TIME + datetime.timedelta(seconds=self.clock)

    def tick(self, dt):
        from oslo_utils import timeutils
        self.clock += dt
        timeutils.set_time_override(self.now())
        self.log.append(['tick', dt])

    # ------------------------------------------------------------------ API-side operations
    def create_workflows(self, yaml_text, namespace=''):
        from mistral.services import workflows as wf_service
        return wf_service.create_workflows(yaml_text, namespace=namespace)

    def create_workbook(self, yaml_text, namespace=''):
        from mistral.services import workbooks as wb_service
        return wb_service.create_workbook_v2(yaml_text, namespace=namespace)

    def start_workflow(self, name, wf_input=None, wf_ex_id=None, **params):
        self.log.append(['start_workflow', name, wf_input, wf_ex_id, params])
        r = self._call('start_workflow', self.engine.start_workflow, name, '', wf_ex_id,
                       dict(wf_input or {}), '', **params)
        return r.id if r is not None else None

    def op(self, name, *args, **kw):
        """pause_workflow / resume_workflow / stop_workflow / rerun_workflow as the API calls them."""
        self.log.append(['op', name, list(args), kw])
        return self._call('op:' + name, getattr(self.engine, name), *args, **kw)

    # ------------------------------------------------------------------ deliveries
    def jobs(self):
        """in-memory scheduler jobs (what the dispatcher thread would see)."""
        return sorted(self.scheduler.in_memory_jobs.values(), key=lambda j: self.id_ord.get(j.id, 0))

    def enabled(self):
        """Deliverable things now: [('p', Pending) | ('job', job)]; un-due jobs are excluded."""
        res = [('p', p) for p in self.pending]
        now = self.now()
        for j in self.jobs():
            if j.execute_at <= now:
                res.append(('job', j))
        return res

    def undue_jobs(self):
        now = self.now()
        return [j for j in self.jobs() if j.execute_at > now]

    def describe(self, item):
        kind, x = item
        if kind == 'job':
            return ['job', x.func_name.split('.')[-1], x.key]
        return [x.kind, x.describe()]

    def deliver(self, item, oracle=None, duplicate=False):
        """Deliver one enabled item.  duplicate=True leaves rpc messages in the queue."""
        kind, x = item
        if kind == 'job':
            self.log.append(['job', x.func_name.split('.')[-1], x.key])
            self.current_origin = ('job', x.func_name.split('.')[-1])
            self._call('job', self.scheduler._process_memory_job, x)
            return
        p = x
        if p.kind == 'posttx':
            op = p.data.pop(0)
            if not p.data:
                self.pending.remove(p)
            self._deliver_posttx(p, op)
            return
        if not duplicate:
            self.pending.remove(p)
        if p.kind == 'rpc':
            self._deliver_rpc(p)
        elif p.kind == 'action':
            self._deliver_action(p, oracle)

    def _deliver_posttx(self, p, op):
        from mistral.engine import post_tx_queue
        from mistral import context as auth_context
        func, args, in_tx = op
        name = getattr(func, '__name__', str(func))
        self.log.append(['posttx', name, in_tx])
        self.current_origin = ('posttx', name)
        auth_context.set_ctx(p.ctx)
        n_err = len(self.errors)
        self._call('posttx:' + name, post_tx_queue._verif_orig_process_queue, [op])
        if len(self.errors) > n_err and in_tx:
            # the real thread dies with the exception: the rest of this queue is never run
            if p in self.pending:
                self.errors[-1]['dropped_ops'] = [getattr(o[0], '__name__', '?') for o in p.data]
                self.pending.remove(p)

    def _deliver_rpc(self, p):
        from mistral import context as auth_context
        m = p.data['method']
        kw = p.data['kwargs']
        self.log.append(['rpc', m, self._brief(kw)])
        self.current_origin = ('rpc', m)
        auth_context.set_ctx(p.ctx)
        self._call('rpc:' + m, getattr(self.engine, m), **kw)

    def _brief(self, kw):
        out = {}
        for k, v in kw.items():
            if k in ('task_ex_id', 'action_ex_id'):
                out[k] = self.id_ord.get(v, v)
            elif k == 'result':
                out[k] = None if v is None else ('error' if v.is_error() else 'ok')
            elif k in ('first_run', 'waiting', 'rerun', 'reset', 'wf_action', 'state'):
                out[k] = v
        return out

    def _deliver_action(self, p, oracle):
        from mistral import context as auth_context
        d = p.data
        verdict = oracle(self, d) if oracle else ('run', None)
        self.log.append(['action', self.id_ord.get(d['action_ex_id']), verdict[0]])
        self.current_origin = ('action', None)
        action = d['action']
        if verdict[0] == 'error':
            action = _scripted_action('error', verdict[1])
        elif verdict[0] == 'cancel':
            action = _scripted_action('cancel')
        elif verdict[0] == 'value':
            action = _scripted_action('value', verdict[1])
        elif verdict[0] == 'lost':
            return       # executor died: no result is ever sent
        auth_context.set_ctx(p.ctx)
        self._call('executor', self.real_executor.run_action, action, d['action_ex_id'],
                   d['safe_rerun'], d['exec_ctx'], False, d['target'], True, d['timeout'])

    def poll_store(self):
        """One pass of the scheduler's job-store poller."""
        self.log.append(['poll'])
        self.current_origin = ('poll', None)
        self._call('poll', self.scheduler._process_store_jobs)

    def restart(self):
        """Engine process restart: volatile state (in-memory jobs, spec caches) is lost."""
        from oslo_config import cfg
        from mistral.lang import parser as spec_parser
        from mistral.scheduler import default_scheduler
        self.log.append(['restart'])
        self.scheduler = default_scheduler.DefaultScheduler(cfg.CONF.scheduler)
        spec_parser.clear_caches()

    def clear_caches(self):
        from mistral.lang import parser as spec_parser
        spec_parser.clear_caches()

    # ------------------------------------------------------------------ observation
    def snapshot(self):
        """Committed rows, canonical: ids -> creation ordinals, no timestamps."""
        from mistral.db.v2 import api as db_api
        from mistral import context as auth_context
        auth_context.set_ctx(self.ctx)
        o = self.id_ord
        with db_api.transaction(read_only=True):
            wfs = sorted(db_api.get_workflow_executions(), key=lambda w: o.get(w.id, 0))
            tasks = sorted(db_api.get_task_executions(), key=lambda t: o.get(t.id, 0))
            acts = sorted(db_api.get_action_executions(), key=lambda a: o.get(a.id, 0))
            jobs = db_api.get_scheduled_jobs()
            snap = {
                'wfs': [{
                    'ord': o.get(w.id), 'id': w.id, 'name': w.workflow_name, 'state': w.state,
                    'state_info': w.state_info,
                    'parent_task': o.get(w.task_execution_id) if w.task_execution_id else None,
                    'root': o.get(w.root_execution_id) if w.root_execution_id else None,
                    'accepted': bool(w.accepted), 'output': _plain(w.output),
                    'context': _plain(w.context), 'input': _plain(w.input),
                    'params': _plain({k: v for k, v in (w.params or {}).items()}),
                    'backlog': len((w.runtime_context or {}).get('backlog_commands', []) or []),
                    'index': (w.runtime_context or {}).get('index'),
                } for w in wfs],
                'tasks': [{
                    'ord': o.get(t.id), 'id': t.id, 'wf': o.get(t.workflow_execution_id), 'name': t.name,
                    'state': t.state, 'state_info': t.state_info, 'processed': bool(t.processed),
                    'has_next': bool(t.has_next_tasks),
                    'next_tasks': sorted([list(x) for x in (t.next_tasks or [])], key=lambda x: (x[0], str(x[1]))),
                    'error_handled': bool(t.error_handled), 'in_context': _plain(t.in_context),
                    'published': _plain(t.published), 'unique_key': t.unique_key,
                    'rt': _plain(t.runtime_context), 'type': t.type,
                } for t in tasks],
                'actions': [{
                    'ord': o.get(a.id), 'id': a.id, 'task': o.get(a.task_execution_id), 'name': a.name,
                    'state': a.state, 'accepted': bool(a.accepted),
                    'index': (a.runtime_context or {}).get('index'), 'is_sync': a.is_sync,
                    'output': _plain(a.output), 'input': _plain(a.input),
                    'last_heartbeat': (a.last_heartbeat - BASE_TIME).total_seconds() if a.last_heartbeat else None,
                } for a in acts],
                'jobs': sorted([[j.func_name.split('.')[-1], j.key,
                                 int((j.execute_at - BASE_TIME).total_seconds()),
                                 j.captured_at is not None] for j in jobs], key=lambda x: json.dumps(x)),
            }
        snap['pending'] = sorted([p.kind + ':' + p.describe() for p in self.pending])
        return snap

    def quiescent(self):
        """Nothing deliverable and no job that can ever become due except the integrity timer."""
        if self.pending:
            return False
        for j in self.jobs():
            if not j.func_name.endswith('_check_and_fix_integrity'):
                return False
        return True


def _plain(x):
    if x is None:
        return None
    return json.loads(json.dumps(x, default=str))
