"""Stream `reverse`: reverse workflows, real code vs Mistral.Reverse.

 (i)  function level (`run_fn_chunk`): the REAL ReverseWorkflowController (continue_workflow /
      _find_next_commands / _find_task_specs_with_satisfied_dependencies / all_errors_handled, the graph
      search from the target, ReverseWorkflowSpec.get_task_requires) on generated specs with synthetic
      task rows in sqlite vs the model.
 (ii) engine level (`run_engine_chunk`): the real engine driven by harness.engine_driver under
      random / fifo / lifo schedules vs `Mistral.Reverse.step` after EVERY event (workflow state, every
      task row: state, processed, has_next, error_handled, next_tasks; multiset of pending deliveries).
      On the same traces the statement monitors (independent of the model): a task row appears / a task
      starts only when every task it requires has a row in SUCCESS; only tasks the target transitively
      requires get a row; at most one row (and one action) per task; at quiescence the workflow is final,
      SUCCESS only with every needed task succeeded once, ERROR only with a failed task.
"""
import json
import random

from harness import engine_run as er

NAMES = ['a', 'b', 'c', 'd', 'e', 'f', 'g', 'h']
LIVE = ['RUNNING', 'IDLE', 'WAITING', 'DELAYED', 'PAUSED']


# ----------------------------------------------------------------------------- generator
def gen_reverse(rng, p_cycle=0.0, p_defaults=0.12, p_bad_target=0.04, p_missing=0.0):
    """{'tasks': [{'name', 'requires': [..], 'form': 'list'|'str'}], 'defaults': [..], 'target': name|None}
    The definition order of the tasks is independent of the dependency order."""
    n = rng.choice([2, 3, 3, 4, 4, 5, 5, 6, 6, 7, 8])
    names = NAMES[:n]
    topo = names[:]
    rng.shuffle(topo)
    req = {x: [] for x in names}
    shape = rng.choice(['random', 'random', 'diamond', 'chain', 'wide'])
    for i, x in enumerate(topo):
        earlier = topo[:i]
        if not earlier:
            continue
        if shape == 'chain':
            k = 1 if rng.random() < 0.85 else 0
        elif shape == 'wide':
            k = rng.choice([0, 0, 1, 1, 2])
        else:
            k = rng.choice([0, 1, 1, 1, 2, 2, 3])
        req[x] = rng.sample(earlier, min(k, len(earlier)))
    if shape == 'diamond' and n >= 4:
        a, b, c, d = topo[0], topo[1], topo[2], topo[3]
        req[b] = sorted(set(req[b]) | {a})
        req[c] = sorted(set(req[c]) | {a})
        req[d] = sorted(set(req[d]) | {b, c})
    if rng.random() < p_cycle:
        def anc(x, seen):
            for y in req[x]:
                if y not in seen:
                    seen.add(y)
                    anc(y, seen)
            return seen
        pairs = [(a, x) for x in names for a in anc(x, set())]
        r = rng.random()
        if r < 0.15 or not pairs:
            x = rng.choice(names)
            req[x] = req[x] + [x]          # a task that names itself: get_task_requires drops it
        else:
            a, x = rng.choice(pairs)       # x transitively requires a: make a require x
            req[a] = req[a] + [x]
    defaults = []
    if rng.random() < p_defaults:
        roots = [x for x in names if not req[x]]
        if roots:
            defaults = [rng.choice(roots)]
    tasks = []
    order = names[:]
    rng.shuffle(order)
    for x in order:
        r = list(req[x])
        rng.shuffle(r)
        tasks.append({'name': x, 'requires': r, 'form': 'str' if len(r) == 1 and rng.random() < 0.3 else 'list'})
    def depth(x, seen=()):
        if x in seen:
            return 0
        return 1 + max([depth(y, seen + (x,)) for y in req[x] if y != x] or [0])
    target = rng.choice(names)
    if rng.random() < 0.7:
        deep = sorted(names, key=lambda x: -depth(x))
        target = deep[0] if rng.random() < 0.6 else rng.choice(deep[:max(1, n // 2)])
    if rng.random() < p_bad_target:
        target = rng.choice([None, 'zz'])
    if rng.random() < p_missing:
        rng.choice(tasks)['requires'].append('zz')      # a required name that is not a task
    prog = {'tasks': tasks, 'defaults': defaults, 'target': target}
    prog['cyclic'] = bool(find_cycle(prog))
    return prog


def requires_of(prog, name):
    """independent reading of get_task_requires"""
    t = [x for x in prog['tasks'] if x['name'] == name][0]
    return sorted((set(t['requires']) | set(prog['defaults'])) - {name})


def closure(prog):
    """independent reading of 'the tasks the target depends on' (None: no such target)"""
    names = {t['name'] for t in prog['tasks']}
    if prog['target'] not in names:
        return None
    seen = set()
    todo = [prog['target']]
    while todo:
        x = todo.pop()
        if x in seen or x not in names:
            continue
        seen.add(x)
        todo.extend(requires_of(prog, x))
    return sorted(seen)


def find_cycle(prog):
    names = [t['name'] for t in prog['tasks']]
    color = {}

    def visit(x):
        color[x] = 1
        for y in requires_of(prog, x):
            if y not in names:
                continue
            if color.get(y) == 1:
                return True
            if color.get(y) is None and visit(y):
                return True
        color[x] = 2
        return False
    return any(color.get(x) is None and visit(x) for x in names)


def render_yaml(prog):
    lines = ["version: '2.0'", 'wf:', '  type: reverse']
    if prog['defaults']:
        lines += ['  task-defaults:', '    requires: [%s]' % ', '.join(prog['defaults'])]
    lines.append('  tasks:')
    for t in prog['tasks']:
        lines.append('    %s:' % t['name'])
        lines.append('      action: std.noop')
        if t['requires']:
            if t.get('form') == 'str' and len(t['requires']) == 1:
                lines.append('      requires: %s' % t['requires'][0])
            else:
                lines.append('      requires: [%s]' % ', '.join(t['requires']))
    return '\n'.join(lines) + '\n'


def spec_json(prog):
    return {'tasks': [{'name': t['name'], 'requires': t['requires']} for t in prog['tasks']],
            'defaultRequires': prog['defaults'], 'target': prog['target']}


# ----------------------------------------------------------------------------- definition-time validation
def real_validate(yaml_text):
    """the REAL semantic validation of the definition: 'ok' | 'task-not-found' | 'requires-cycle' | other"""
    from harness import boot
    boot.boot()          # import-order trap: mistral.tests.unit first
    from mistral.lang import parser as spec_parser
    from mistral import exceptions as exc
    try:
        spec_parser.get_workflow_list_spec_from_yaml(yaml_text)
        return 'ok'
    except exc.InvalidModelException as e:
        m = str(e)
        if 'not found' in m:
            return 'task-not-found'
        if "cyclic 'requires'" in m:
            return 'requires-cycle'
        return 'other:' + m[:80]
    except exc.MistralException as e:
        return 'other:%s:%s' % (type(e).__name__, str(e)[:80])


def check_validation(ctx, drv, prog, yaml_text):
    """real validator vs Mistral.Reverse.checkIntegrity; returns the real verdict"""
    rv = real_validate(yaml_text)
    mv = drv.call('reverse.integrity', {'spec': spec_json(prog)})
    ctx.count('reverse-valid', 'verdict:' + rv.split(':')[0])
    ctx.evaluated('reverse-valid', [yaml_text], nontrivial=bool(prog['cyclic']) or rv != 'ok'
                  or any(len(t['requires']) > 1 for t in prog['tasks']))
    if mv != rv:
        ctx.disagree('reverse-valid', {'yaml': yaml_text, 'spec': spec_json(prog), 'cyclic': prog['cyclic']}, mv, rv)
    return rv


# ----------------------------------------------------------------------------- (i) function level
def gen_rows(rng, prog):
    """synthetic rows: either arbitrary, or a plausible snapshot of a run (a downward-closed set of
    succeeded tasks + some live / failed ones)"""
    names = [t['name'] for t in prog['tasks']]
    rows = []
    mode = rng.random()
    if mode < 0.45:
        for x in names:
            if rng.random() < 0.35:
                continue
            reps = 2 if rng.random() < 0.04 else 1
            for _ in range(reps):
                st = rng.choice(['SUCCESS'] * 5 + ['ERROR', 'ERROR', 'CANCELLED', 'SKIPPED'] + LIVE)
                rows.append({'name': x, 'state': st})
    else:
        done = set()
        for _ in range(rng.randint(0, len(names))):
            cand = [x for x in names if x not in done and all(r in done for r in requires_of(prog, x))]
            if not cand:
                break
            done.add(rng.choice(cand))
        for x in done:
            rows.append({'name': x, 'state': 'SUCCESS'})
        for x in names:
            if x in done:
                continue
            if all(r in done for r in requires_of(prog, x)) and rng.random() < 0.5:
                rows.append({'name': x, 'state': rng.choice(['RUNNING', 'IDLE', 'ERROR', 'RUNNING', 'SUCCESS'])})
    rng.shuffle(rows)
    return rows


class ReverseImpl(object):
    """a real workflow execution row + the real controller for one program"""

    def __init__(self, prog):
        from mistral.lang import parser as spec_parser
        from mistral.db.v2 import api as db_api
        from mistral.workflow import base as wf_base
        self.db_api = db_api
        self.wf_base = wf_base
        self.yaml = render_yaml(prog)
        # validate=False: the controller is also exercised on definitions the validator rejects (stored
        # definitions are loaded without validation)
        self.wf_spec = spec_parser.get_workflow_list_spec_from_yaml(self.yaml, validate=False).get_workflows()[0]
        params = {} if prog['target'] is None else {'task_name': prog['target']}
        with db_api.transaction():
            db_api.delete_task_executions()
            db_api.delete_workflow_executions()
            wf_ex = db_api.create_workflow_execution({
                'name': 'wf', 'workflow_name': 'wf', 'spec': self.wf_spec.to_dict(),
                'state': 'RUNNING', 'params': params, 'input': {}, 'context': {}, 'output': {}})
            self.wf_ex_id = wf_ex.id

    def requires(self):
        return [[n, sorted(set(self.wf_spec.get_task_requires(ts)))]
                for n, ts in ((t.get_name(), t) for t in self.wf_spec.get_tasks())]

    def set_rows(self, rows, wf_state):
        db_api = self.db_api
        with db_api.transaction():
            db_api.delete_task_executions()
            for r in rows:
                db_api.create_task_execution({
                    'name': r['name'], 'workflow_execution_id': self.wf_ex_id, 'workflow_name': 'wf',
                    'state': r['state'], 'next_tasks': [],
                    'spec': self.wf_spec.get_tasks()[r['name']].to_dict(),
                    'in_context': {}, 'published': {}, 'runtime_context': {}})
            wf_ex = db_api.get_workflow_execution(self.wf_ex_id)
            wf_ex.state = wf_state

    def db_order_rows(self):
        db_api = self.db_api
        with db_api.transaction(read_only=True):
            lst = db_api.get_task_executions(workflow_execution_id=self.wf_ex_id, sort_keys=[])
            return [{'name': t.name, 'state': t.state} for t in lst]

    def observe(self, via_task):
        from mistral import exceptions as exc
        from mistral.workflow import commands
        from networkx.algorithms import traversal
        db_api = self.db_api
        out = {}
        with db_api.transaction(read_only=True):
            wf_ex = db_api.get_workflow_execution(self.wf_ex_id)
            ctrl = self.wf_base.get_controller(wf_ex, self.wf_spec)
            rows = db_api.get_task_executions(workflow_execution_id=self.wf_ex_id, sort_keys=[])
            task_ex = (rows[0] if rows else object()) if via_task else None
            try:
                cmds = ctrl.continue_workflow(task_ex=task_ex)
                res = []
                for c in cmds:
                    if isinstance(c, commands.RunExistingTask):
                        res.append(['runExisting', c.task_ex.name])
                    elif isinstance(c, commands.RunTask):
                        res.append(['runTask', c.task_spec.get_name()])
                    else:
                        res.append(['other', type(c).__name__])
                out['cmds'] = sorted(res)
            except exc.WorkflowException:
                out['cmds'] = 'invalid-target'
            try:
                out['satisfied'] = sorted(t.get_name() for t in ctrl._find_task_specs_with_satisfied_dependencies())
            except exc.WorkflowException:
                out['satisfied'] = 'invalid-target'
            try:
                g = ctrl._build_graph(self.wf_spec.get_tasks())
                out['needed'] = sorted(t.get_name() for t in traversal.dfs_postorder_nodes(
                    g.reverse(), ctrl._get_target_task_specification()))
            except exc.WorkflowException:
                out['needed'] = 'invalid-target'
            out['allErrorsHandled'] = bool(ctrl.all_errors_handled())
        return out


def _canon_model_fn(mo, needed):
    def srt(x):
        return sorted(x) if isinstance(x, list) else x
    return {'cmds': srt(mo['cmds']), 'satisfied': srt(mo['satisfied']), 'needed': srt(needed),
            'allErrorsHandled': mo['allErrorsHandled']}


def run_fn_chunk(ctx, n_programs, rows_per_program):
    from harness import engine_driver
    engine_driver.EngineWorld(seed='%s-%s' % (ctx.seed, getattr(ctx, 'chunk', 0)))
    drv = ctx.driver()
    for pi in range(n_programs):
        prog = gen_reverse(ctx.rng, p_cycle=0.25, p_missing=0.05)
        check_validation(ctx, drv, prog, render_yaml(prog))
        try:
            impl = ReverseImpl(prog)
        except Exception as e:
            ctx.count('reverse-fn', 'invalid-def:' + type(e).__name__)
            continue
        sj = spec_json(prog)
        ctx.count('reverse-fn', 'cyclic' if prog['cyclic'] else 'acyclic')
        mr = drv.call('reverse.requires', {'spec': sj})
        ir = impl.requires()
        ctx.evaluated('reverse-fn', None)
        if not isinstance(mr, list) or sorted([n, sorted(set(r))] for n, r in mr) != sorted(ir):
            ctx.disagree('reverse-fn', {'fn': 'requires', 'yaml': impl.yaml}, mr, ir)
        needed = drv.call('reverse.needed', {'spec': sj})
        for ri in range(rows_per_program):
            rows = gen_rows(ctx.rng, prog) if ri else []
            wf_state = ctx.rng.choice(['RUNNING'] * 8 + ['SUCCESS', 'ERROR', 'PAUSED', 'CANCELLED'])
            via = ctx.rng.random() < 0.6
            impl.set_rows(rows, wf_state)
            dbrows = impl.db_order_rows()
            mo = drv.call('reverse.nextCommands', {'spec': sj, 'rows': dbrows, 'viaTask': via, 'wf': wf_state})
            io = impl.observe(via)
            if not isinstance(mo, dict) or 'cmds' not in mo:
                ctx.disagree('reverse-fn', {'yaml': impl.yaml, 'rows': dbrows}, mo, 'model refused the input')
                continue
            mm = _canon_model_fn(mo, needed)
            nt = isinstance(io['cmds'], list) and any(c[0] == 'runTask' for c in io['cmds'])
            ctx.count('reverse-fn', 'cmds:%s' % (io['cmds'] if isinstance(io['cmds'], str) else min(len(io['cmds']), 4)))
            ctx.evaluated('reverse-fn', [sj, dbrows, via, wf_state], nontrivial=nt or bool(dbrows))
            if ctx.rng.random() < 0.002:
                ctx.sample({'stream': 'reverse-fn', 'yaml': impl.yaml, 'target': prog['target'], 'rows': dbrows,
                            'viaTask': via, 'wf': wf_state, 'impl': io})
            if mm != io:
                ctx.disagree('reverse-fn', {'yaml': impl.yaml, 'spec': sj, 'rows': dbrows, 'viaTask': via,
                                            'wf': wf_state}, mm, io)


# ----------------------------------------------------------------------------- (ii) engine level
def _tname(m):
    if m is None or m.get('t') is None:
        return '?'
    return m['t'] if not m.get('occ') else '%s#%d' % (m['t'], m['occ'])


def fmt_real(i):
    if i is None:
        return '?'
    k = i['k']
    if k == 'postCheck':
        return k
    s = '%s:%s' % (k, _tname(i))
    if k in ('rpcStartTask', 'postStartTask') and not i['firstRun']:
        s += ':existing'
    if k == 'rpcResult':
        s += ':true' if i['ok'] else ':false'
    return s


def real_obs(world, mapper):
    s = world.snapshot()
    if not s['wfs']:
        return {'wf': 'IDLE', 'tasks': [], 'pending': [], 'backlog': 0}, s
    occ = {}
    rows = []
    for t in s['tasks']:
        k = occ.get(t['name'], 0)
        occ[t['name']] = k + 1
        nm = t['name'] if k == 0 else '%s#%d' % (t['name'], k)
        rows.append([nm, t['state'], t['processed'], t['has_next'], t['error_handled'],
                     sorted(x[0] for x in t['next_tasks'])])
    pend = []
    for p in world.pending:
        if p.kind == 'posttx':
            for op in p.data:
                pend.append(fmt_real(mapper.op_item(op)))
        else:
            pend.append(fmt_real(mapper.item(('p', p))))
    for j in world.jobs():
        if j.func_name.endswith('_check_and_fix_integrity'):
            continue
        pend.append(fmt_real(mapper.item(('job', j))))
    return {'wf': s['wfs'][0]['state'], 'tasks': sorted(rows), 'pending': sorted(pend),
            'backlog': s['wfs'][0]['backlog']}, s


def model_obs(o):
    return {'wf': o['wf'], 'tasks': sorted([[t[0], t[1], t[2], t[3], t[4], sorted(t[5])] for t in o['tasks']]),
            'pending': sorted(o['pending']), 'backlog': 0}     # the model has no backlog: it must stay empty


def run_case(prog, table, policy, seed, max_steps=400, ops=None):
    from harness.engine_driver import EngineWorld
    from harness import core_stream
    w = EngineWorld(seed=seed)
    y = render_yaml(prog)
    w.create_workflows(y)
    rng = random.Random(seed)
    oracle = er.Oracle(table)
    mapper = core_stream.Mapper(w)
    params = {} if prog['target'] is None else {'task_name': prog['target']}
    root = w.start_workflow('wf', {}, **params)
    events = [{'ev': 'start'}]
    o, s = real_obs(w, mapper)
    robs, snaps = [o], [s]
    step = 0
    unsupported = None
    ops = sorted([dict(o) for o in (ops or [])], key=lambda o: o['at'])
    oi = 0
    while step < max_steps:
        while root is not None and oi < len(ops) and ops[oi]['at'] <= step:
            o = ops[oi]
            oi += 1
            if o['op'] == 'pause':
                w.op('pause_workflow', root)
                events.append({'ev': 'pause'})
            elif o['op'] == 'resume':
                w.op('resume_workflow', root)
                events.append({'ev': 'resume'})
            elif o['op'] == 'stop':
                w.op('stop_workflow', root, o['state'], 'msg')
                events.append({'ev': 'stop', 'state': o['state']})
            ob, sn = real_obs(w, mapper)
            robs.append(ob)
            snaps.append(sn)
        en = [e for e in w.enabled() if not (e[0] == 'job' and e[1].func_name.endswith('_check_and_fix_integrity'))]
        if not en:
            if root is not None and oi < len(ops):
                ops[oi]['at'] = step          # nothing to deliver: the remaining operator commands fire now
                continue
            break
        it = er.pick(rng, policy, en)
        mi = mapper.item(it)
        if mi is None or mi.get('t', 'x') is None or mi['k'] not in (
                'postStartTask', 'rpcStartTask', 'postRunAction', 'runAction', 'rpcResult', 'postCheck') \
                or mi.get('occ'):
            unsupported = [w.describe(it), mi]
            break
        if mi.get('firstRun') is False:
            mi = dict(mi, k={'postStartTask': 'postStartExisting', 'rpcStartTask': 'rpcStartExisting'}[mi['k']])
        if it[0] == 'p' and it[1].kind == 'action':
            w.deliver(it, oracle=oracle)
            res = [p for p in w.pending if p.kind == 'rpc' and p.data['method'] == 'on_action_complete']
            ok = bool(res[-1].data['kwargs']['result'].is_success()) if res else True
            events.append({'ev': 'execute', 't': mi['t'], 'ok': ok})
        else:
            item = {'k': mi['k'], 't': mi.get('t')}
            if mi['k'] == 'rpcResult':
                item['ok'] = mi['ok']
            w.deliver(it, oracle=oracle)
            events.append({'ev': 'deliver', 'item': item})
        o, s = real_obs(w, mapper)
        robs.append(o)
        snaps.append(s)
        step += 1
    return {'yaml': y, 'events': events, 'real': robs, 'snaps': snaps, 'unsupported': unsupported,
            'errors': list(w.errors), 'exhausted': step >= max_steps, 'root': root}


def monitors(prog, r):
    """the statement of C04 (reverse clause) read on the real trace; yields (kind, detail)"""
    names = {t['name'] for t in prog['tasks']}
    need = closure(prog)
    seen_ids = set()
    running_ids = set()
    for k, s in enumerate(r['snaps']):
        by_name = {}
        for t in s['tasks']:
            by_name.setdefault(t['name'], []).append(t)
        succ = {n for n, ts in by_name.items() if any(t['state'] == 'SUCCESS' for t in ts)}
        for t in s['tasks']:
            new = t['id'] not in seen_ids
            started = t['state'] != 'IDLE' and t['id'] not in running_ids
            if new:
                seen_ids.add(t['id'])
            if started:
                running_ids.add(t['id'])
            if (new or started) and t['name'] in names:
                missing = [q for q in requires_of(prog, t['name']) if q not in succ]
                if missing:
                    yield ('started-before-requirement-succeeded',
                           {'step': k, 'task': t['name'], 'missing': missing, 'created': new, 'state': t['state']})
            if new and (need is None or t['name'] not in need):
                yield ('unneeded-task-run', {'step': k, 'task': t['name'], 'needed': need})
        for n, ts in by_name.items():
            if len(ts) > 1:
                yield ('task-run-more-than-once', {'step': k, 'task': n, 'rows': len(ts)})
        per_task = {}
        for a in s['actions']:
            per_task[a['task']] = per_task.get(a['task'], 0) + 1
        for tid, c in per_task.items():
            if c > 1:
                yield ('task-action-run-more-than-once', {'step': k, 'task_ord': tid, 'actions': c})
    if r['exhausted'] or r['unsupported']:
        return
    ops = r.get('ops') or []
    # a stopped run ends as it was told to, a run left paused does not end: the outcome clause is about
    # runs that were left to finish (pause followed by resume included)
    if any(o['op'] == 'stop' for o in ops) or \
            sum(1 for o in ops if o['op'] == 'pause') > sum(1 for o in ops if o['op'] == 'resume'):
        for e in r['errors']:
            if not e['declared']:
                yield ('undeclared-error', {'where': e['where'], 'type': e['type'], 'msg': e['msg'][:200]})
        return
    s = r['snaps'][-1]
    if not s['wfs']:
        if need is not None:
            yield ('start-refused-with-valid-target', {'errors': [e['type'] for e in r['errors']]})
        return
    st = s['wfs'][0]['state']
    states = {}
    for t in s['tasks']:
        states.setdefault(t['name'], []).append(t['state'])
    if st not in ('SUCCESS', 'ERROR'):
        yield ('not-finished-at-quiescence', {'wf': st, 'tasks': states})
    elif st == 'SUCCESS':
        miss = [n for n in (need or []) if states.get(n) != ['SUCCESS']]
        if miss:
            yield ('success-without-needed-task', {'missing': miss, 'tasks': states})
    else:
        if not any('ERROR' in v for v in states.values()):
            yield ('error-without-failed-task', {'tasks': states})
    for e in r['errors']:
        if not e['declared']:
            yield ('undeclared-error', {'where': e['where'], 'type': e['type'], 'msg': e['msg'][:200]})


def signature(kind, prog):
    return {'stream': 'reverse', 'kind': kind, 'cyclic_requires': bool(prog['cyclic'])}


def check_case(ctx, drv, prog, table, policy, seed, stream='reverse', ops=None):
    rv = check_validation(ctx, drv, prog, render_yaml(prog))
    if rv != 'ok':
        ctx.count(stream, 'definition-rejected:' + rv.split(':')[0])
        return None
    ops = ops or []
    r = run_case(prog, table, policy, seed, ops=ops)
    r['ops'] = ops
    for o in ops:
        ctx.count(stream, 'op:' + o['op'])
    case = {'stream': 'reverse', 'program': prog, 'yaml': r['yaml'], 'oracle': table, 'policy': policy, 'seed': seed,
            'ops': ops}
    hits = 0
    for kind, detail in monitors(prog, r):
        hits += 1
        ctx.count(stream, 'hit:' + kind)
        ctx.violation('C04 reverse monitor %s: %s' % (kind, json.dumps(detail, default=str)[:300]),
                      dict(case, hit=[kind, detail], events=r['events'][:200]), signature(kind, prog))
    if r['unsupported']:
        ctx.count(stream, 'unsupported-item')
        ctx.disagree(stream, dict(case, events=r['events']), 'an item Mistral.Reverse does not have',
                     json.dumps(r['unsupported'], default=str)[:300])
        return r
    mo = drv.call('reverse.run', {'spec': spec_json(prog), 'events': r['events']})
    ctx.count(stream, 'policy:' + policy)
    ctx.count(stream, 'events', len(r['events']))
    ctx.count(stream, 'tasks:%d' % len(prog['tasks']))
    ctx.count(stream, 'final:' + r['real'][-1]['wf'])
    if prog['cyclic']:
        ctx.count(stream, 'cyclic')
    need = closure(prog)
    if need is not None and len(need) < len(prog['tasks']):
        ctx.count(stream, 'has-unneeded-tasks')
    ctx.evaluated(stream, [r['yaml'], prog['target'], table, policy, seed, ops],
                  nontrivial=len(r['real'][-1]['tasks']) >= 2 or bool(table) or bool(ops))
    if not isinstance(mo, list):
        ctx.disagree(stream, dict(case, events=r['events']), mo, 'model refused the input')
        return r
    for k, (m, real) in enumerate(zip(mo, r['real'])):
        mm = model_obs(m)
        if mm != real:
            diff = {key: [mm[key], real[key]] for key in mm if mm[key] != real[key]}
            ctx.disagree(stream, dict(case, step=k, event=r['events'][k], events_so_far=r['events'][:k + 1]),
                         {k2: v[0] for k2, v in diff.items()}, {k2: v[1] for k2, v in diff.items()})
            break
    if ctx.rng.random() < 0.01:
        ctx.sample({'stream': stream, 'yaml': r['yaml'], 'target': prog['target'], 'events': r['events'][:10],
                    'final': r['real'][-1]})
    return r


def gen_table(rng, prog, p_err):
    tbl = {}
    for t in prog['tasks']:
        if rng.random() < p_err:
            tbl['%s:0' % t['name']] = ['error']
    return tbl


def run_corpus(ctx, drv):
    import glob
    import os
    from vlib import core
    for f in sorted(glob.glob(os.path.join(core.VERIF, 'corpus', 'C04', 'reverse-*.json'))):
        c = json.load(open(f))
        ctx.count('reverse', 'corpus')
        check_case(ctx, drv, c['program'], c['oracle'], c['policy'], c['seed'], ops=c.get('ops'))


def gen_ops(rng, p_pause=0.35, p_stop=0.12):
    ops = []
    if rng.random() < p_pause:
        k1 = rng.randint(0, 25)
        ops.append({'at': k1, 'op': 'pause'})
        if rng.random() < 0.85:
            ops.append({'at': rng.choice([k1 + rng.randint(0, 12), 10 ** 6]), 'op': 'resume'})
        if rng.random() < 0.2:
            k2 = k1 + rng.randint(1, 20)
            ops.append({'at': k2, 'op': 'pause'})
            ops.append({'at': rng.choice([k2 + rng.randint(0, 8), 10 ** 6]), 'op': 'resume'})
    if rng.random() < p_stop:
        ops.append({'at': rng.randint(0, 30), 'op': 'stop', 'state': rng.choice(['SUCCESS', 'ERROR', 'CANCELLED'])})
    return sorted(ops, key=lambda o: o['at'])


def run_engine_chunk(ctx, n_programs, p_cycle=0.08, p_err=None):
    drv = ctx.driver()
    rng = ctx.rng
    if getattr(ctx, 'chunk', 0) == 0:
        run_corpus(ctx, drv)
    for i in range(n_programs):
        prog = gen_reverse(rng, p_cycle=p_cycle, p_missing=0.02)
        pe = p_err if p_err is not None else rng.choice([0.0, 0.1, 0.1, 0.25])
        table = gen_table(rng, prog, pe)
        policy = rng.choice(['random', 'random', 'fifo', 'lifo'])
        seed = rng.getrandbits(32)
        try:
            check_case(ctx, drv, prog, table, policy, seed, ops=gen_ops(rng))
        except Exception as e:
            from mistral import exceptions as exc
            if isinstance(e, exc.MistralException):
                ctx.count('reverse', 'rejected:' + type(e).__name__)
                continue
            raise


def run_chunk(ctx, fn_programs, rows_per_program, engine_programs, p_err=None):
    """both tiers in one worker (one boot of the engine)"""
    run_fn_chunk(ctx, fn_programs, rows_per_program)
    run_engine_chunk(ctx, engine_programs, p_err=p_err)


def replay(ctx, rep):
    r = rep['replay']
    res = check_case(ctx, ctx.driver(), r['program'], r['oracle'], r['policy'], r['seed'], ops=r.get('ops'))
    if res is None:
        print('replay: the definition is rejected at creation')
        return
    print('replay: reverse workflow, target %s, final %s, %d events' % (
        r['program']['target'], res['real'][-1]['wf'], len(res['events'])))
