"""C14 Tie B, constructor level: Lean `Mistral.SchemaCtor.ctor*` (Model/SchemaCtor.lean) vs the real
constructors (`__init__` + `validate_schema` + `validate_semantics`) of the specification classes.

stream `ctor`: every (spec class, value) pair of the `schema` stream whose class has a constructor model —
accepted by the schema or not — is built by the real code (`instantiate_spec(root class, copy, validate=True)`;
for a workflow: the concrete class + `WorkflowSpec.validate_semantics`, i.e. without the graph checks that
Model/Lang.lean models) and by the model.  Compared: outcome class (specification / definition error /
internal error) and, for a specification, the observation (getters).  The oracle tables of the model
(`_parse_cmd_and_input`, one `with-items` entry, `expr.validate`, `is_uuid_like`) are computed by the real
functions for every string that occurs in the value.

Monitor: an internal error of the real constructor on ANY value is a violation (for the classes whose constructor
reads `data['name']` without a schema guarantee — workflows — only when `name` is present: the list / workbook
constructors inject it).
"""
import json

from harness import lang_env as E
from harness import schema_stream as S

MODEL_OF = {'RetrySpec': 'RetrySpec', 'PoliciesSpec': 'PoliciesSpec', 'PublishSpec': 'PublishSpec',
            'OnClauseSpec': 'OnClauseSpec', 'TaskDefaultsSpec': 'TaskDefaultsSpec',
            'DirectWorkflowTaskSpec': 'TaskSpec', 'ReverseWorkflowTaskSpec': 'TaskSpec',
            'DirectWorkflowSpec': 'WorkflowSpec', 'ReverseWorkflowSpec': 'WorkflowSpec',
            'WorkflowListSpec': 'WorkflowListSpec', 'ActionSpec': 'ActionSpec', 'ActionListSpec': 'ActionListSpec',
            'WorkbookSpec': 'WorkbookSpec'}
# a model `ok` may be a real definition error: the members go through the graph checks of Model/Lang.lean too
GRAPH_LATER = ('WorkflowListSpec', 'WorkbookSpec')


# ------------------------------------------------------------------ oracle
def strings_of(v, acc, depth=0):
    if depth > 60:
        return
    if isinstance(v, str):
        acc.add(v)
    elif isinstance(v, dict):
        for k, x in v.items():
            if isinstance(k, str):
                acc.add(k)
            strings_of(x, acc, depth + 1)
    elif isinstance(v, list):
        for x in v:
            strings_of(x, acc, depth + 1)


def oracle_for(st, v):
    base = st['lang_base']
    exc = st['exc']
    from mistral import expressions as expr
    from mistral.lang.v2 import tasks as tasks_v2
    from oslo_utils import uuidutils
    strs = set()
    strings_of(v, strs)
    cmd = []
    more = set()
    for s in sorted(strs):
        if ' ' in s:
            try:
                name, params = base.BaseSpec._parse_cmd_and_input(s)
                cmd.append([s, [name, S.enc(params)]])
                strings_of(params, more)
            except exc.MistralException:
                cmd.append([s, None])
    wi = []
    for s in sorted(strs):
        obj = tasks_v2.TaskSpec.__new__(tasks_v2.TaskSpec)
        obj._data = {'with-items': s}
        try:
            d = obj._get_with_items_as_dict()
            (var, arr), = d.items()
            wi.append([s, [var, S.enc(arr)]])
        except exc.MistralException:
            wi.append([s, None])
    ex = []
    for s in sorted(strs | more):
        try:
            expr.validate(s)
        except exc.MistralException:
            ex.append([s, False])
    uu = [s for s in sorted(strs) if uuidutils.is_uuid_like(s)]
    return {'cmd': cmd, 'wi': wi, 'expr': ex, 'uuid': uu}


# ------------------------------------------------------------------ the real constructors
def enc_obs(v):
    from mistral_lib import utils
    if v is utils.NotDefined:
        return {'x': 'NotDefined'}
    if isinstance(v, dict):
        return {'o': [[k if isinstance(k, str) else {'ns': S.key_repr(k)}, enc_obs(x)] for k, x in v.items()]}
    if isinstance(v, (list, tuple)):
        return [enc_obs(x) for x in v]
    return S.enc(v)


def obs_retry(r):
    if r is None:
        return None
    return {'count': r.get_count(), 'delay': r.get_delay(), 'break-on': r.get_break_on(), 'continue-on': r.get_continue_on()}


def obs_policies(p):
    return {'retry': obs_retry(p.get_retry()), 'wait-before': p.get_wait_before(), 'wait-after': p.get_wait_after(),
            'timeout': p.get_timeout(), 'pause-before': p.get_pause_before(), 'concurrency': p.get_concurrency(),
            'fail-on': p.get_fail_on()}


def obs_publish(p):
    if p is None:
        return None
    return {'branch': p.get_branch(), 'global': p.get_global(), 'atomic': p.get_atomic()}


def obs_clause(c):
    if c is None:
        return None
    return {'publish': obs_publish(c.get_publish()), 'next': [[t[0], t[1], t[2]] for t in c.get_next()]}


def obs_clauses(t):
    return {'on-complete': obs_clause(t.get_on_complete()), 'on-success': obs_clause(t.get_on_success()),
            'on-error': obs_clause(t.get_on_error()), 'on-skip': obs_clause(t.get_on_skip())}


def obs_task_defaults(t):
    if t is None:
        return None
    return {'policies': obs_policies(t.get_policies()), 'on': obs_clauses(t), 'safe-rerun': t.get_safe_rerun(),
            'requires': t._requires}


def obs_task(t):
    o = {'name': t.get_name(), 'action': t.get_action_name(), 'workflow': t.get_workflow_name(), 'input': t.get_input(),
         'with-items': t.get_with_items(), 'policies': obs_policies(t.get_policies()), 'target': t.get_target(),
         'keep-result': t.get_keep_result(), 'safe-rerun': t.get_safe_rerun()}
    if hasattr(t, 'get_join'):
        o['join'] = t.get_join()
        o['on'] = obs_clauses(t)
    else:
        o['requires'] = t.get_requires()
    return o


def obs_action(a):
    return {'name': a.get_name(), 'base': a.get_base(), 'base-input': a.get_base_input(), 'input': a.get_input(),
            'output': a.get_output()}


def obs_workflow(w):
    return {'name': w.get_name(), 'type': w.get_type(), 'input': w.get_input(),
            'task-defaults': obs_task_defaults(w.get_task_defaults()),
            'tasks': {k: obs_task(w.get_tasks()[k]) for k in w.get_tasks().item_keys()}}


def build_real(st, model_cls, v):
    """-> observation (python) of the specification the real code builds."""
    base = st['lang_base']
    from mistral.lang.v2 import on_clause, policies, publish, retry_policy, task_defaults, tasks, workflows
    if model_cls == 'RetrySpec':
        return obs_retry(base.instantiate_spec(retry_policy.RetrySpec, v, True))
    if model_cls == 'PoliciesSpec':
        return obs_policies(base.instantiate_spec(policies.PoliciesSpec, v, True))
    if model_cls == 'PublishSpec':
        return obs_publish(base.instantiate_spec(publish.PublishSpec, v, True))
    if model_cls == 'OnClauseSpec':
        return obs_clause(base.instantiate_spec(on_clause.OnClauseSpec, v, True))
    if model_cls == 'TaskDefaultsSpec':
        return obs_task_defaults(base.instantiate_spec(task_defaults.TaskDefaultsSpec, v, True))
    if model_cls == 'TaskSpec':
        return obs_task(base.instantiate_spec(tasks.TaskSpec, v, True))
    if model_cls == 'ActionSpec':
        from mistral.lang.v2 import actions
        return obs_action(base.instantiate_spec(actions.ActionSpec, v, True))
    if model_cls == 'ActionListSpec':
        from mistral.lang.v2 import actions
        spec = actions.ActionListSpec(v, True)
        return {a.get_name(): obs_action(a) for a in spec.get_actions()}
    if model_cls == 'WorkbookSpec':
        from mistral.lang.v2 import workbook
        spec = base.instantiate_spec(workbook.WorkbookSpec, v, True)
        acts = spec.get_actions()
        wfs = spec.get_workflows()
        return {'name': spec.get_name(),
                'actions': None if acts is None else {k: obs_action(acts[k]) for k in acts.item_keys()},
                'workflows': None if wfs is None else {k: obs_workflow(wfs[k]) for k in wfs.item_keys()}}
    if model_cls == 'WorkflowSpec':
        # instantiate_spec up to the constructor, then the name check only (graph checks: Model/Lang.lean)
        exc = st['exc']
        if not isinstance(v, dict):
            raise exc.InvalidModelException('A specification with polymorphic key must be backed by a dictionary')
        typ = v.get('type', 'direct')
        if isinstance(typ, (dict, list)):
            raise exc.InvalidModelException("Invalid value of 'type'")
        cls = None
        for c in (workflows.DirectWorkflowSpec, workflows.ReverseWorkflowSpec):
            if c._polymorphic_value == typ:
                cls = c
        if cls is None:
            raise exc.DSLParsingException('Failed to find a specification class to instantiate')
        spec = cls(v, True)
        workflows.WorkflowSpec.validate_semantics(spec)
        return obs_workflow(spec)
    raise KeyError(model_cls)


def canon_t(t):
    """transport value with dict entries sorted and folded (later wins), for an order-insensitive comparison."""
    if isinstance(t, list):
        return [canon_t(x) for x in t]
    if isinstance(t, dict) and 'o' in t:
        d = {}
        for k, x in t['o']:
            d[json.dumps(k, sort_keys=True)] = [k, canon_t(x)]
        return {'o': [d[k] for k in sorted(d)]}
    return t


def run(ctx, st, recs, budget):
    """recs: key -> {'cls', 'doc', 'py'} (python value kept by the schema stream)."""
    import time
    t0 = time.time()
    drv = ctx.driver()
    keys = [k for k in sorted(recs) if recs[k]['cls'] in MODEL_OF and 'pyv' in recs[k]]
    ctx.rng.shuffle(keys)
    prio = {'corner': 0, 'recorded': 1, 'role': 1, 'cross': 2}
    keys.sort(key=lambda k: prio.get(recs[k]['src'], 2))
    todo = []
    for i, k in enumerate(keys):
        if time.time() - t0 > budget:
            ctx.count('ctor', 'not-run-time-box', len(keys) - i)
            break
        r = recs[k]
        mcls = MODEL_OF[r['cls']]
        v = r['pyv']
        if mcls == 'TaskSpec' and isinstance(v, dict) and 'type' in v and isinstance(v['type'], str) and \
                v['type'] != {'DirectWorkflowTaskSpec': 'direct', 'ReverseWorkflowTaskSpec': 'reverse'}[r['cls']]:
            # the same value is in the stream under the class its `type` selects
            continue
        try:
            kind, det, obs = E.guarded(lambda: build_real(st, mcls, S._dcopy(v)) if mcls != 'WorkflowListSpec'
                                       else build_list(st, S._dcopy(v)), 1.0)
            if kind == 'hang':
                continue
            oracle = oracle_for(st, v)
            real = {'ok': canon_t(enc_obs(obs))} if kind == 'ok' else {'def': det['cls']} if kind == 'declared' \
                else {'stuck': det['exc'], 'det': det}
        except (S.Untransportable, RecursionError):
            ctx.count('ctor', 'untransportable')
            continue
        todo.append((k, mcls, oracle, real))
    outs = drv.batch('ctor.run', [{'cls': m, 'doc': recs[k]['doc'], 'oracle': o} for k, m, o, _ in todo])
    for (k, mcls, oracle, real), mo in zip(todo, outs):
        r = recs[k]
        if not isinstance(mo, dict):
            ctx.disagree('ctor', {'cls': mcls, 'doc': r['doc']}, mo, real)
            continue
        mkind = next(iter(mo))
        rkind = next(iter(real))
        ctx.evaluated('ctor', [mcls, k], nontrivial=rkind != 'def' or r.get('verdict') == 'ok')
        ctx.count('ctor', '%s:%s' % (mcls, rkind))
        no_name = rkind == 'stuck' and real['stuck'] == 'KeyError' and "'name'" in real['det'].get('msg', '') and \
            mcls in ('WorkflowSpec',)
        if rkind == 'stuck' and not no_name:
            det = real['det']
            ctx.violation('%s: the constructor / validate_semantics raises %s at %s [%s] instead of a definition error: %s' % (
                mcls, det['exc'], det['site'], det['line'], det['msg']),
                {'kind': 'schema-ctor', 'cls': r['cls'], 'doc': r['doc']},
                {'kind': 'internal-error', 'exc': det['exc'], 'site': det['site'], 'line': det['line']})
        if no_name:
            ctx.count('ctor', 'no-name (the list / workbook constructors inject it)')
        if mcls == 'WorkflowListSpec':
            # members go through the graph checks too (Model/Lang.lean): a model `ok` may be a real definition error
            agree = (mkind == rkind) or (mkind == 'ok' and rkind == 'def')
            if mkind == 'ok' and rkind == 'def':
                ctx.count('ctor', 'list-rejected-by-graph-or-later-checks')
        elif mcls in GRAPH_LATER and mkind == 'ok' and rkind == 'def':
            agree = True
            ctx.count('ctor', 'list-rejected-by-graph-or-later-checks')
        elif mkind == 'ok' and rkind == 'ok':
            agree = canon_t(mo['ok']) == real['ok']
        else:
            agree = mkind == rkind
        if not agree:
            ctx.disagree('ctor', {'cls': mcls, 'doc': r['doc'], 'oracle': oracle},
                         mo, {k2: v2 for k2, v2 in real.items() if k2 != 'det'})
    ctx.cov['ctor_stream_s'] = round(time.time() - t0, 1)


def build_list(st, v):
    from mistral.lang.v2 import workflows
    spec = workflows.WorkflowListSpec(v, True)
    return {w.get_name(): None for w in spec.get_workflows()}
