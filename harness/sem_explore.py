"""Support tooling for the declarative semantics `Mistral.Sem` (C02 / C10; NOT the verdict): the
refinement claim "the engine model, under EVERY lossless stop-free oracle-consistent history, is
sound w.r.t. the semantics on every prefix and equal to it at quiescence" is TESTED on the executable
model before it is proved.

For every generated small acyclic direct workflow (harness/live_explore.gen_small: forks, joins
all/one/N, on-error / on-complete, guards that do not fire, task-defaults, optional multiple
activation) and every oracle (set of failing tasks) the compiled Lean driver (`sem.explore`)
enumerates EVERY reachable world of `Mistral.Engine` (all delivery orders, pause / resume at every
point) and evaluates `sound` on every world and `complete` on every quiescent world.

  /venv/bin/python -m harness.sem_explore --n 300 --seed 0 --max-tasks 4 [--multi] [--stale] [--unclean]
                                          [--once] [--walks N] [--max-pauses 1] [--jobs 6]
"""
import argparse
import itertools
import json
import multiprocessing
import os
import random
import sys

sys.path.insert(0, os.path.dirname(os.path.dirname(os.path.abspath(__file__))))

from harness import live_explore as le


def T(n, succ=(), err=(), comp=(), join=None):
    return {'name': n, 'action': ['noop'], 'join': join,
            'on_success': [{'to': x, 'guard': None} for x in succ],
            'on_error': [{'to': x, 'guard': None} for x in err],
            'on_complete': [{'to': x, 'guard': None} for x in comp]}


HAND = list(le.HAND) + [
    # fork / join with a failing branch and an on-error route
    {'name': 'wf', 'type': 'direct', 'tasks': [
        T('a', succ=['b', 'c']), T('b', succ=['j'], err=['h']), T('c', succ=['j']),
        T('j', join='all', succ=['k']), T('h'), T('k')]},
    # a single failing task with an on-error route
    {'name': 'wf', 'type': 'direct', 'tasks': [T('a', err=['b']), T('b')]},
]


def oracles(prog, rng, max_oracles):
    names = [t['name'] for t in prog['tasks']]
    subs = [list(s) for k in range(len(names) + 1) for s in itertools.combinations(names, k)]
    if len(subs) > max_oracles:
        subs = [subs[0]] + rng.sample(subs[1:], max_oracles - 1)
    return subs


def _worker(args):
    seeds, opt = args
    from vlib import core
    drv = core.Driver()
    out = []
    for kind, s in seeds:
        if kind == 'hand':
            prog = HAND[s]
            rng = random.Random(s)
        else:
            rng = random.Random(s)
            prog = le.gen_small(rng, opt['max_tasks'], opt['multi'], False)
            if not le.acyclic(prog):
                continue
        spec = le.spec_json(prog)
        for failing in oracles(prog, rng, opt['max_oracles']):
            a = {'spec': spec, 'failing': failing, 'maxPauses': opt['max_pauses'], 'maxStates': opt['max_states'],
                 'stale': opt['stale'], 'clean': not opt['unclean'], 'once': opt['once']}
            if opt['walks']:
                a.update(walks=opt['walks'], maxLen=400, seed=s if isinstance(s, int) else 0)
            r = drv.call('sem.walk' if opt['walks'] else 'sem.explore', a)
            out.append((kind, s, prog, failing, r))
    return out


def main():
    ap = argparse.ArgumentParser()
    ap.add_argument('--n', type=int, default=200)
    ap.add_argument('--seed', type=int, default=0)
    ap.add_argument('--max-tasks', type=int, default=4)
    ap.add_argument('--multi', action='store_true', help='allow non-join tasks with several inbound routes')
    ap.add_argument('--stale', action='store_true', help='also take stale re-starts (outside the proved class)')
    ap.add_argument('--unclean', action='store_true', help='also expand worlds outside PausedClean')
    ap.add_argument('--once', action='store_true', help='also check one row per task')
    ap.add_argument('--jobs', type=int, default=6)
    ap.add_argument('--max-states', type=int, default=150000)
    ap.add_argument('--max-pauses', type=int, default=1)
    ap.add_argument('--max-oracles', type=int, default=8)
    ap.add_argument('--walks', type=int, default=0)
    ap.add_argument('--hand-only', action='store_true')
    ap.add_argument('--show', type=int, default=2)
    ap.add_argument('--out', default=None)
    a = ap.parse_args()
    opt = {'max_tasks': a.max_tasks, 'multi': a.multi, 'stale': a.stale, 'unclean': a.unclean, 'once': a.once,
           'max_states': a.max_states, 'max_pauses': a.max_pauses, 'max_oracles': a.max_oracles, 'walks': a.walks}
    seeds = [('hand', i) for i in range(len(HAND))] + (
        [] if a.hand_only else [('gen', a.seed * 1000003 + i) for i in range(a.n)])
    chunks = [(seeds[i::a.jobs], opt) for i in range(a.jobs)]
    with multiprocessing.Pool(a.jobs) as pool:
        res = [x for part in pool.map(_worker, chunks) for x in part]
    good = [x for x in res if isinstance(x[4], dict) and 'states' in x[4]]
    bad = [x for x in res if x not in good]
    print('cases %d  worlds %d  quiescent %d  truncated %d  stale-skipped %d  unclean-skipped %d  driver-errors %d' % (
        len(res), sum(x[4]['states'] for x in good), sum(x[4]['quiescent'] for x in good),
        sum(1 for x in good if x[4]['truncated']), sum(x[4]['staleSkipped'] for x in good),
        sum(x[4]['uncleanSkipped'] for x in good), len(bad)))
    print('cases in the single-activation class: %d' % sum(1 for x in good if x[4].get('singleAct')))
    for b in bad[:3]:
        print('  ERR', b[4])
    hits = {}
    for kind, s, prog, failing, r in good:
        for v in r['violations']:
            hits.setdefault(v['inv'], []).append({'kind': kind, 'seed': s, 'prog': prog, 'failing': failing,
                                                  'events': v['events'], 'world': v['world'], 'sem': r['sem']})
    for inv, hs in sorted(hits.items()):
        hs.sort(key=lambda h: (len(h['prog']['tasks']), len(h['events'])))
        print('VIOLATED %s: %d cases' % (inv, len(hs)))
        for h in hs[:a.show]:
            from harness import wfgen
            print('--- seed', h['kind'], h['seed'], 'failing', h['failing'])
            print(wfgen.render_yaml(h['prog']))
            print('  events:', ' ; '.join(le.fmt_ev(e) for e in h['events']))
            print('  world :', json.dumps(h['world']))
            print('  sem   :', json.dumps(h['sem']))
    if a.out:
        with open(a.out, 'w') as f:
            json.dump(hits, f)
    return 1 if hits else 0


if __name__ == '__main__':
    sys.exit(main())
