"""Import mistral in an order that avoids its import traps, quietly.

mistral.tests.unit must be imported FIRST: it selects the oslo.service threading backend
(otherwise eventlet gets selected implicitly and the test base can no longer be imported) and
parses the test configuration."""
import logging
import warnings

warnings.filterwarnings('ignore')
_done = False


def boot():
    global _done
    if _done:
        return
    import mistral.tests.unit  # noqa: backend selection
    from mistral.tests.unit import base as tbase  # noqa: test config, import order
    from mistral.db.v2 import api as db_api  # noqa
    from mistral import config  # noqa
    logging.disable(logging.CRITICAL)
    _done = True
