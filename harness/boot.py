"""Import mistral in an order that avoids its circular imports, quietly."""
import logging
import warnings

warnings.filterwarnings('ignore')
_done = False


def boot():
    global _done
    if _done:
        return
    from mistral.db.v2 import api as db_api  # noqa: must come first
    from mistral import config  # noqa
    logging.disable(logging.CRITICAL)
    _done = True
