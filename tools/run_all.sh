#!/bin/bash
# usage: tools/run_all.sh <seed> [tier]   runs every check sequentially, prints one line each
cd /verif
seed=${1:-0}; tier=${2:-quick}
for i in $(seq -w 1 20); do
  p=C$i
  s=$(date +%s)
  VERIF_SEED=$seed ./check $p --tier $tier > /tmp/all_${seed}_$p.log 2>&1
  rc=$?
  echo "$p seed=$seed rc=$rc $(( $(date +%s) - s ))s $(grep -c '^VIOLATION' /tmp/all_${seed}_$p.log) viol; $(tail -1 /tmp/all_${seed}_$p.log | cut -c1-160)"
done
