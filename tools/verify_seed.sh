#!/bin/bash
# usage: tools/verify_seed.sh <seed-id> <Cxx> [src-dir]
# Confirms a seeded change produced by a sub-agent, in a scratch worktree of /repo (never in /repo):
#  1. the demonstration passes on the unchanged tree, 2. the patch applies to /repo HEAD,
#  3. the demonstration fails with the patch, 4. the pinned test suite still passes with the patch
#     (SUITE=0 skips 4; SUITE=<paths> runs only those test paths).
# Stores patch.diff, demo_test.py, NOTES.md, verify.log and verify.json under /verif/seeded/<seed-id>/.
id=$1; prop=$2; src=${3:-/tmp/seed-out/$id}
dst=/verif/seeded/$id; mkdir -p $dst
cp $src/patch.diff $dst/patch.diff; cp $src/demo_test.py $dst/demo_test.py; [ -f $src/NOTES.md ] && cp $src/NOTES.md $dst/NOTES.md
wt=/tmp/vs-$id
git -C /repo worktree remove --force $wt 2>/dev/null
git -C /repo worktree add -q $wt HEAD || exit 3
log=$dst/verify.log; : > $log
cd $wt; cp $dst/demo_test.py $wt/demo_test.py
run_demo() { PYTHONPATH=$wt timeout 900 /venv/bin/python -m pytest -q -p no:cacheprovider demo_test.py 2>&1 | tail -3; }
echo "== demo on unchanged tree (expected: pass)" >> $log; run_demo > /tmp/vs-$id.a; cat /tmp/vs-$id.a >> $log
clean=$(grep -Ec '^[0-9]+ passed' /tmp/vs-$id.a)
git -C $wt apply $dst/patch.diff || { echo "PATCH DOES NOT APPLY" >> $log; cd /verif; git -C /repo worktree remove --force $wt; exit 3; }
echo "== demo with patch (expected: fail)" >> $log; run_demo > /tmp/vs-$id.b; cat /tmp/vs-$id.b >> $log
broken=$(grep -Ec 'failed|error' /tmp/vs-$id.b)
suite="skipped"
if [ "$SUITE" != "0" ]; then
  echo "== pinned suite with patch" >> $log
  paths=${SUITE:-mistral}
  PYTHONPATH=$wt timeout 3400 /venv/bin/python -m pytest -q -p no:cacheprovider --timeout=900 --continue-on-collection-errors -n ${NPROC:-6} --ignore=demo_test.py $paths 2>&1 | tail -6 > /tmp/vs-$id.c
  cat /tmp/vs-$id.c >> $log
  suite=$(grep -E 'passed|failed' /tmp/vs-$id.c | tail -1)
fi
cd /verif; git -C /repo worktree remove --force $wt
python3 - "$dst" "$id" "$prop" "$clean" "$broken" "$suite" <<'EOF'
import json, sys
dst, sid, prop, clean, broken, suite = sys.argv[1:7]
json.dump({'seed': sid, 'property': prop, 'demo_passes_on_clean_tree': clean != '0',
           'demo_fails_with_patch': broken != '0', 'suite_with_patch': suite}, open(dst + '/verify.json', 'w'), indent=1)
EOF
rm -f /tmp/vs-$id.a /tmp/vs-$id.b /tmp/vs-$id.c
cat $log; cat $dst/verify.json
