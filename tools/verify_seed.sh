#!/bin/bash
# usage: tools/verify_seed.sh <Cxx> [src-dir]
# Confirms a seeded change produced by a sub-agent, in a scratch worktree of /repo (never in /repo):
#  1. the demonstration passes on the unchanged tree, 2. the patch applies to /repo HEAD,
#  3. the demonstration fails with the patch, 4. the pinned test suite still passes with the patch.
# Stores patch.diff, demo_test.py, NOTES.md and verify.log under /verif/seeded/<Cxx>/.
id=$1; src=${2:-/tmp/seed-$id}
dst=/verif/seeded/$id; mkdir -p $dst
cp $src/patch.diff $dst/patch.diff; cp $src/demo_test.py $dst/demo_test.py; [ -f $src/NOTES.md ] && cp $src/NOTES.md $dst/NOTES.md
wt=/tmp/vs-$id
git -C /repo worktree remove --force $wt 2>/dev/null
git -C /repo worktree add -q $wt HEAD || exit 3
log=$dst/verify.log; : > $log
cd $wt; cp $dst/demo_test.py $wt/demo_test.py
run_demo() { PYTHONPATH=$wt timeout 900 /venv/bin/python -m pytest -q -p no:cacheprovider demo_test.py 2>&1 | tail -3; }
echo "== demo on unchanged tree (expected: pass)" >> $log; run_demo >> $log
git -C $wt apply $dst/patch.diff || { echo "PATCH DOES NOT APPLY" >> $log; git -C /repo worktree remove --force $wt; exit 3; }
echo "== demo with patch (expected: fail)" >> $log; run_demo >> $log
if [ "$SUITE" != "0" ]; then
  echo "== pinned suite with patch" >> $log
  PYTHONPATH=$wt timeout 3000 /venv/bin/python -m pytest -q -p no:cacheprovider --timeout=900 --continue-on-collection-errors -n 6 --ignore=demo_test.py mistral 2>&1 | tail -4 >> $log
fi
cd /verif; git -C /repo worktree remove --force $wt
cat $log
