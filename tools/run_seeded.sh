#!/bin/bash
# usage: tools/run_seeded.sh <seed-id> <prop> [<prop>...]
# applies /verif/seeded/<seed-id>/patch.diff to a scratch worktree of /repo and runs the quick checks against it
# (VERIF_REPO); with REAL=1 applies it to /repo itself and undoes it straight afterwards.
id=$1; shift
cd /verif
patch=/verif/seeded/$id/patch.diff
if [ "$REAL" = "1" ]; then
  git -C /repo apply $patch || exit 3
  for p in "$@"; do ./check $p --tier quick > /tmp/seeded_${id}_$p.log 2>&1; echo "$id $p rc=$? $(grep -c '^VIOLATION' /tmp/seeded_${id}_$p.log) $(grep '^VIOLATION' /tmp/seeded_${id}_$p.log | head -2 | tr '\n' ' ')"; done
  git -C /repo checkout -- .
else
  wt=/tmp/apply-$id
  git -C /repo worktree remove --force $wt 2>/dev/null
  git -C /repo worktree add -q $wt HEAD || exit 3
  git -C $wt apply $patch || { git -C /repo worktree remove --force $wt; exit 3; }
  for p in "$@"; do VERIF_REPO=$wt ./check $p --tier quick > /tmp/seeded_${id}_$p.log 2>&1; echo "$id $p rc=$? $(grep -c '^VIOLATION' /tmp/seeded_${id}_$p.log) $(grep '^VIOLATION' /tmp/seeded_${id}_$p.log | head -2 | tr '\n' ' ')"; done
  git -C /repo worktree remove --force $wt
fi
