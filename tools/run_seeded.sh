#!/bin/bash
# usage: tools/run_seeded.sh <seed-id> <prop> [<prop>...]
# applies /verif/seeded/<seed-id>/patch.diff to a scratch worktree of /repo and runs the quick checks against it
# (VERIF_REPO); with REAL=1 applies it to /repo itself and undoes it straight afterwards.
# TIER=thorough runs the thorough tier. Appends one line per run to /verif/seeded/<seed-id>/detect.log
id=$1; shift
cd /verif
patch=/verif/seeded/$id/patch.diff
tier=${TIER:-quick}
one() {  # $1 = prop
  local p=$1 log=/tmp/seeded_${id}_$p.log s=$(date +%s)
  ./check $p --tier $tier > $log 2>&1; local rc=$?
  local line="$id $p tier=$tier seed=${VERIF_SEED:-0} rc=$rc $(( $(date +%s) - s ))s viol=$(grep -c '^VIOLATION' $log) :: $(grep '^VIOLATION' $log | head -2 | tr '\n' ' ')"
  echo "$line"; echo "$line" >> /verif/seeded/$id/detect.log
  grep -h '^VIOLATION' $log | head -1 | sed 's/.*replay=\([^ ]*\).*/\1/' | while read r; do [ -f "$r" ] && head -c 1500 "$r" > /verif/seeded/$id/first_replay_$p.json; done
}
if [ "$REAL" = "1" ]; then
  git -C /repo apply $patch || exit 3
  for p in "$@"; do one $p; done
  git -C /repo checkout -- .
else
  wt=/tmp/apply-$id
  git -C /repo worktree remove --force $wt 2>/dev/null
  git -C /repo worktree add -q $wt HEAD || exit 3
  git -C $wt apply $patch || { git -C /repo worktree remove --force $wt; exit 3; }
  export VERIF_REPO=$wt
  for p in "$@"; do one $p; done
  git -C /repo worktree remove --force $wt
fi
