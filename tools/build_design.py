#!/usr/bin/env python3
"""Assembles /verif/DESIGN.md from its hand-written parts and from the data the framework already
holds (theorem names of each Props file, MANIFEST texts of props/*.py, known findings, seeded changes).
Run after changing any of them:  python3 tools/build_design.py"""
import ast
import glob
import json
import os
import re

V = os.path.dirname(os.path.dirname(os.path.abspath(__file__)))


def read(p):
    return open(os.path.join(V, p)).read()


def theorems(pid):
    out = []
    _, _, lm = prop_meta(pid)
    mods = [m.replace('.', '/') + '.lean' for m in (lm or ['Mistral.Props.%s' % pid])]
    for m in mods:
        try:
            src = read('lean/' + m)
        except OSError:
            continue
        out += re.findall(r'^\s*theorem\s+(\S+)', src, re.M)
    return out


def prop_meta(pid):
    src = read('props/%s.py' % pid)
    tree = ast.parse(src)
    meta, rule, lean_mods = {}, '', None
    for node in tree.body:
        if isinstance(node, ast.Assign):
            n = getattr(node.targets[0], 'id', '')
            if n == 'MANIFEST':
                meta = ast.literal_eval(node.value)
            elif n == 'RULE':
                rule = ast.literal_eval(node.value)
            elif n == 'LEAN_MODULES':
                lean_mods = ast.literal_eval(node.value)
    return meta, rule, lean_mods


def findings():
    res = []
    for f in [os.path.join(V, 'known_findings.json')] + sorted(glob.glob(os.path.join(V, 'known_findings.d', '*.json'))):
        for e in json.load(open(f))['findings']:
            res.append(e)
    return res


def main():
    props = [json.loads(l) for l in open(os.path.join(V, 'properties.jsonl'))]
    parts = [read('DESIGN.head.md'), read('docs/DESIGN_sec1.md'), '\n---------------------------------------------------------------------------\n\n',
             read('docs/DESIGN_body.md'),
             '\n---------------------------------------------------------------------------\n\n## 5. Per property\n\n'
             'For each property: what is **proved** (theorem names; statements and proofs in '
             '`lean/Mistral/Props/Cxx.lean`), how the model is **tied** to the code, what the **monitors** read, and '
             'what is decided by correspondence/monitor only. `_full_fails` = the full-strength statement is false '
             'of the code (proved with a witness that is replayed on the implementation); `_partial` = the provable '
             'restriction. Builder notes with stream sizes and mutation tables: `docs/Cxx.md` where present.\n\n']
    for p in props:
        pid = p['id']
        meta, rule, mods = prop_meta(pid)
        th = theorems(pid)
        parts.append('### %s — %s\n\n' % (pid, p['title']))
        parts.append('**Technique.** %s\n\n' % meta.get('technique', ''))
        parts.append('**What the check establishes.** %s\n\n' % meta.get('text', ''))
        parts.append('**Theorems (%d, %s).** %s\n\n' % (len(th), ', '.join('`%s`' % m for m in (mods or ['Mistral.Props.' + pid])),
                                                     ', '.join('`%s`' % t for t in th)))
        parts.append('**Streams / non-triviality rule.** %s\n\n' % rule)
        parts.append('**Assumed / modelled, not verified.** %s\n\n' % meta.get('note', ''))
        if os.path.exists(os.path.join(V, 'docs', pid + '.md')):
            parts.append('Details: `docs/%s.md`.\n\n' % pid)
    parts.append(read('docs/DESIGN_tail.md'))
    # ---- findings
    fs = findings()
    fixed = [e for e in fs if e['status'] == 'fixed']
    known = [e for e in fs if e['status'] == 'known']
    parts.append('\n### 9.1 Repaired (`fix:` commits in /repo) — %d entries\n\n| property | commit | what failed |\n|---|---|---|\n' % len(fixed))
    for e in sorted(fixed, key=lambda e: (e['property'], e.get('commit', ''))):
        w = re.sub(r'^fixed: property=\S+ \S+ ', '', e['what'])
        parts.append('| %s | %s | %s |\n' % (e['property'], e.get('commit', ''), w.replace('|', '\\|').replace('\n', ' ')[:420]))
    parts.append('\n### 9.2 Recorded as known findings — %d signatures\n\nEach is printed as `KNOWN-FINDING: property=… …` by the '
                 'check that hits it and is identified by its signature (below), so that a different violation of the same '
                 'property is still reported. Why they are not repaired: §9.3.\n\n| property | signature | what fails |\n|---|---|---|\n' % len(known))
    for e in sorted(known, key=lambda e: (e['property'], json.dumps(e['signature'], sort_keys=True))):
        parts.append('| %s | `%s` | %s |\n' % (e['property'], json.dumps(e['signature'], sort_keys=True).replace('|', '\\|'),
                                               e['what'].replace('|', '\\|').replace('\n', ' ')[:380]))
    parts.append(read('docs/DESIGN_tail2.md'))
    # ---- seeded
    parts.append('\n| seeded change | breaks | needs | caught by (quick tier) |\n|---|---|---|---|\n')
    for f in sorted(glob.glob(os.path.join(V, 'seeded', '*', 'meta.json'))):
        m = json.load(open(f))
        parts.append('| `seeded/%s` | %s | %s | %s |\n' % (os.path.basename(os.path.dirname(f)), m.get('property'),
                                                            m.get('needs', '').replace('|', '\\|')[:300],
                                                            m.get('caught_by', '').replace('|', '\\|')[:400]))
    parts.append(read('docs/DESIGN_tail3.md'))
    open(os.path.join(V, 'DESIGN.md'), 'w').write(''.join(parts))
    print('DESIGN.md: %d bytes, %d fixed, %d known' % (sum(len(x) for x in parts), len(fixed), len(known)))


if __name__ == '__main__':
    main()
