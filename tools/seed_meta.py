#!/usr/bin/env python3
"""Writes seeded/<id>/meta.json from what was recorded while confirming and running the seeded change:
verify.json (tools/verify_seed.sh), detect.log (tools/run_seeded.sh), needs.txt / breaks.txt (hand-written from the
sub-agent's notes).  usage: tools/seed_meta.py [<id> ...]"""
import glob
import json
import os
import re
import sys

V = os.path.dirname(os.path.dirname(os.path.abspath(__file__)))


def main():
    ids = sys.argv[1:] or sorted(os.path.basename(os.path.dirname(p)) for p in glob.glob(os.path.join(V, 'seeded', '*', 'patch.diff')))
    for sid in ids:
        d = os.path.join(V, 'seeded', sid)
        rd = lambda n: open(os.path.join(d, n)).read().strip() if os.path.exists(os.path.join(d, n)) else ''
        ver = json.load(open(os.path.join(d, 'verify.json'))) if os.path.exists(os.path.join(d, 'verify.json')) else {}
        runs = []
        for line in rd('detect.log').splitlines():
            m = re.match(r'(\S+) (\S+) tier=(\S+) seed=(\S+) rc=(\d+) (\d+)s viol=(\d+) ::\s?(.*)', line)
            if m:
                runs.append({'check': m.group(2), 'tier': m.group(3), 'seed': int(m.group(4)), 'exit': int(m.group(5)),
                             'wall_s': int(m.group(6)), 'violation_lines': int(m.group(7)),
                             'no_failing_input_found': 'no-failing-input-found' in m.group(8)})
        last = {}
        for r in runs:
            last[r['check']] = r            # the latest run of each check counts (earlier ones: before strengthening)
        caught = ['%s (%s)' % (c, 'concrete replay' if not r['no_failing_input_found'] else 'broken tie, no-failing-input-found')
                  for c, r in sorted(last.items()) if r['exit'] == 1]
        missed = [c for c, r in sorted(last.items()) if r['exit'] == 0]
        note = rd('note.txt')
        meta = {'seed': sid, 'property': ver.get('property') or sid[:3], 'breaks': rd('breaks.txt'), 'needs': rd('needs.txt'),
                'confirmed': {'demo_passes_on_clean_tree': ver.get('demo_passes_on_clean_tree'),
                              'demo_fails_with_patch': ver.get('demo_fails_with_patch'),
                              'pinned_suite_with_patch': ver.get('suite_with_patch')},
                'what_i_ran': 'tools/verify_seed.sh %s (scratch worktree: demo on clean tree, demo with patch, pinned suite with '
                              'patch); tools/run_seeded.sh %s <checks> (quick tier against a scratch worktree with the patch)' % (sid, sid),
                'runs': runs,
                'caught_by': ('; '.join(caught) if caught else ('NOT CAUGHT' if runs else 'not yet run')) + ((' — missed by: ' + ', '.join(missed)) if missed else '')
                             + ((' — ' + note) if note else '')}
        json.dump(meta, open(os.path.join(d, 'meta.json'), 'w'), indent=1)
        print(sid, meta['caught_by'])


if __name__ == '__main__':
    main()
