"""C08 — task policies bound and shape execution as documented.

Tie A: translate/policy_order.py (get_policy_factories order, hook/override table, schema-checked
fields, shape of construct_policies_list / build_policies) -> Gen/PolicyOrder.lean.
Tie B: stream `policy` (harness/policy_stream.py): one policy-bearing task plus a follow-up on the REAL
engine under a chosen schedule with a virtual clock, compared after every event with
Mistral.Policy.trace (Lean driver).
Monitor: the clauses of the statement read directly on the engine's committed rows.
"""
import json

GEN = ['policy_order']
MANIFEST = {
    'technique': 'Lean 4 theorems over an executable model of one task\'s life under the task policies (state machine with '
                 'virtual clock and scheduled jobs); generated policy-factory table; event-by-event differential check of '
                 'the model against the real engine; statement monitors on the engine rows',
    'text': 'Theorems, for ALL evaluated parameter values (ill-typed included), all per-attempt outcome sequences and all event '
            'orders (timers before/after/between results, late results, resume): action executions <= retry count + 1 '
            '(invariant inv_init/inv_step/inv_reachable); every job an event schedules is due exactly the configured delay '
            'after its scheduling time; a job is never run early; the timer leaves a completed task untouched and is a '
            'completion with ERROR+timeout message otherwise. Per completion step, for all states: no retry after an '
            'attempt that counts as success without continue-on, after continue-on false, after break-on true; a positive '
            'retry decision invalidates the result, bumps retry_no, delays the task and adds one continue job; SUCCESS iff the '
            'attempt counts as success (fail-on turns it into ERROR); wait-before / wait-after postpone (exactly one job, '
            'nothing started/dispatched meanwhile) and the postponed work happens when the job fires; pause-before pauses '
            'before any action and resume re-runs the task; ill-typed parameters force-fail the task, no crash unless '
            '_get_timeout meets an incomparable task-level timeout. The trace-level statements that are FALSE of the code '
            'are kept as *_full_fails theorems with witnesses replayed on the engine (known findings).',
    'note': 'the engine is driven in-process through monkeypatched seams (single process, transactions atomic); '
            'multi-process sub-transaction races are not exhibited; YAQL/Jinja evaluation of the parameter expressions is '
            'trusted (the model receives evaluated values); trace-level sequencing of attempts is proved only for the '
            'attempt bound, the stop/final-state clauses are per completion step plus correspondence',
}
RULE = ('stream policy: a generated workflow with one policy-bearing task t1 (retry count/delay/break-on/continue-on, '
        'wait-before, wait-after, timeout, pause-before, fail-on, concurrency; literals, YAQL and Jinja expressions over the '
        'input; task level, task-defaults or both; ~3% ill-typed values: strings, negatives, floats, booleans, null, lists) and a '
        'follow-up t2 (on-success/on-error/on-complete/none), a per-attempt oracle (outcome, continue-on flag, break-on flag), '
        'and a seeded schedule over {deliver an enabled message/job, tick the virtual clock to (or towards) the next due job '
        'even while results are outstanding, resume a paused workflow}; plus the enumeration count<=3 x all outcome sequences x '
        'timeout in {0,1,2,4,9} x wait-after x fail-on (sampled in quick, complete x3 schedules in thorough). After every event '
        'the engine rows of t1 (state, state_info class, retry_no, skip flags, action executions with accepted flags, '
        'scheduled jobs with due times, processed, number of follow-up rows, workflow state, undeclared errors) are compared '
        'with the model. non-trivial = the run exercised a policy mechanism (delay by wait-before/wait-after/retry, timeout, '
        'fail-on, pause-before, forced failure, timer on a completed task); distinct = distinct (policies, input, follow, '
        'oracle, schedule seed)')
TRUSTED = [
    'YAQL / Jinja evaluation of policy parameters and of the continue-on / break-on expressions (the model receives the '
    'evaluated values; the expressions used read `task().result`, whose accepted-results semantics IS modelled: evalFlags)',
    'jsonschema type check re-read as: integer (incl. integral float) >= 0 / boolean; checked on every ill-typed sample',
    'harness seams (post-commit queue, RPC client, executor, scheduler threads, clock) — see docs/ENGINE_HARNESS.md',
    'translator translate/policy_order.py (AST of mistral/engine/policies.py, fail closed)',
    'SQLAlchemy: JSON column mutation tracking of runtime_context (the in-memory `del policy_ctx["retry_no"]` is not '
    'persisted) — observed through the correspondence on retry_no only',
]
ASSUMPTIONS = ['single engine process: each entry point is one atomic transaction']


def correspond(ctx):
    from vlib import par
    k = 14
    if ctx.thorough():
        par.run_parallel(ctx, 'harness.policy_stream', 'run_chunk', [{'n_random': 420, 'n_enum': 0}] * k)
        par.run_parallel(ctx, 'harness.policy_stream', 'run_enum_slice',
                         [{'k': i, 'nslices': k, 'repeats': 3} for i in range(k)])
    else:
        par.run_parallel(ctx, 'harness.policy_stream', 'run_chunk', [{'n_random': 20, 'n_enum': 5}] * k)


def search(ctx):
    """A proof obligation / the correspondence no longer checks: look for a concrete failing input on the real
    engine with the statement monitors on a widened population (more random cases without and with ill-typed
    values, and a larger sample of the small enumeration)."""
    from vlib import par
    k = 14
    par.run_parallel(ctx, 'harness.policy_stream', 'run_chunk', [{'n_random': 25, 'n_enum': 12, 'bad_p': 0.0}] * k)
    if not ctx.violations:
        par.run_parallel(ctx, 'harness.policy_stream', 'run_chunk', [{'n_random': 20, 'n_enum': 0, 'bad_p': 0.15}] * k)


def replay(ctx, rep):
    """re-run the recorded case (definition, input, oracle, schedule seed) on the engine: correspondence + monitors"""
    from harness import policy_stream as ps
    r = rep.get('replay') or rep
    case = r.get('case')
    if case is None and isinstance(r.get('case'), dict):
        case = r['case']
    if case is None:
        # a broken-obligation file: replay its disagreeing cases
        for b in rep.get('no_longer_checks', []):
            d = b.get('detail')
            if isinstance(d, dict) and isinstance(d.get('case'), dict) and 'case' in d['case']:
                ps.run_one(ctx, d['case']['case'], count_features=False)
        return
    runner = ps.run_one(ctx, case, count_features=False)
    print('replayed: final t1 = %s, %d model events, violations=%d' % (
        json.dumps(runner.steps[-1]['obs']) if runner.steps else None,
        len([s for s in runner.steps if s['ev']]), len(ctx.violations)))
