"""C08 — task policies bound and shape execution as documented."""
GEN = ['policy_order']
MANIFEST = {
    'technique': 'WORK IN PROGRESS',
    'text': 'WORK IN PROGRESS',
    'note': '',
}
RULE = ('stream policy: WORK IN PROGRESS')
TRUSTED = []


def correspond(ctx):
    from vlib import par
    k = 14
    if ctx.thorough():
        chunks = [{'n_random': 350, 'n_enum': 0} for _ in range(k)]
        par.run_parallel(ctx, 'harness.policy_stream', 'run_chunk', chunks)
        par.run_parallel(ctx, 'harness.policy_stream', 'run_enum_slice',
                         [{'k': i, 'nslices': k, 'repeats': 3} for i in range(k)])
    else:
        par.run_parallel(ctx, 'harness.policy_stream', 'run_chunk', [{'n_random': 30, 'n_enum': 8}] * k)


def search(ctx):
    pass


def replay(ctx, rep):
    pass
